#!/bin/bash
# usage: all.sh quick|thorough [IDs...]   — runs the registered checks one after another and prints a summary
TIER="${1:-quick}"; shift
IDS="$@"
[ -z "$IDS" ] && IDS=$(python3 -c "import json;print(' '.join(json.load(open('$(dirname $(readlink -f $0))/props.json')).keys()))")
for id in $IDS; do
  s=$(date +%s)
  $(dirname $(readlink -f $0))/check.sh $id $TIER > ${VERIF_LOGDIR:-/tmp}/verif_all_$id.log 2>&1
  rc=$?
  echo "$id rc=$rc $(( $(date +%s) - s ))s $(grep -c '^VIOLATION' ${VERIF_LOGDIR:-/tmp}/verif_all_$id.log) violations; $(tail -1 ${VERIF_LOGDIR:-/tmp}/verif_all_$id.log)"
done
