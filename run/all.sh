#!/bin/bash
# usage: all.sh quick|thorough [IDs...]   — runs the registered checks one after another and prints a summary
TIER="${1:-quick}"; shift
IDS="$@"
[ -z "$IDS" ] && IDS=$(python3 -c "import json;print(' '.join(json.load(open('/verif/run/props.json')).keys()))")
for id in $IDS; do
  s=$(date +%s)
  /verif/run/check.sh $id $TIER > /tmp/verif_all_$id.log 2>&1
  rc=$?
  echo "$id rc=$rc $(( $(date +%s) - s ))s $(grep -c '^VIOLATION' /tmp/verif_all_$id.log) violations; $(tail -1 /tmp/verif_all_$id.log)"
done
