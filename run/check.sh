#!/bin/bash
# usage: check.sh <PROPERTY-ID> quick|thorough
# exit 0 held / 1 violation (replayed) / 2 engine-inconclusive
set -u
ID="$1"; TIER="${2:-quick}"
export GOFLAGS=-mod=mod GOPROXY=off GOSUMDB=off GOTOOLCHAIN=local
V="$(dirname "$(dirname "$(readlink -f "$0")")")"
mkdir -p $V/.cache/go-build
if [ ! -x $V/bin/gosmt ] || [ -n "$(find $V/engine -name '*.go' -newer $V/bin/gosmt 2>/dev/null | head -1)" ]; then
  (cd $V/engine && go build -o $V/bin/gosmt .) || { echo "ENGINE-INCONCLUSIVE property=$ID: engine build failed"; exit 2; }
fi
exec $V/bin/gosmt check -prop "$ID" -tier "$TIER" -repo "${VERIF_REPO:-/repo}" -verif $V ${VERIF_VERBOSE:+-v $VERIF_VERBOSE}
