#!/bin/bash
# builds the engine offline from files on disk
set -e
export GOFLAGS=-mod=mod GOPROXY=off GOSUMDB=off GOTOOLCHAIN=local
mkdir -p /verif/bin /verif/.cache/go-build /verif/evidence /verif/replays
cd /verif/engine && go build -o /verif/bin/gosmt .
echo "gosmt built"
