#!/bin/bash
# builds the engine offline from files on disk
set -e
export GOFLAGS=-mod=mod GOPROXY=off GOSUMDB=off GOTOOLCHAIN=local
V="$(dirname "$(dirname "$(readlink -f "$0")")")"
mkdir -p $V/bin $V/.cache/go-build $V/evidence $V/replays
cd $V/engine && go build -o $V/bin/gosmt .
echo "gosmt built"
