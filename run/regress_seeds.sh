#!/bin/bash
# usage: regress_seeds.sh [seed-ids...]  — applies every stored seed to a repository copy, runs the targeted property's quick
# check and reports whether it is (still) caught. Uses $VP_RUN_REPO (a snapshot) when set, else /repo itself.
export GOFLAGS=-mod=mod GOPROXY=off GOSUMDB=off GOTOOLCHAIN=local
V="$(dirname "$(dirname "$(readlink -f "$0")")")"
REPO="${VP_RUN_REPO:-/repo}"
[ -x $V/bin/gosmt ] || $V/run/setup.sh >/dev/null
cd "$REPO" || exit 9
[ -z "$(git status --porcelain)" ] || { echo "repo dirty"; exit 9; }
ids="$@"
[ -z "$ids" ] && ids=$(cd $V/seeded && ls -d [c-z][0-9][0-9] 2>/dev/null)
miss=0
for id in $ids; do
  d=$V/seeded/$id
  [ -f $d/meta.json ] || continue
  prop=$(python3 -c "import json;print(json.load(open('$d/meta.json'))['property'])")
  git apply $d/patch.diff 2>/dev/null || { echo "$id $prop PATCH-DOES-NOT-APPLY"; continue; }
  s=$(date +%s)
  cp $V/evidence/$prop.json /tmp/evidence_keep_$$.json 2>/dev/null
  VERIF_NO_SAMPLES=1 timeout 1800 $V/bin/gosmt check -prop $prop -tier quick -repo "$REPO" -verif $V > /tmp/regress_$$.log 2>&1
  rc=$?
  cp /tmp/evidence_keep_$$.json $V/evidence/$prop.json 2>/dev/null
  git checkout -- . && git clean -fdq
  h=$(grep -m1 "^  harness=" /tmp/regress_$$.log | sed 's/^  harness=\([A-Za-z0-9_]*\).*/\1/')
  echo "$id $prop rc=$rc $(( $(date +%s)-s ))s $h"
  [ $rc -eq 1 ] || miss=$((miss+1))
done
echo "NOT-CAUGHT=$miss"
rm -f /tmp/regress_$$.log /tmp/evidence_keep_$$.json
