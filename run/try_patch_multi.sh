#!/bin/bash
# usage: try_patch_multi.sh <patch.diff> <tier> <ID>...  — applies a change to /repo, runs several checks, reverts
set -u
P="$1"; TIER="$2"; shift 2
cd /repo || exit 9
[ -z "$(git status --porcelain)" ] || { echo "repo dirty"; exit 9; }
git apply "$P" || { echo "patch does not apply"; exit 9; }
for id in "$@"; do
  s=$(date +%s)
  cp /verif/evidence/$id.json /tmp/evidence_keep_$id.json 2>/dev/null
  timeout 1800 /verif/run/check.sh "$id" "$TIER" > /tmp/patch_try_$id.log 2>&1
  rc=$?
  cp /tmp/evidence_keep_$id.json /verif/evidence/$id.json 2>/dev/null; rm -f /tmp/evidence_keep_$id.json
  echo "$id rc=$rc $(( $(date +%s)-s ))s"; grep -E "^VIOLATION|^  harness=|^ENGINE|^KNOWN" /tmp/patch_try_$id.log | head -6
done
cd /repo && git checkout -- . && git clean -fdq
