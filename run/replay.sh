#!/bin/bash
# usage: replay.sh <replay.json>  — re-runs a recorded counterexample natively against /repo
export GOFLAGS=-mod=mod GOPROXY=off GOSUMDB=off GOTOOLCHAIN=local
exec /verif/bin/gosmt replay "$1"
