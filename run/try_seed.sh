#!/bin/bash
# usage: try_seed.sh <patch.diff> <ID> [tier]   — applies a seeded change to /repo, runs the check, reverts
set -u
P="$1"; ID="$2"; TIER="${3:-quick}"
cd /repo || exit 9
[ -z "$(git status --porcelain)" ] || { echo "repo dirty"; exit 9; }
git apply "$P" || { echo "patch does not apply"; exit 9; }
# the evidence file of a run on a modified tree must never replace the one describing the unchanged tree
cp /verif/evidence/$ID.json /tmp/evidence_keep_$ID.json 2>/dev/null
VERIF_NO_SAMPLES=1 timeout 1500 /verif/run/check.sh "$ID" "$TIER" > /tmp/seed_try.log 2>&1
rc=$?
cp /tmp/evidence_keep_$ID.json /verif/evidence/$ID.json 2>/dev/null; rm -f /tmp/evidence_keep_$ID.json
git checkout -- . && git clean -fdq
echo "rc=$rc"; grep -E "^VIOLATION|^  harness=|^ENGINE|^KNOWN|^property=" /tmp/seed_try.log | head -12
