#!/bin/bash
# usage: try_seed.sh <patch.diff> <ID> [tier]   — applies a seeded change to /repo, runs the check, reverts
set -u
P="$1"; ID="$2"; TIER="${3:-quick}"
cd /repo || exit 9
git diff --quiet || { echo "repo dirty"; exit 9; }
git apply "$P" || { echo "patch does not apply"; exit 9; }
VERIF_NO_SAMPLES=1 timeout 1500 /verif/run/check.sh "$ID" "$TIER" > /tmp/seed_try.log 2>&1
rc=$?
git checkout -- . 
echo "rc=$rc"; grep -E "^VIOLATION|^  harness=|^ENGINE|^KNOWN|^property=" /tmp/seed_try.log | head -12
