#!/usr/bin/env python3
# Regenerates /verif/MANIFEST.json from run/props.json (+ the per-property texts below).
import json, os
V = '/verif'
props = json.load(open(f'{V}/run/props.json'))
texts = json.load(open(f'{V}/run/claims.json'))
allids = [json.loads(l)['id'] for l in open(f'{V}/properties.jsonl')]
checks = []
for pid in allids:
    if pid not in props or pid in texts.get('_not_applicable', {}):
        continue
    t = texts.get(pid, {})
    checks.append({
        "property_id": pid,
        "quick_cmd": f"./run/check.sh {pid} quick",
        "thorough_cmd": f"./run/check.sh {pid} thorough",
        "evidence_file": f"evidence/{pid}.json",
        "replay_cmd_template": "VERIF_REPLAY={path} ./run/replay.sh {path}",
        "engine": "gosmt",
        "level_claimed": {"category": "model_checking",
                          "text": t.get("text", "bounded symbolic execution of the real Go SSA; every assertion discharged by an SMT solver for all inputs within the stated bounds"),
                          "design_ref": t.get("design_ref", "DESIGN.md §4")},
        "level_note": t.get("note", "trusted: go/ssa lowering, the gosmt interpreter and its dependency models (bytespool, sync.Pool, logging no-ops), z3 5.1; bounds as listed in the evidence file"),
        "technique": t.get("technique", "solver-based bounded model checking: go/ssa symbolic execution of the real functions + SMT (z3) per-assertion queries, counterexamples replayed natively"),
    })
na = [{"property_id": pid, "reason": texts.get('_not_applicable', {}).get(pid, "no solver-based check has been built for this property yet")}
      for pid in allids if pid not in [c['property_id'] for c in checks]]
m = {
 "version": 1,
 "setup_cmd": "./run/setup.sh",
 "hooks": {"guard": "verif", "enable": "no source hooks: harnesses and the verifrt runtime are injected with go/packages Overlay (symbolic run) and go test -overlay (native replay); nothing is written to /repo",
           "baseline_off_cmd": "cd /repo && go test -vet=off -count=1 -timeout 25m ./...",
           "source_commits": [], "add_only": True},
 "engines": [{"name": "gosmt", "path": "engine/", "serves_properties": [c['property_id'] for c in checks],
              "kind_free_text": "symbolic executor for Go SSA (golang.org/x/tools/go/ssa) written for this task: path forking, bit-vector terms, layered byte memory, SMT-LIB2 to an incremental z3 5.1 process; native replay of counterexamples via go test -overlay"}],
 "checks": checks,
 "not_applicable": na,
 "notes": "exit 0 = held within the bounds; exit 1 = VIOLATION (solver counterexample reproduced natively, or ghost ownership violation); exit 2 = engine inconclusive (unknown/timeout/unmodelled code/unreproduced counterexample) — never reported as success."
}
json.dump(m, open(f'{V}/MANIFEST.json', 'w'), indent=1)
print("checks:", [c['property_id'] for c in checks]); print("n/a:", [x['property_id'] for x in na])
