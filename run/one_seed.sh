#!/bin/bash
# usage: one_seed.sh <patch> <pkg> <harness-regexp> [tier] — one.sh on /repo with a seeded change applied (reverted afterwards)
cd /repo || exit 9
[ -z "$(git status --porcelain)" ] || { echo "repo dirty"; exit 9; }
git apply "$1" || { echo "patch does not apply"; exit 9; }
/verif/run/one.sh "$2" "$3" "${4:-quick}" "${5:-600}"
git -C /repo checkout -- . && git -C /repo clean -fdq
