#!/bin/bash
# usage: one.sh <pkg> <harness-regexp> [tier] [timeout]  — runs selected harnesses without touching evidence (development aid)
export GOFLAGS=-mod=mod GOPROXY=off GOSUMDB=off GOTOOLCHAIN=local
V="$(dirname "$(dirname "$(readlink -f "$0")")")"
(cd $V/engine && go build -o $V/bin/gosmt .) || exit 2
O=$(mktemp)
$V/bin/gosmt -repo /repo -verif $V -pkg "$1" -harness "$2" -tier "${3:-quick}" -j 14 -timeout "${4:-600}" -out $O 2>/tmp/one_err.log || tail -5 /tmp/one_err.log
python3 - $O <<'PY'
import sys,json
d=json.load(open(sys.argv[1]))
for r in d:
    print(r['name'], r['status'], 'paths',r['paths'],'q',r['queries'],'wall',round(r['wall_s'],1), (r.get('error') or '')[:400], sorted((r.get('reached') or {}).keys()))
    for v in (r.get('violations') or [])[:4]: print('  VIO', v.get('Kind'), v.get('Msg'), v.get('Pos'))
PY
rm -f $O
