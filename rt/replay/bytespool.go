// Replay variant of github.com/IrineSistiana/bytespool, substituted (go test -overlay) only while a
// solver counterexample is replayed natively. It mirrors the model used by the symbolic executor:
// per-size-class LIFO free lists (deterministic, no sync.Pool), fresh buffers of the small classes are
// filled with the "garbage" bytes the solver chose (@bp<n> in the replay file), and the two panics of
// the real package (nil, capacity that is not a size class) are kept. Double release panics.
package bytespool

import (
	"encoding/json"
	"fmt"
	"math/bits"
	"os"
	"sync"
	"unsafe"
)

var (
	mu       sync.Mutex
	free     = map[int][][]byte{}
	released = map[*byte]bool{}
	nfresh   int
	garbage  map[string]json.RawMessage
)

func init() {
	if p := os.Getenv("VERIF_REPLAY"); p != "" {
		VerifReload(p)
	}
}

// VerifReload resets the pool model and loads the garbage bytes of a replay/sample file.
func VerifReload(p string) {
	mu.Lock()
	defer mu.Unlock()
	free = map[int][][]byte{}
	released = map[*byte]bool{}
	nfresh = 0
	garbage = nil
	b, err := os.ReadFile(p)
	if err != nil {
		return
	}
	var doc struct {
		Model map[string]json.RawMessage `json:"model"`
	}
	if json.Unmarshal(b, &doc) == nil {
		garbage = doc.Model
	}
}

func class(size int) int {
	switch {
	case size <= 0:
		return 0
	case size <= 1<<8:
		return 1 << bits.Len(uint(size-1))
	case size <= 1<<30:
		b := bits.Len(uint(size - 1))
		l := ((size - 1) >> (b - 3)) & 0b11
		h := b - 9
		return 1<<(h+8) + (l+1)<<(h+6)
	}
	return size
}

func Get(size int) []byte {
	if size <= 0 {
		return []byte{}
	}
	mu.Lock()
	defer mu.Unlock()
	c := class(size)
	if l := free[c]; len(l) > 0 {
		b := l[len(l)-1]
		free[c] = l[:len(l)-1]
		delete(released, unsafe.SliceData(b))
		return b[:size]
	}
	b := make([]byte, c)
	if raw, ok := garbage[fmt.Sprintf("@bp%d", nfresh)]; ok {
		var v []int
		if json.Unmarshal(raw, &v) == nil {
			for i := 0; i < len(v) && i < len(b); i++ {
				b[i] = byte(v[i])
			}
		}
	}
	nfresh++
	return b[:size]
}

func Release(b []byte) {
	if b == nil {
		panic("releasing a nil []byte")
	}
	c := cap(b)
	if c == 0 {
		return
	}
	if class(c) != c {
		panic(fmt.Sprintf("invalid cap %d", c))
	}
	mu.Lock()
	defer mu.Unlock()
	p := unsafe.SliceData(b)
	if released[p] {
		panic("VERIF-GHOST: bytespool buffer released twice")
	}
	released[p] = true
	free[c] = append(free[c], b[:c])
}
