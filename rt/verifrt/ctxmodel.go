package verifrt

// Model of package context used under the symbolic executor: gosmt redirects context.With* and
// context.Cause to these functions. A deadline context may expire at ANY poll of Done()/Err() (a fresh
// nondeterministic choice each time, monotone afterwards) – the clock is not encoded, so "whenever the
// deadline strikes" is explored exhaustively at poll granularity.

import (
	"context"
	"time"
)

// CtxExpiry: when true, model deadlines never strike (harnesses that are not about deadlines).
var CtxNoExpiry = false

type ModelCtx struct {
	children []*ModelCtx
	parent   context.Context
	done     chan struct{}
	closed   bool
	err      error
	cause    error
	deadline bool
	dlCause  error
	timeout  time.Duration // as requested from WithTimeout (0 for WithDeadline)
}

func (c *ModelCtx) cancel(err, cause error) {
	if c.closed {
		return
	}
	c.closed = true
	c.err = err
	if cause == nil {
		cause = err
	}
	c.cause = cause
	close(c.done)
	for _, ch := range c.children {
		ch.cancel(err, cause)
	}
	c.children = nil
}

func (c *ModelCtx) poll() {
	if c.closed {
		return
	}
	if c.parent != nil {
		if perr := c.parent.Err(); perr != nil {
			c.cancel(perr, context.Cause(c.parent))
			return
		}
	}
	if c.deadline && !CtxNoExpiry && Bool("ctx.expire") {
		c.cancel(context.DeadlineExceeded, c.dlCause)
	}
}

func (c *ModelCtx) Deadline() (time.Time, bool) { return time.Time{}, c.deadline }
func (c *ModelCtx) Done() <-chan struct{}       { c.poll(); return c.done }
func (c *ModelCtx) Err() error                  { c.poll(); return c.err }
func (c *ModelCtx) Value(key any) any {
	if c.parent != nil {
		return c.parent.Value(key)
	}
	return nil
}

func newModelCtx(parent context.Context) *ModelCtx {
	c := &ModelCtx{parent: parent, done: make(chan struct{})}
	if p, ok := parent.(*ModelCtx); ok {
		// like the real package: cancellation propagates to children at once (also to goroutines blocked on Done())
		if p.closed {
			c.cancel(p.err, p.cause)
		} else {
			p.children = append(p.children, c)
		}
	}
	return c
}

func CtxWithCancel(parent context.Context) (context.Context, context.CancelFunc) {
	c := newModelCtx(parent)
	return c, func() { c.cancel(context.Canceled, nil) }
}

func CtxWithCancelCause(parent context.Context) (context.Context, context.CancelCauseFunc) {
	c := newModelCtx(parent)
	return c, func(cause error) { c.cancel(context.Canceled, cause) }
}

// deadlineCtxs: every deadline context created so far (for LetDeadlinesPass).
var deadlineCtxs []*ModelCtx

// LetDeadlinesPass models "enough time has passed": every deadline context that is still alive expires now, which
// also wakes goroutines blocked on its Done(). (A deadline otherwise only strikes at a poll; a goroutine parked on
// Done() of a context whose poll said "not yet" would stay parked in the model although its timer fires in reality.)
func LetDeadlinesPass() {
	for _, c := range deadlineCtxs {
		if !c.closed {
			c.cancel(context.DeadlineExceeded, c.dlCause)
		}
	}
	deadlineCtxs = nil
}

func CtxWithTimeoutCause(parent context.Context, d time.Duration, cause error) (context.Context, context.CancelFunc) {
	c := newModelCtx(parent)
	c.deadline = true
	c.dlCause = cause
	c.timeout = d
	deadlineCtxs = append(deadlineCtxs, c)
	return c, func() { c.cancel(context.Canceled, nil) }
}

func CtxWithTimeout(parent context.Context, d time.Duration) (context.Context, context.CancelFunc) {
	return CtxWithTimeoutCause(parent, d, nil)
}

func CtxWithDeadline(parent context.Context, t time.Time) (context.Context, context.CancelFunc) {
	return CtxWithTimeoutCause(parent, 0, nil)
}

func CtxCause(ctx context.Context) error {
	for {
		switch c := ctx.(type) {
		case *ModelCtx:
			c.poll()
			return c.cause
		default:
			return ctx.Err()
		}
	}
}

// NewDeadlineCtx gives harnesses a context that may expire at any poll.
func NewDeadlineCtx() (context.Context, context.CancelFunc) {
	return CtxWithTimeoutCause(context.Background(), 0, nil)
}

// CtxBudget reports the smallest timeout requested (context.WithTimeout / WithTimeoutCause) along the ancestor chain
// of ctx, i.e. the time budget under which the holder of ctx runs; ok is false if no ancestor carries a timeout.
func CtxBudget(ctx context.Context) (d time.Duration, ok bool) {
	for ctx != nil {
		c, isModel := ctx.(*ModelCtx)
		if !isModel {
			break
		}
		if c.deadline && c.timeout > 0 && (!ok || c.timeout < d) {
			d, ok = c.timeout, true
		}
		ctx = c.parent
	}
	return
}
