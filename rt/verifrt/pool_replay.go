//go:build verifreplay

package verifrt

import "github.com/IrineSistiana/bytespool"

// with the replay variant of bytespool (substituted by go test -overlay) the garbage bytes follow the sample
func reloadPool(p string) { bytespool.VerifReload(p) }
