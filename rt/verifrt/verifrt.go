// Package verifrt is the harness runtime. Under the symbolic executor (gosmt) every function here
// is intercepted and given symbolic semantics; the Go bodies below are the *native replay*
// implementation: nondeterministic sources are fed from the JSON file named by $VERIF_REPLAY,
// Assert panics, Assume aborts the replay as "not reproduced".
package verifrt

import (
	"bytes"
	"encoding/json"
	"fmt"
	"os"
	"time"
)

var replay map[string]json.RawMessage
var counters = map[string]int{}

// Tier is 0 for quick, 1 for thorough (gosmt overrides the variable before the harness runs).
var Tier = 0

func Thorough() bool { return Tier > 0 }

func init() {
	if os.Getenv("VERIF_TIER") == "thorough" {
		Tier = 1
	}
	if p := os.Getenv("VERIF_REPLAY"); p != "" {
		LoadReplay(p)
	}
}

// LoadReplay (re)loads a replay/sample file and resets the per-tag counters.
func LoadReplay(p string) {
	b, err := os.ReadFile(p)
	if err != nil {
		panic(err)
	}
	var doc struct {
		Model map[string]json.RawMessage `json:"model"`
		Tier  string                     `json:"tier"`
		Kind  string                     `json:"kind"`
		Reach string                     `json:"reach"`
	}
	if err := json.Unmarshal(b, &doc); err != nil {
		panic(err)
	}
	replay = doc.Model
	counters = map[string]int{}
	sampleTarget, sampleReached = "", false
	if doc.Kind == "sample" {
		sampleTarget = doc.Reach
	}
	if doc.Tier == "thorough" {
		Tier = 1
	} else if doc.Tier == "quick" {
		Tier = 0
	}
	reloadPool(p)
}

func next(tag string) (string, json.RawMessage) {
	n := counters[tag]
	counters[tag] = n + 1
	k := fmt.Sprintf("%s#%d", tag, n)
	return k, replay[k]
}

func num(tag string) uint64 {
	k, raw := next(tag)
	if raw == nil {
		return 0 // unconstrained by the counterexample
	}
	var v uint64
	if err := json.Unmarshal(raw, &v); err != nil {
		panic(fmt.Sprintf("verifrt: %s: %v", k, err))
	}
	return v
}

func Bool(tag string) bool {
	_, raw := next(tag)
	if raw == nil {
		return false
	}
	var v bool
	if err := json.Unmarshal(raw, &v); err != nil {
		panic(err)
	}
	return v
}
func Byte(tag string) byte  { return byte(num(tag)) }
func U16(tag string) uint16 { return uint16(num(tag)) }
func U32(tag string) uint32 { return uint32(num(tag)) }
func U64(tag string) uint64 { return num(tag) }
func Int(tag string) int    { return int(int64(num(tag))) }

func IntRange(tag string, lo, hi int) int {
	if lo == hi {
		return lo
	}
	v := int(int64(num(tag)))
	if v < lo || v > hi {
		NotReproduced(fmt.Sprintf("IntRange %s=%d outside [%d,%d]", tag, v, lo, hi))
	}
	return v
}

// Bytes returns a buffer of nondeterministic length 0..maxLen and content; cap == len.
func Bytes(tag string, maxLen int) []byte {
	_, raw := next(tag)
	if raw == nil {
		return []byte{}
	}
	var v []int
	if err := json.Unmarshal(raw, &v); err != nil {
		panic(err)
	}
	b := make([]byte, len(v))
	for i, x := range v {
		b[i] = byte(x)
	}
	return b
}

// BytesN returns a buffer of exactly n nondeterministic bytes.
func BytesN(tag string, n int) []byte {
	b := Bytes(tag, n)
	for len(b) < n {
		b = append(b, 0)
	}
	return b[:n:n]
}

type notReproduced struct{ why string }

func NotReproduced(why string) {
	fmt.Println("VERIF-REPLAY: not reproduced:", why)
	os.Exit(3)
}

// SampleDone ends the native run of a reachability sample: the recorded model fixes the inputs drawn up to the
// Reach marker only; inputs drawn later default to zero and may fall outside an assumption, which says nothing.
type SampleDone struct{}

var (
	sampleTarget  string
	sampleReached bool
)

func Assume(c bool) {
	if !c {
		if sampleReached {
			panic(SampleDone{})
		}
		NotReproduced("assumption false")
	}
}

func Assert(c bool, msg string) {
	if !c {
		panic("VERIF-ASSERT: " + msg)
	}
}

func Reach(tag string) {
	if replay != nil {
		fmt.Println("VERIF-REACH:", tag)
		if sampleTarget != "" && tag == sampleTarget {
			sampleReached = true
		}
	}
}
func Unwind(n int)     {}

// Expect declares (comma-separated) Reach markers that stand for the subject of the harness: if one of them is not
// reachable on the tree under check (in any shard), the check ends inconclusive instead of passing vacuously.
func Expect(tags string) {}

// EqBytes compares without forking (one term under gosmt).
func EqBytes(a, b []byte) bool { return bytes.Equal(a, b) }

func Ite(c bool, a, b int) int {
	if c {
		return a
	}
	return b
}
func And(a, b bool) bool     { return a && b }
func Or(a, b bool) bool      { return a || b }
func Implies(a, b bool) bool { return !a || b }

// Concrete forces a value to be concrete on each path (forks under gosmt).
func Concrete(v int) int { return v }

// Symbolic reports whether the harness runs under the symbolic executor.
func Symbolic() bool { return false }

// IsReleased / SameArray are ghost queries; natively they cannot be answered and report false.
func IsReleased(b []byte) bool { return false }
func SameArray(a, b []byte) bool {
	if cap(a) == 0 || cap(b) == 0 {
		return false
	}
	return &a[:cap(a)][cap(a)-1] == &b[:cap(b)][cap(b)-1]
}

// Shard is the index of the case-split shard this harness instance explores (harness names ending in _S<n>
// are run n times by the engine, in parallel).
func Shard() int {
	raw := replay["@shard"]
	if raw == nil {
		return 0
	}
	var v int
	json.Unmarshal(raw, &v)
	return v
}

// Choose returns a value in 0..n-1 that is concrete on every path (the engine forks n ways).
func Choose(tag string, n int) int { return Concrete(IntRange(tag, 0, n-1)) }

// SortSliceModel is the model the engine substitutes for sort.Slice: insertion sort driven by the caller's
// less function and an engine-native swap. (sort.Slice itself needs reflection.)
func SortSliceModel(n int, less func(i, j int) bool, swap func(i, j int)) {
	for i := 1; i < n; i++ {
		for j := i; j > 0 && less(j, j-1); j-- {
			swap(j, j-1)
		}
	}
}

// ---- scheduling / stubbing controls (meaningful only under the symbolic executor)

// Yield marks a point at which another goroutine may be scheduled (budgeted by SchedBound).
func Yield() {}

// SchedBound sets the number of voluntary context switches explored per path.
func SchedBound(n int) {}

// PreemptSync makes every synchronisation operation (lock, channel op, select) a voluntary switch point.
func PreemptSync() {}

// NoTimers: time.AfterFunc timers never fire in this scenario (idle time-outs of seconds are far away compared with
// the operations explored); without it a timer may fire at any scheduling point.
func NoTimers() {}

// AllowMainBlock: a blocked calling goroutine with nothing else runnable just ends the path (no deadlock report).
func AllowMainBlock() {}

// Goroutines returns the number of live goroutines (excluding unfired timers).
func Goroutines() int { return 1 }

// IsReleasedPtr reports whether the pooled object p points to has been put back into its pool (ghost state).
func IsReleasedPtr(p any) bool { return false }

// Redirect replaces calls of the named function (fully qualified, as printed by go/ssa) by fn, which must
// have the same signature (receiver first). Model-level only: natively a no-op.
func Redirect(name string, fn any) {}

// TimerPending reports whether a time.AfterFunc timer is armed and has not fired (ghost; natively unknown).
func TimerPending(t any) bool { return false }

// Quiesce lets every other goroutine run until none of them can make progress (timers excluded).
func Quiesce() {}

// OtterEvictAll: the cache library has evicted every entry (their time-to-live is over / capacity pressure): the
// otter model itself has no clock, so harnesses that let time pass say so explicitly.
func OtterEvictAll() {}

// GhostDuration reads a term-valued ghost, e.g. "otter.lastttl": the time-to-live most recently handed to the cache
// backend model; natively 0.
func GhostDuration(name string) time.Duration { return 0 }

// Ghost reads an engine-side ghost counter (e.g. "otter.closed"); natively 0.
func Ghost(name string) int { return 0 }

// MapExtraSize (xsync.MapOf model): from now on the map also holds n other entries, whose keys differ from every key
// the code under test looks up; they only show in Size(). Model-level.
func MapExtraSize(m any, n int) {}

// ---- modular verification primitives (symbolic executor only; natively they abort the replay)

// SymbolicMemory switches the executor to fully symbolic byte offsets/lengths for this harness (no
// concretisation by forking): needed when buffers are unbounded (BytesUF).
func SymbolicMemory() {}

// IntegerSolver selects cvc5 with bit-vectors solved as integers for this harness (must be its first statement): for
// harnesses whose queries are chains of 64-bit (in)equalities and additions (clock arithmetic, address ranges). Byte
// memory keeps its concretising representation, unlike SymbolicMemory.
func IntegerSolver() {}

// BytesUF returns a buffer of nondeterministic length 0..maxLen whose content is an uninterpreted function
// of the index (arbitrary bytes, no per-byte variables) — for claims up to 65535 octets.
func BytesUF(tag string, maxLen int) []byte {
	NotReproduced("BytesUF has no native counterpart")
	return nil
}

// LoopEnter runs the named function (as printed by go/ssa, e.g. "(*pkg.T).m") with args until control
// first reaches the loop header that defines the φ-variable headerPhi. Returns 0 when suspended at the
// header, 1 if the function returned first.
func LoopEnter(fn string, headerPhi string, args ...any) int {
	NotReproduced("LoopEnter has no native counterpart")
	return 1
}

// LoopNext resumes the suspended function: 0 = one iteration done (back at the header), 1 = returned.
func LoopNext() int { return 1 }

// LoopPhiInt reads a φ-variable of the suspended loop (for slices: the length).
func LoopPhiInt(name string) int { return 0 }

// LoopSetInt overwrites a φ-variable (for slices: the length) — used to put the loop into an arbitrary
// state that satisfies the invariant.
func LoopSetInt(name string, v int) {}

// LoopRetInt / LoopRetIsNil read the results after the function returned.
func LoopRetInt(i int) int     { return 0 }
func LoopRetIsNil(i int) bool { return false }
