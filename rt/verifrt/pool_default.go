//go:build !verifreplay

package verifrt

func reloadPool(p string) {}
