package router

import (
	"context"
	"errors"
	"net/netip"

	"github.com/IrineSistiana/mosproxy/internal/cache"
	"github.com/IrineSistiana/mosproxy/internal/dnsmsg"
	"github.com/IrineSistiana/mosproxy/internal/mlog"
	"github.com/IrineSistiana/mosproxy/internal/pool"
	"github.com/IrineSistiana/mosproxy/internal/verifrt"
)

var errVFake = errors.New("fake upstream failure")

// vUpstream is the scripted upstream: every call may fail or return an arbitrary well-formed reply.
type vUpstream struct {
	tag      string
	calls    int
	lastQ    []byte
	closed   int
	maxRecs  int
	lastResp *dnsmsg.Msg
	ctxSeen  context.Context
	fixedTTL bool
}

func (u *vUpstream) ExchangeContext(ctx context.Context, q []byte) (*dnsmsg.Msg, error) {
	u.calls++
	u.lastQ = append([]byte(nil), q...)
	u.ctxSeen = ctx
	if verifrt.Bool(u.tag + ".err") {
		return nil, errVFake
	}
	m := vRespMsg(u.tag+".resp", u.maxRecs)
	if u.fixedTTL {
		for _, rr := range m.Answers {
			rr.Hdr().TTL = 300
		}
	}
	u.lastResp = m
	return m, nil
}

func (u *vUpstream) Close() error { u.closed++; return nil }

func vRaw(tag string, typ dnsmsg.Type, nameShapes int, rdMax int) *dnsmsg.RawResource {
	r := dnsmsg.NewRaw()
	r.Name = vName(tag+".owner", vShapes[verifrt.Choose(tag+".shape", nameShapes)])
	r.Type = typ
	r.Class = dnsmsg.Class(verifrt.U16(tag + ".class"))
	r.TTL = verifrt.U32(tag + ".ttl")
	n := verifrt.Choose(tag+".rdlen", rdMax+1)
	d := pool.GetBuf(n)
	copy(d, verifrt.BytesN(tag+".rd", n))
	r.Data = d
	return r
}

// vRich selects the larger message families (thorough tier); vPlainReply keeps the upstream reply family small even
// then (harnesses whose subject is the query side).
var vRich = false
var vPlainReply = false

func vRawFixed(tag string, typ dnsmsg.Type, shape int, rdlen int) *dnsmsg.RawResource {
	r := dnsmsg.NewRaw()
	r.Name = vName(tag+".owner", vShapes[shape])
	r.Type = typ
	r.Class = dnsmsg.Class(verifrt.U16(tag + ".class"))
	r.TTL = verifrt.U32(tag + ".ttl")
	d := pool.GetBuf(rdlen)
	copy(d, verifrt.BytesN(tag+".rd", rdlen))
	r.Data = d
	return r
}

func vA(tag string) *dnsmsg.A {
	r := dnsmsg.NewA()
	r.Name = vName(tag+".owner", vShapes[1])
	r.Type = dnsmsg.TypeA
	r.Class = 1
	r.TTL = verifrt.U32(tag + ".ttl")
	copy(r.A[:], verifrt.BytesN(tag+".a", 4))
	return r
}

// vRespMsg: an arbitrary decoder-well-formed upstream reply: any header bits, one question, 0..maxRecs
// answers (A), optionally an authority raw record and an OPT with arbitrary class/ttl/options.
func vRespMsg(tag string, maxRecs int) *dnsmsg.Msg {
	m := dnsmsg.NewMsg()
	m.Header = dnsmsg.Header{
		ID: verifrt.U16(tag + ".id"), Response: verifrt.Bool(tag + ".qr"), OpCode: dnsmsg.OpCode(verifrt.U16(tag+".opcode") & 0xF),
		Authoritative: verifrt.Bool(tag + ".aa"), Truncated: verifrt.Bool(tag + ".tc"), RecursionDesired: verifrt.Bool(tag + ".rd"),
		RecursionAvailable: verifrt.Bool(tag + ".ra"), AuthenticData: verifrt.Bool(tag + ".ad"), CheckingDisabled: verifrt.Bool(tag + ".cd"),
		RCode: dnsmsg.RCode(verifrt.U16(tag+".rcode") & 0xF),
	}
	q := dnsmsg.NewQuestion()
	q.Name = vName(tag+".qname", vShapes[1])
	q.Type = dnsmsg.Type(verifrt.U16(tag + ".qtype"))
	q.Class = dnsmsg.Class(verifrt.U16(tag + ".qclass"))
	m.Questions = append(m.Questions, q)
	n := verifrt.Choose(tag+".nans", maxRecs+1)
	for i := 0; i < n; i++ {
		m.Answers = append(m.Answers, vA(tag+".an"))
	}
	if vRich && !vPlainReply {
		if verifrt.Bool(tag + ".hasns") {
			m.Authorities = append(m.Authorities, vRaw(tag+".ns", 6+64, 2, 2))
		}
		switch verifrt.Choose(tag+".opt", 3) {
		case 1:
			m.Additionals = append(m.Additionals, vRaw(tag+".optrr", dnsmsg.TypeOPT, 1, 4))
		case 2:
			m.Additionals = append(m.Additionals, vRaw(tag+".optrr", dnsmsg.TypeOPT, 1, 4))
			m.Additionals = append(m.Additionals, vRaw(tag+".ar", 16, 2, 1))
		}
		return m
	}
	switch verifrt.Choose(tag+".opt", 3) {
	case 1:
		m.Additionals = append(m.Additionals, vRawFixed(tag+".optrr", dnsmsg.TypeOPT, 0, 3))
	case 2:
		m.Additionals = append(m.Additionals, vRawFixed(tag+".optrr", dnsmsg.TypeOPT, 0, 0))
		m.Additionals = append(m.Additionals, vRawFixed(tag+".ar", 16, 1, 1))
	}
	return m
}

// vFamForce: when >= 0 the client address family is fixed by the harness shard (more shards = more cores).
var vFamForce = -1

func vAddrPort(tag string) netip.AddrPort {
	var a netip.Addr
	nf := 4
	if !vRich {
		nf = 2
	}
	fam := vFamForce
	if fam < 0 {
		fam = 3 - verifrt.Choose(tag+".fam", nf)
	}
	switch fam {
	case 0:
		b := verifrt.BytesN(tag+".v4", 4)
		a = netip.AddrFrom4([4]byte{b[0], b[1], b[2], b[3]})
	case 1:
		var x [16]byte
		copy(x[:], verifrt.BytesN(tag+".v6", 16))
		a = netip.AddrFrom16(x)
	case 2:
		b := verifrt.BytesN(tag+".v4m", 4)
		a = netip.AddrFrom16(netip.AddrFrom4([4]byte{b[0], b[1], b[2], b[3]}).As16())
	default:
		// unknown client address
	}
	return netip.AddrPortFrom(a, verifrt.U16(tag+".port"))
}

// vQuery: an arbitrary decodable client query: any header bits, 0..2 questions, 0..1 additional OPT
// (with arbitrary options) plus optionally another additional record.
func vQuery(tag string) *dnsmsg.Msg {
	m := dnsmsg.NewMsg()
	m.Header = dnsmsg.Header{
		ID: verifrt.U16(tag + ".id"), Response: verifrt.Bool(tag + ".qr"), OpCode: dnsmsg.OpCode(verifrt.U16(tag+".opcode") & 0xF),
		Authoritative: verifrt.Bool(tag + ".aa"), Truncated: verifrt.Bool(tag + ".tc"), RecursionDesired: verifrt.Bool(tag + ".rd"),
		RecursionAvailable: verifrt.Bool(tag + ".ra"), AuthenticData: verifrt.Bool(tag + ".ad"), CheckingDisabled: verifrt.Bool(tag + ".cd"),
		RCode: dnsmsg.RCode(verifrt.U16(tag+".rcode") & 0xF),
	}
	nq := verifrt.Choose(tag+".nq", 3)
	for i := 0; i < nq; i++ {
		if vRich {
			m.Questions = append(m.Questions, vQuestion(tag+".q", 3))
		} else {
			m.Questions = append(m.Questions, vQuestion(tag+".q", 2))
		}
	}
	switch verifrt.Choose(tag+".opt", 3) {
	case 1:
		if vRich {
			m.Additionals = append(m.Additionals, vRaw(tag+".optrr", dnsmsg.TypeOPT, 1, 4))
		} else {
			m.Additionals = append(m.Additionals, vRawFixed(tag+".optrr", dnsmsg.TypeOPT, 0, 3))
		}
	case 2:
		m.Additionals = append(m.Additionals, vRawFixed(tag+".ar", 16, 1, 1))
		m.Additionals = append(m.Additionals, vRawFixed(tag+".optrr", dnsmsg.TypeOPT, 0, 0))
	}
	return m
}

func vHasOpt(m *dnsmsg.Msg) bool {
	for _, rr := range m.Additionals {
		if rr.Hdr().Type == dnsmsg.TypeOPT {
			return true
		}
	}
	return false
}

// vRouter builds a router around scripted upstreams; cache on/off.
func vRouter(rules []*rule, withCache bool) *router {
	r := &router{
		logger:   mlog.Nop(),
		ctx:      context.Background(),
		limiter:  &resourceLimiter{},
		prefetch: newPrefetchCtl(),
		rules:    rules,
	}
	c := &cacheCtl{maximumTtl: defaultMaxCacheTtl}
	if withCache {
		mem, err := cache.NewMemoryCache(1 << 20)
		verifrt.Assume(err == nil)
		c.memory = mem
	}
	r.cache = c
	return r
}

func vLowerEq(a, b []byte) bool {
	if len(a) != len(b) {
		return false
	}
	ok := true
	for i := range a {
		x, y := a[i], b[i]
		lx := byte(verifrt.Ite('A' <= x && x <= 'Z', int(x)+32, int(x)))
		ly := byte(verifrt.Ite('A' <= y && y <= 'Z', int(y)+32, int(y)))
		ok = verifrt.And(ok, lx == ly)
	}
	return ok
}
