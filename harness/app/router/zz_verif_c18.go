package router

import (
	"context"
	"net"
	"crypto/tls"
	"crypto/x509"
	"errors"

	"github.com/IrineSistiana/mosproxy/internal/cache"
	"github.com/IrineSistiana/mosproxy/internal/verifrt"
	"github.com/rs/zerolog"
)

// VerifH_C18_FailedStartup: a listener that cannot be started (unknown protocol) makes run() return an
// error – never a panic – after closing what had been started.
func VerifH_C18_FailedStartup() {
	verifrt.Unwind(100)
	cfg := &Config{}
	switch verifrt.Choose("failing-component", 5) {
	case 0: // a listener that cannot start (after everything else is up)
		cfg.Servers = append(cfg.Servers, ServerConfig{Protocol: "no-such-protocol"})
	case 1: // an upstream entry without a tag
		cfg.Upstreams = append(cfg.Upstreams, UpstreamConfig{Addr: "udp://192.0.2.1"})
	case 2: // a rule that names an unknown upstream
		cfg.Rules = append(cfg.Rules, RuleConfig{Forward: "nope"})
	case 3: // a domain set without a tag
		cfg.DomainSets = append(cfg.DomainSets, DomainSetConfig{})
	default: // a rule that names an unknown domain set
		cfg.Rules = append(cfg.Rules, RuleConfig{Domain: "nope", Reject: 5})
	}
	r, err := run(context.Background(), cfg)
	verifrt.Reach("returned")
	verifrt.Assert(err != nil && r == nil, "start-up failure (unknown tag / missing tag / bad listener) is reported as an error, not ignored and not a panic")
}

// VerifH_C18_InitCacheLeak: when the second cache backend fails to initialise, the first one is closed.
func VerifH_C18_InitCacheLeak() {
	verifrt.Redirect("github.com/IrineSistiana/mosproxy/internal/cache.NewRedisCache",
		func(u string, logger *zerolog.Logger) (*cache.RedisCache, error) {
			return nil, errors.New("redis down")
		})
	r := vRouter(nil, false)
	c, err := r.initCache(&CacheConfig{MemSize: 1024, Redis: "redis://127.0.0.1:1"})
	verifrt.Reach("returned")
	verifrt.Assert(err != nil && c == nil, "backend failure is an error")
	verifrt.Assert(verifrt.Ghost("otter.closed") == 1, "the memory cache that was already started is closed again")
}

// VerifH_C18_RouterCloseIdempotent: close twice runs the shutdown once and closes every upstream.
func VerifH_C18_RouterCloseIdempotent() {
	up1, up2 := &vUpstream{tag: "u1"}, &vUpstream{tag: "u2"}
	r := vRouter(nil, true)
	_, cancel := verifrt.CtxWithCancelCause(nil)
	r.cancel = cancel
	r.upstreams = map[string]*upstreamWrapper{"a": {tag: "a", u: up1}, "b": {tag: "b", u: up2}}
	closers := 0
	r.serverClosers = append(r.serverClosers, func() { closers++ })
	r.close(nil)
	r.close(nil)
	verifrt.Reach("closed")
	verifrt.Assert(up1.closed == 1 && up2.closed == 1, "every upstream closed exactly once")
	verifrt.Assert(closers == 1, "every listener closed exactly once")
	verifrt.Assert(verifrt.Ghost("otter.closed") == 1, "cache closed")
}

// VerifH_C17_TlsConfig: the TLS options of the configuration reach the tls.Config: skip-verify, CA, and
// client-certificate verification on listeners.
func VerifH_C17_TlsConfig() {
	pool := x509.NewCertPool()
	verifrt.Redirect("github.com/IrineSistiana/mosproxy/app/router.loadCA", func(f string) (*x509.CertPool, error) { return pool, nil })
	cfg := &TlsConfig{InsecureSkipVerify: verifrt.Bool("skip"), VerifyClientCert: verifrt.Bool("verify-client")}
	if verifrt.Bool("ca") {
		cfg.CA = "ca.pem"
	}
	c, err := makeTlsConfig(cfg, false)
	verifrt.Assert(err == nil && c != nil, "config builds")
	verifrt.Reach("built")
	verifrt.Assert(c.InsecureSkipVerify == cfg.InsecureSkipVerify, "verification is disabled only when explicitly configured")
	if cfg.CA != "" {
		verifrt.Assert(c.RootCAs == pool, "the configured CA is the trust root")
	} else {
		verifrt.Assert(c.RootCAs == nil, "system roots by default")
	}
	if cfg.VerifyClientCert {
		verifrt.Assert(c.ClientAuth == tls.RequireAndVerifyClientCert, "verify_client_cert: clients must present a verified certificate")
		if cfg.CA != "" {
			verifrt.Assert(c.ClientCAs == pool, "client certificates are verified against the configured CA")
		}
	} else {
		verifrt.Assert(c.ClientAuth == tls.NoClientCert, "no client certificate demanded unless configured")
	}
}

// VerifH_C17_ConfiguredCAIsTheOnlyAnchor: "chains to the configured CA" means the configured CA is the ONLY trust anchor.
// The real loadCA runs against a modelled file system and certificate-pool library (every pool constructor is a recording
// stub: an empty pool, the system pool, clones): with `ca` configured the pool installed as RootCAs — and as ClientCAs
// on listeners that verify client certificates — is a pool that started EMPTY, is not (a clone of) the system pool, and
// received exactly the configured file's content, once. An unreadable or certificate-less file is a start-up error.
func VerifH_C17_ConfiguredCAIsTheOnlyAnchor() {
	pem := []byte("-----BEGIN CERTIFICATE-----configured-ca")
	readFails, parseFails := verifrt.Bool("read.fails"), verifrt.Bool("pem.invalid")
	var readPaths []string
	verifrt.Redirect("os.ReadFile", func(name string) ([]byte, error) {
		readPaths = append(readPaths, name)
		if readFails {
			return nil, errVFake
		}
		return pem, nil
	})
	var empty, tainted []*x509.CertPool
	type appendRec struct {
		p *x509.CertPool
		b []byte
	}
	var appends []appendRec
	verifrt.Redirect("crypto/x509.NewCertPool", func() *x509.CertPool {
		p := new(x509.CertPool)
		empty = append(empty, p)
		return p
	})
	verifrt.Redirect("crypto/x509.SystemCertPool", func() (*x509.CertPool, error) {
		p := new(x509.CertPool)
		tainted = append(tainted, p)
		return p, nil
	})
	verifrt.Redirect("(*crypto/x509.CertPool).Clone", func(s *x509.CertPool) *x509.CertPool {
		p := new(x509.CertPool)
		isEmpty := false
		for _, e := range empty {
			isEmpty = isEmpty || e == s
		}
		clean := isEmpty
		for _, a := range appends {
			if a.p == s {
				clean = false // (a clone of a pool that already holds certificates is not an empty start either)
			}
		}
		if clean {
			empty = append(empty, p)
		} else {
			tainted = append(tainted, p)
		}
		return p
	})
	verifrt.Redirect("(*crypto/x509.CertPool).AppendCertsFromPEM", func(s *x509.CertPool, b []byte) bool {
		appends = append(appends, appendRec{s, append([]byte(nil), b...)})
		return !parseFails
	})
	cfg := &TlsConfig{CA: "/etc/mosproxy/ca.pem", VerifyClientCert: verifrt.Bool("verify-client")}
	c, err := makeTlsConfig(cfg, false)
	verifrt.Reach("returned")
	if readFails || parseFails {
		verifrt.Assert(err != nil && c == nil, "an unreadable CA file or one without a certificate is a start-up error, not an empty or default trust store")
		return
	}
	verifrt.Reach("built")
	verifrt.Assert(err == nil && c != nil && c.RootCAs != nil, "config builds with a trust root")
	verifrt.Assert(len(readPaths) == 1 && readPaths[0] == cfg.CA, "the configured file is what is read")
	startedEmpty := false
	for _, p := range empty {
		startedEmpty = startedEmpty || p == c.RootCAs
	}
	verifrt.Assert(startedEmpty, "the trust root starts from an empty pool: no system or other certificates next to the configured CA")
	n := 0
	for _, a := range appends {
		if a.p == c.RootCAs {
			n++
			verifrt.Assert(verifrt.EqBytes(a.b, pem), "what is added to the trust root is the configured file's content")
		}
	}
	verifrt.Assert(n == 1, "added exactly once")
	if cfg.VerifyClientCert {
		verifrt.Assert(c.ClientAuth == tls.RequireAndVerifyClientCert && c.ClientCAs == c.RootCAs, "client certificates are verified against that same pool")
	}
}

// vRecListener is a bound listening socket: Accept blocks until it is closed.
type vRecListener struct {
	addr     string
	closedCh chan struct{}
	closed   int
}

func (l *vRecListener) Accept() (net.Conn, error) {
	<-l.closedCh
	return nil, errVNet
}
func (l *vRecListener) Close() error {
	l.closed++
	if l.closed == 1 {
		close(l.closedCh)
	}
	return nil
}
func (l *vRecListener) Addr() net.Addr { return &net.TCPAddr{IP: net.IP{127, 0, 0, 1}, Port: 5300} }

// VerifH_C18_FailedListenerLeavesNoSocket: "a start-up error (… bad certificate …) is reported as an error after
// releasing what had already been started … leaves no listening socket open" — including the failing listener's OWN
// socket, in whatever order it binds and loads its certificate. Configuration: a plain tcp server and a tls server without
// certificate (either order); the socket layer is a recording stub. run() fails, and every socket that was ever
// bound — by the healthy server and by the failing one — has been closed when it returns.
func VerifH_C18_FailedListenerLeavesNoSocket() {
	verifrt.Unwind(200)
	verifrt.SchedBound(1)
	verifrt.NoTimers()
	verifrt.CtxNoExpiry = true
	var bound []*vRecListener
	verifrt.Redirect("(*net.ListenConfig).Listen", func(lc *net.ListenConfig, ctx context.Context, network, address string) (net.Listener, error) {
		l := &vRecListener{addr: address, closedCh: make(chan struct{})}
		bound = append(bound, l)
		return l, nil
	})
	good := ServerConfig{Protocol: "tcp", Listen: "127.0.0.1:5301"}
	bad := ServerConfig{Protocol: "tls", Listen: "127.0.0.1:5302"}
	cfg := &Config{}
	if verifrt.Bool("bad-first") {
		cfg.Servers = []ServerConfig{bad, good}
	} else {
		cfg.Servers = []ServerConfig{good, bad}
	}
	r, err := run(context.Background(), cfg)
	verifrt.Quiesce()
	verifrt.Reach("returned")
	verifrt.Assert(err != nil && r == nil, "a listener without certificate is a start-up error, not a panic")
	for _, l := range bound {
		verifrt.Assert(l.closed >= 1, "no listening socket of the proxy stays open after a failed start-up — neither an earlier listener's nor the failing listener's own")
	}
}
