package router

import (
	"context"
	"crypto/tls"
	"crypto/x509"
	"errors"

	"github.com/IrineSistiana/mosproxy/internal/cache"
	"github.com/IrineSistiana/mosproxy/internal/verifrt"
	"github.com/rs/zerolog"
)

// VerifH_C18_FailedStartup: a listener that cannot be started (unknown protocol) makes run() return an
// error – never a panic – after closing what had been started.
func VerifH_C18_FailedStartup() {
	verifrt.Unwind(100)
	cfg := &Config{}
	switch verifrt.Choose("failing-component", 5) {
	case 0: // a listener that cannot start (after everything else is up)
		cfg.Servers = append(cfg.Servers, ServerConfig{Protocol: "no-such-protocol"})
	case 1: // an upstream entry without a tag
		cfg.Upstreams = append(cfg.Upstreams, UpstreamConfig{Addr: "udp://192.0.2.1"})
	case 2: // a rule that names an unknown upstream
		cfg.Rules = append(cfg.Rules, RuleConfig{Forward: "nope"})
	case 3: // a domain set without a tag
		cfg.DomainSets = append(cfg.DomainSets, DomainSetConfig{})
	default: // a rule that names an unknown domain set
		cfg.Rules = append(cfg.Rules, RuleConfig{Domain: "nope", Reject: 5})
	}
	r, err := run(context.Background(), cfg)
	verifrt.Reach("returned")
	verifrt.Assert(err != nil && r == nil, "start-up failure (unknown tag / missing tag / bad listener) is reported as an error, not ignored and not a panic")
}

// VerifH_C18_InitCacheLeak: when the second cache backend fails to initialise, the first one is closed.
func VerifH_C18_InitCacheLeak() {
	verifrt.Redirect("github.com/IrineSistiana/mosproxy/internal/cache.NewRedisCache",
		func(u string, logger *zerolog.Logger) (*cache.RedisCache, error) {
			return nil, errors.New("redis down")
		})
	r := vRouter(nil, false)
	c, err := r.initCache(&CacheConfig{MemSize: 1024, Redis: "redis://127.0.0.1:1"})
	verifrt.Reach("returned")
	verifrt.Assert(err != nil && c == nil, "backend failure is an error")
	verifrt.Assert(verifrt.Ghost("otter.closed") == 1, "the memory cache that was already started is closed again")
}

// VerifH_C18_RouterCloseIdempotent: close twice runs the shutdown once and closes every upstream.
func VerifH_C18_RouterCloseIdempotent() {
	up1, up2 := &vUpstream{tag: "u1"}, &vUpstream{tag: "u2"}
	r := vRouter(nil, true)
	_, cancel := verifrt.CtxWithCancelCause(nil)
	r.cancel = cancel
	r.upstreams = map[string]*upstreamWrapper{"a": {tag: "a", u: up1}, "b": {tag: "b", u: up2}}
	closers := 0
	r.serverClosers = append(r.serverClosers, func() { closers++ })
	r.close(nil)
	r.close(nil)
	verifrt.Reach("closed")
	verifrt.Assert(up1.closed == 1 && up2.closed == 1, "every upstream closed exactly once")
	verifrt.Assert(closers == 1, "every listener closed exactly once")
	verifrt.Assert(verifrt.Ghost("otter.closed") == 1, "cache closed")
}

// VerifH_C17_TlsConfig: the TLS options of the configuration reach the tls.Config: skip-verify, CA, and
// client-certificate verification on listeners.
func VerifH_C17_TlsConfig() {
	pool := x509.NewCertPool()
	verifrt.Redirect("github.com/IrineSistiana/mosproxy/app/router.loadCA", func(f string) (*x509.CertPool, error) { return pool, nil })
	cfg := &TlsConfig{InsecureSkipVerify: verifrt.Bool("skip"), VerifyClientCert: verifrt.Bool("verify-client")}
	if verifrt.Bool("ca") {
		cfg.CA = "ca.pem"
	}
	c, err := makeTlsConfig(cfg, false)
	verifrt.Assert(err == nil && c != nil, "config builds")
	verifrt.Reach("built")
	verifrt.Assert(c.InsecureSkipVerify == cfg.InsecureSkipVerify, "verification is disabled only when explicitly configured")
	if cfg.CA != "" {
		verifrt.Assert(c.RootCAs == pool, "the configured CA is the trust root")
	} else {
		verifrt.Assert(c.RootCAs == nil, "system roots by default")
	}
	if cfg.VerifyClientCert {
		verifrt.Assert(c.ClientAuth == tls.RequireAndVerifyClientCert, "verify_client_cert: clients must present a verified certificate")
		if cfg.CA != "" {
			verifrt.Assert(c.ClientCAs == pool, "client certificates are verified against the configured CA")
		}
	} else {
		verifrt.Assert(c.ClientAuth == tls.NoClientCert, "no client certificate demanded unless configured")
	}
}
