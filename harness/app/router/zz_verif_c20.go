package router

import (
	"net/netip"
	"time"

	domainmatcher "github.com/IrineSistiana/mosproxy/internal/domain_matcher"

	"github.com/IrineSistiana/mosproxy/internal/verifrt"
)

// VerifH_C20_PrefetchOutlivesRequest: the background refresh a cache hit starts runs after the request that
// started it has returned and released its question, message and request context, and while the next request is
// already living on those recycled objects. The refresh must only touch memory it owns: any access to a released
// or re-issued object is reported by the ownership ghosts; on top of that every query the upstream sees is for a
// question some client really asked, and the recycling request is forwarded exactly once.
func VerifH_C20_PrefetchOutlivesRequest() {
	verifrt.Unwind(400)
	verifrt.SchedBound(1 + verifrt.Tier) // thorough: one more deviation from the default schedule
	verifrt.CtxNoExpiry = true
	up := &vKeyedUpstream{}
	r := vRouter([]*rule{{upstream: &upstreamWrapper{tag: "up", u: up}}}, true)
	s, out := vUDPServer(r)
	listener := netip.AddrPortFrom(netip.AddrFrom4([4]byte{192, 0, 2, 53}), 53)
	client := netip.AddrPortFrom(netip.AddrFrom4([4]byte{198, 51, 100, 1}), 1111)
	// A: miss, fills the cache
	s.handleMsg(vQueryMsg(1, 'a', false, 0), nil, client, listener)
	verifrt.Quiesce()
	// B: same question at an arbitrary later instant (hit; inside the refresh window for some clock values)
	s.handleMsg(vQueryMsg(2, 'a', false, 0), nil, client, listener)
	// C: another question, handled while B's refresh (if any) has not run yet
	s.handleMsg(vQueryMsg(3, 'b', false, 0), nil, client, listener)
	verifrt.Quiesce()
	verifrt.Reach("served")
	verifrt.Assert(len(*out) == 3, "one datagram per query")
	nb := 0
	for _, m := range up.seen {
		verifrt.Assert(m == 'a' || m == 'b', "the upstream only sees questions that were asked")
		if m == 'b' {
			nb++
		}
	}
	verifrt.Assert(nb == 1, "request C is forwarded exactly once; a refresh never asks for another request's question")
	if len(up.seen) == 3 {
		verifrt.Reach("refreshed")
	}
}

// VerifH_C07_RefreshFiledUnderOwnQuestion: the cache is also written by background refreshes, which outlive the
// request that started them. Under a harness-controlled clock: a miss on question a (60 s lifetime), 50 s later a hit
// on a (inside the refresh window by construction), then a query for b handled while the refresh of a is still
// pending or in flight (≤ 1 scheduling deviation), then — once everything has settled, one second later — repeats of
// b and of a. Whatever was stored meanwhile, every one of the five responses carries its own question and the answer
// the upstream produced for exactly that question (the upstream's answers are a function of the question it is
// asked), the repeats are served from the cache, and the upstream was only ever asked questions that clients asked.
func VerifH_C07_RefreshFiledUnderOwnQuestion() {
	verifrt.Unwind(400)
	verifrt.SchedBound(1 + verifrt.Tier) // thorough: one more deviation from the default schedule
	verifrt.CtxNoExpiry = true
	base := time.Unix(1700000000, 0)
	offset := time.Duration(0)
	verifrt.Redirect("time.Now", func() time.Time { return base.Add(offset) })
	verifrt.Redirect("time.Until", func(t time.Time) time.Duration { return t.Sub(base.Add(offset)) })
	verifrt.Redirect("time.Since", func(t time.Time) time.Duration { return base.Add(offset).Sub(t) })
	up := &vKeyedUpstream{}
	r := vRouter([]*rule{{upstream: &upstreamWrapper{tag: "up", u: up}}}, true)
	s, out := vUDPServer(r)
	listener := netip.AddrPortFrom(netip.AddrFrom4([4]byte{192, 0, 2, 53}), 53)
	client := netip.AddrPortFrom(netip.AddrFrom4([4]byte{198, 51, 100, 1}), 1111)
	s.handleMsg(vQueryMsg(1, 'a', false, 0), nil, client, listener)
	verifrt.Quiesce()
	offset = 50 * time.Second
	s.handleMsg(vQueryMsg(2, 'a', false, 0), nil, client, listener)
	s.handleMsg(vQueryMsg(3, 'b', false, 0), nil, client, listener)
	verifrt.Quiesce()
	forwarded := len(up.seen)
	verifrt.Assert(forwarded == 3, "a and b were forwarded once each, and the hit on a started one refresh")
	offset = 51 * time.Second
	s.handleMsg(vQueryMsg(4, 'b', false, 0), nil, client, listener)
	s.handleMsg(vQueryMsg(5, 'a', false, 0), nil, client, listener)
	verifrt.Quiesce()
	verifrt.Reach("served")
	verifrt.Assert(len(*out) == 5, "one datagram per query")
	markers := []byte{'a', 'a', 'b', 'b', 'a'}
	answered := [6]int{}
	for _, d := range *out {
		id := int(d.b[0])<<8 | int(d.b[1])
		verifrt.Assert(id >= 1 && id <= 5, "response to one of the queries")
		answered[id]++
		vCheckResponse(d.b, uint16(id), markers[id-1], true)
	}
	for id := 1; id <= 5; id++ {
		verifrt.Assert(answered[id] == 1, "each query answered once")
	}
	verifrt.Assert(len(up.seen) == forwarded, "the repeats are answered from the cache (more than one second of lifetime remains)")
	for _, m := range up.seen {
		verifrt.Assert(m == 'a' || m == 'b', "the upstream only sees questions that were asked")
	}
}

// VerifH_C10_RefreshReachesOnlyItsUpstream: rules also govern the BACKGROUND refreshes: names under `a` go to upstream 1,
// everything else to upstream 2. Miss on a, hit on a inside the refresh window (harness clock), then a query for b
// while the refresh is pending or running (≤ 1 scheduling deviation; b's request recycles the pooled objects of the
// hit's request): upstream 1 is only ever asked for a, upstream 2 only ever for b, each question exactly as often as
// the history requires, and every response carries the answer for its own question.
func VerifH_C10_RefreshReachesOnlyItsUpstream() {
	verifrt.Unwind(400)
	verifrt.SchedBound(1 + verifrt.Tier) // thorough: one more deviation from the default schedule
	verifrt.CtxNoExpiry = true
	base := time.Unix(1700000000, 0)
	offset := time.Duration(0)
	verifrt.Redirect("time.Now", func() time.Time { return base.Add(offset) })
	verifrt.Redirect("time.Until", func(t time.Time) time.Duration { return t.Sub(base.Add(offset)) })
	verifrt.Redirect("time.Since", func(t time.Time) time.Duration { return base.Add(offset).Sub(t) })
	up1, up2 := &vKeyedUpstream{}, &vKeyedUpstream{}
	m0 := domainmatcher.NewMixMatcher()
	verifrt.Assume(m0.Add([]byte("domain:a")) == nil)
	r := vRouter([]*rule{{matcher: m0, upstream: &upstreamWrapper{tag: "up1", u: up1}}, {upstream: &upstreamWrapper{tag: "up2", u: up2}}}, true)
	s, out := vUDPServer(r)
	listener := netip.AddrPortFrom(netip.AddrFrom4([4]byte{192, 0, 2, 53}), 53)
	client := netip.AddrPortFrom(netip.AddrFrom4([4]byte{198, 51, 100, 1}), 1111)
	s.handleMsg(vQueryMsg(1, 'a', false, 0), nil, client, listener)
	verifrt.Quiesce()
	offset = 50 * time.Second
	s.handleMsg(vQueryMsg(2, 'a', false, 0), nil, client, listener)
	s.handleMsg(vQueryMsg(3, 'b', false, 0), nil, client, listener)
	verifrt.Quiesce()
	verifrt.Reach("served")
	verifrt.Assert(len(*out) == 3, "one datagram per query")
	markers := []byte{'a', 'a', 'b'}
	for _, d := range *out {
		id := int(d.b[0])<<8 | int(d.b[1])
		verifrt.Assert(id >= 1 && id <= 3, "response to one of the queries")
		vCheckResponse(d.b, uint16(id), markers[id-1], true)
	}
	for _, m := range up1.seen {
		verifrt.Assert(m == 'a', "the upstream of the `a` rule is only ever asked for a (also by background refreshes)")
	}
	for _, m := range up2.seen {
		verifrt.Assert(m == 'b', "the catch-all upstream is only ever asked for b")
	}
	verifrt.Assert(len(up1.seen) == 2 && len(up2.seen) == 1, "a was fetched once and refreshed once, b fetched once")
}
