package router

import (
	"net/netip"

	"github.com/IrineSistiana/mosproxy/internal/verifrt"
)

// VerifH_C20_PrefetchOutlivesRequest: the background refresh a cache hit starts runs after the request that
// started it has returned and released its question, message and request context, and while the next request is
// already living on those recycled objects. The refresh must only touch memory it owns: any access to a released
// or re-issued object is reported by the ownership ghosts; on top of that every query the upstream sees is for a
// question some client really asked, and the recycling request is forwarded exactly once.
func VerifH_C20_PrefetchOutlivesRequest() {
	verifrt.Unwind(400)
	verifrt.SchedBound(1)
	verifrt.CtxNoExpiry = true
	up := &vKeyedUpstream{}
	r := vRouter([]*rule{{upstream: &upstreamWrapper{tag: "up", u: up}}}, true)
	s, out := vUDPServer(r)
	listener := netip.AddrPortFrom(netip.AddrFrom4([4]byte{192, 0, 2, 53}), 53)
	client := netip.AddrPortFrom(netip.AddrFrom4([4]byte{198, 51, 100, 1}), 1111)
	// A: miss, fills the cache
	s.handleMsg(vQueryMsg(1, 'a', false, 0), nil, client, listener)
	verifrt.Quiesce()
	// B: same question at an arbitrary later instant (hit; inside the refresh window for some clock values)
	s.handleMsg(vQueryMsg(2, 'a', false, 0), nil, client, listener)
	// C: another question, handled while B's refresh (if any) has not run yet
	s.handleMsg(vQueryMsg(3, 'b', false, 0), nil, client, listener)
	verifrt.Quiesce()
	verifrt.Reach("served")
	verifrt.Assert(len(*out) == 3, "one datagram per query")
	nb := 0
	for _, m := range up.seen {
		verifrt.Assert(m == 'a' || m == 'b', "the upstream only sees questions that were asked")
		if m == 'b' {
			nb++
		}
	}
	verifrt.Assert(nb == 1, "request C is forwarded exactly once; a refresh never asks for another request's question")
	if len(up.seen) == 3 {
		verifrt.Reach("refreshed")
	}
}
