package router

import (
	"context"
	"net"
	"net/netip"
	"time"

	"github.com/IrineSistiana/mosproxy/internal/dnsmsg"
	"github.com/IrineSistiana/mosproxy/internal/limiter"
	"github.com/IrineSistiana/mosproxy/internal/verifrt"
	"github.com/quic-go/quic-go"
	"golang.org/x/time/rate"
)

type vCharge struct {
	addr netip.Addr
	n    int
}

// vLimitedRouter: a router whose per-client limiter is a recording stub with an arbitrary verdict.
func vLimitedRouter(up *vKeyedUpstream) (*router, *[]vCharge) {
	var charges []vCharge
	verifrt.Redirect("(*github.com/IrineSistiana/mosproxy/internal/limiter.ClientLimiter).AllowN",
		func(cl *limiter.ClientLimiter, addr netip.Addr, now time.Time, n int) bool {
			charges = append(charges, vCharge{addr, n})
			return verifrt.Bool("limiter.allow")
		})
	r := vRouter([]*rule{{upstream: &upstreamWrapper{tag: "up", u: up}}}, false)
	r.limiter = &resourceLimiter{cl: &limiter.ClientLimiter{}}
	return r, &charges
}

type vListener struct {
	conns []net.Conn
	pos   int
}

func (l *vListener) Accept() (net.Conn, error) {
	if l.pos >= len(l.conns) {
		return nil, errVNet
	}
	c := l.conns[l.pos]
	l.pos++
	return c, nil
}
func (l *vListener) Close() error   { return nil }
func (l *vListener) Addr() net.Addr { return &net.TCPAddr{} }

type vQConn struct {
	quic.Connection
	closed int
}

func (c *vQConn) LocalAddr() net.Addr  { return &net.UDPAddr{IP: net.IP{192, 0, 2, 53}, Port: 853} }
func (c *vQConn) RemoteAddr() net.Addr { return &net.UDPAddr{IP: net.IP{198, 51, 100, 9}, Port: 40000} }
func (c *vQConn) CloseWithError(quic.ApplicationErrorCode, string) error {
	c.closed++
	return nil
}
func (c *vQConn) AcceptStream(ctx context.Context) (quic.Stream, error) { return nil, errVNet }

// VerifH_C15_CallSites: every admission decision charges the CLIENT's address, and a refused UDP/TCP
// query is answered REFUSED and not forwarded.
func VerifH_C15_CallSites_S5() {
	verifrt.Unwind(200)
	verifrt.SchedBound(0)
	verifrt.CtxNoExpiry = true
	up := &vKeyedUpstream{}
	r, charges := vLimitedRouter(up)
	client4 := netip.AddrFrom4([4]byte{192, 0, 2, 1})
	switch verifrt.Shard() {
	case 0: // UDP query
		s, out := vUDPServer(r)
		remote := netip.AddrPortFrom(netip.AddrFrom4([4]byte{198, 51, 100, 7}), 1111)
		s.handleMsg(vQueryMsg(7, 'a', false, 0), nil, remote, netip.AddrPortFrom(client4, 53))
		verifrt.Quiesce()
		verifrt.Reach("udp")
		verifrt.Assert(len(*charges) >= 1 && (*charges)[0].addr == remote.Addr() && (*charges)[0].n == costUDPQuery, "UDP admission charges the sender's address")
		verifrt.Assert(len(*out) == 1, "one datagram either way")
		b := (*out)[0].b
		if up.calls == 0 {
			verifrt.Assert(b[3]&0xF == 5 && b[0] == 0 && b[1] == 7, "a refused UDP query is answered REFUSED")
		}
	case 1: // TCP query on an accepted connection
		s := &tcpServer{r: r, maxConcurrent: 10, idleTimeout: 1}
		c := newVTCPConn()
		c.inbox <- vFrame(vQueryMsg(9, 'a', false, 0))
		done := make(chan struct{})
		go func() { s.handleConn(c); close(done) }()
		verifrt.Quiesce()
		c.Close()
		<-done
		verifrt.Reach("tcp")
		verifrt.Assert(len(*charges) >= 1 && (*charges)[0].addr == client4 && (*charges)[0].n == costTCPQuery, "TCP query admission charges the peer's address")
		verifrt.Assert(len(c.writes) == 1, "one frame either way")
		if up.calls == 0 {
			verifrt.Assert(c.writes[0][5]&0xF == 5, "a refused TCP query is answered REFUSED")
		}
	case 2: // TCP accept
		c := newVTCPConn()
		c.Close() // the client sends nothing
		s := &tcpServer{r: r, maxConcurrent: 10, idleTimeout: 1, l: &vListener{conns: []net.Conn{c}}}
		err := s.run()
		verifrt.Reach("accept")
		verifrt.Assert(err != nil, "accept loop ends with the listener")
		verifrt.Assert(len(*charges) >= 1 && (*charges)[0].addr == client4 && (*charges)[0].n == costTCPConn, "connection admission charges the peer's address")
	case 3: // gnet open
		e := &gnetServer{r: r, maxConcurrent: 4, idleTimeout: 1}
		c := &vGnetConn{}
		_, act := e.OnOpen(c)
		verifrt.Reach("gnet")
		verifrt.Assert(len(*charges) == 1 && (*charges)[0].addr == client4 && (*charges)[0].n == costTCPConn, "gnet connection admission charges the peer's address")
		_ = act
	default: // QUIC accept
		qc := &vQConn{}
		n := 0
		verifrt.Redirect("(*github.com/quic-go/quic-go.Listener).Accept", func(l *quic.Listener, ctx context.Context) (quic.Connection, error) {
			n++
			if n == 1 {
				return qc, nil
			}
			return nil, errVNet
		})
		s := &quicServer{r: r, idleTimeout: 1}
		s.run()
		verifrt.Quiesce()
		verifrt.Reach("quic")
		verifrt.Assert(len(*charges) >= 1 && (*charges)[0].n == costQuicConn, "QUIC connection admission is charged")
		verifrt.Assert((*charges)[0].addr == netip.AddrFrom4([4]byte{198, 51, 100, 9}), "QUIC connection admission charges the CLIENT's address, not the server's own")
	}
}

// VerifH_C15_GlobalRefusalChargesNobody: both limits configured. Only the global budget is shared between clients:
// when the shared budget refuses a request, no client's own bucket is debited for it (otherwise other subnets'
// traffic would use up a client's private budget without anything having been admitted for it); the caller's
// address and cost reach the client limiter unchanged, both limiters see the same instant, and a request is
// admitted exactly when both admit it.
func VerifH_C15_GlobalRefusalChargesNobody() {
	var gCalls, cCalls []vCharge
	var gNow, cNow []time.Time
	gv, cv := verifrt.Bool("global.allows"), verifrt.Bool("client.allows")
	verifrt.Redirect("(*golang.org/x/time/rate.Limiter).AllowN", func(l *rate.Limiter, now time.Time, n int) bool {
		gCalls = append(gCalls, vCharge{netip.Addr{}, n})
		gNow = append(gNow, now)
		return gv
	})
	verifrt.Redirect("(*github.com/IrineSistiana/mosproxy/internal/limiter.ClientLimiter).AllowN",
		func(cl *limiter.ClientLimiter, addr netip.Addr, now time.Time, n int) bool {
			cCalls = append(cCalls, vCharge{addr, n})
			cNow = append(cNow, now)
			return cv
		})
	l := &resourceLimiter{global: new(rate.Limiter), cl: &limiter.ClientLimiter{}}
	b := verifrt.BytesN("addr", 4)
	addr := netip.AddrFrom4([4]byte{b[0], b[1], b[2], b[3]})
	n := verifrt.IntRange("cost", 1, 100)
	err := l.AllowN(addr, n)
	verifrt.Reach("decided")
	verifrt.Assert((err == nil) == (gv && cv), "admitted exactly when the shared budget and the client's own budget both admit")
	verifrt.Assert(len(gCalls) <= 1 && len(cCalls) <= 1, "each budget is consulted at most once per request")
	if !gv {
		verifrt.Assert(len(cCalls) == 0, "a request refused by the shared budget is not charged to the client's own bucket")
	}
	for i, c := range cCalls {
		verifrt.Assert(c.addr == addr && c.n == n, "the client limiter sees the caller's address and cost")
		verifrt.Assert(len(gNow) == 0 || cNow[i] == gNow[0], "both budgets are charged at the same instant")
	}
	for _, c := range gCalls {
		verifrt.Assert(c.n == n, "the shared budget is charged the same cost")
	}
}

// VerifH_C15_ChargesArePositive: the budget bound "burst + rate x window" only holds if the limiter is never used to ADD
// tokens: every cost handed to it is positive, whatever becomes of the query — answered from the upstream, from the
// cache, rejected by a rule, or failed (upstream error / time-out). Through the request handler with a recording
// limiter stub (arbitrary verdicts) and an upstream that answers or fails: every charge names the client and has n > 0.
func VerifH_C15_ChargesArePositive() {
	verifrt.Unwind(200)
	verifrt.CtxNoExpiry = true
	up := &vFlakyUpstream{}
	var charges []vCharge
	verifrt.Redirect("(*github.com/IrineSistiana/mosproxy/internal/limiter.ClientLimiter).AllowN",
		func(cl *limiter.ClientLimiter, addr netip.Addr, now time.Time, n int) bool {
			charges = append(charges, vCharge{addr, n})
			return verifrt.Bool("limiter.allow")
		})
	var rules []*rule
	if verifrt.Bool("reject-rule") {
		rules = append(rules, &rule{reject: 5})
	} else {
		rules = append(rules, &rule{upstream: &upstreamWrapper{tag: "up", u: up}})
	}
	r := vRouter(rules, verifrt.Bool("cache"))
	r.limiter = &resourceLimiter{cl: &limiter.ClientLimiter{}}
	client := netip.AddrPortFrom(netip.AddrFrom4([4]byte{198, 51, 100, 7}), 999)
	for i := 0; i < 2; i++ {
		m := dnsmsg.NewMsg()
		m.Header.ID, m.Header.RecursionDesired = uint16(i+1), true
		q := dnsmsg.NewQuestion()
		q.Name, q.Type, q.Class = dnsmsg.Name([]byte{1, 'q'}), 1, 1
		m.Questions = append(m.Questions, q)
		rc := getRequestContext()
		rc.RemoteAddr = client
		r.handleServerReq(m, rc)
		verifrt.Assert(rc.Response.Msg != nil, "answered")
	}
	verifrt.Reach("handled")
	for _, c := range charges {
		verifrt.Assert(c.n > 0, "every cost handed to the limiter is positive: it is never used to give tokens back")
		verifrt.Assert(c.addr == client.Addr(), "and is charged to the client")
	}
}

// VerifH_C15_HTTPListenerAdmission: the HTTP listeners admit connections through the limiting listener wrapper: three
// connections from three clients arrive, the limiter refuses any subset: Accept hands out exactly the admitted ones in
// order, every connection is charged once — to ITS client, with the configured per-connection cost — and a refused
// connection is closed at once and never handed to the HTTP server.
func VerifH_C15_HTTPListenerAdmission() {
	verifrt.Unwind(80)
	verifrt.CtxNoExpiry = true
	up := &vKeyedUpstream{}
	r, charges := vLimitedRouter(up)
	var conns []*vTCPConn
	inner := &vListener{}
	for i := 0; i < 3; i++ {
		c := newVTCPConn()
		c.remote = &net.TCPAddr{IP: net.IP{198, 51, 100, byte(10 + i)}, Port: 4000 + i}
		conns = append(conns, c)
		inner.conns = append(inner.conns, c)
	}
	cost := []int{costTCPConn, costTLSConn}[verifrt.Choose("tls", 2)]
	l := newListener(inner, r.logger, r.limiter, cost)
	var got []net.Conn
	for {
		c, err := l.Accept()
		if err != nil {
			break
		}
		got = append(got, c)
	}
	verifrt.Reach("drained")
	verifrt.Assert(len(*charges) == 3, "every connection is submitted to the limiter exactly once")
	k := 0
	for i, ch := range *charges {
		verifrt.Assert(ch.n == cost, "with the per-connection cost of the listener kind")
		verifrt.Assert(ch.addr == netip.AddrFrom4([4]byte{198, 51, 100, byte(10 + i)}), "charged to the connecting client")
	}
	for i, c := range conns {
		handed := k < len(got) && got[k] == net.Conn(c)
		if handed {
			k++
			verifrt.Assert(!c.closed, "an admitted connection is handed out open")
		} else {
			verifrt.Assert(c.closed, "a refused connection is closed at once")
		}
		_ = i
	}
	verifrt.Assert(k == len(got), "only admitted connections are handed out, in arrival order")
}
