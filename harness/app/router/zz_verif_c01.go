package router

import (
	"context"
	"net/netip"
	"time"

	"github.com/IrineSistiana/mosproxy/internal/dnsmsg"
	"github.com/IrineSistiana/mosproxy/internal/verifrt"
)

// VerifH_C01_UDPDatagram: an arbitrary datagram – a header with small arbitrary counts and flags followed by a few
// arbitrary octets, cut anywhere – never crashes the UDP listener. If it is not a decodable message nothing is
// sent back; if it is, exactly one datagram goes back to the sender and to nobody else.
func VerifH_C01_UDPDatagram() {
	verifrt.Unwind(200)
	verifrt.SchedBound(0)
	verifrt.CtxNoExpiry = true
	r := vRouter(nil, false)
	s, out := vUDPServer(r)
	cnt := verifrt.BytesN("counts", 4)
	for _, c := range cnt {
		verifrt.Assume(c <= 1)
	}
	tail := verifrt.Bytes("tail", 5)
	pkt := append([]byte{0xab, 0xcd, verifrt.Byte("flags0"), verifrt.Byte("flags1"), 0, cnt[0], 0, cnt[1], 0, cnt[2], 0, cnt[3]}, tail...)
	cut := verifrt.Concrete(verifrt.IntRange("truncate", 0, 17))
	verifrt.Assume(cut <= len(pkt))
	pkt = pkt[:cut]
	client := netip.AddrPortFrom(netip.AddrFrom4([4]byte{198, 51, 100, 7}), 4242)
	listener := netip.AddrPortFrom(netip.AddrFrom4([4]byte{192, 0, 2, 53}), 53)
	s.handleMsg(pkt, nil, client, listener)
	verifrt.Quiesce()
	verifrt.Reach("handled")
	verifrt.Assert(len(*out) <= 1, "at most one datagram per datagram")
	if len(*out) == 1 {
		verifrt.Reach("answered")
		d := (*out)[0]
		verifrt.Assert(d.remote == client, "the response goes back to the sender")
		verifrt.Assert(len(d.b) >= 12 && d.b[0] == 0xab && d.b[1] == 0xcd && d.b[2]&0x80 != 0, "it is a response carrying the datagram's ID")
		verifrt.Assert(cut >= 12, "only a datagram with a complete header can have been decoded")
	}
}

// VerifH_C01_TCPGarbage: a TCP client sending a frame whose declared length lies (0..20) followed by arbitrary
// octets, in two arbitrary segments, then closing: the connection handler terminates without a crash and writes
// nothing unless the frame really was a decodable message.
func VerifH_C01_TCPGarbage() {
	verifrt.Unwind(200)
	verifrt.SchedBound(0)
	verifrt.CtxNoExpiry = true
	r := vRouter(nil, false)
	s := &tcpServer{r: r, maxConcurrent: 4, idleTimeout: 1}
	c := newVTCPConn()
	data := verifrt.Bytes("data", 6)
	if len(data) >= 2 {
		verifrt.Assume(data[0] == 0 && data[1] <= 20)
	}
	cut := verifrt.Concrete(verifrt.IntRange("cut", 0, 6))
	verifrt.Assume(cut <= len(data))
	done := make(chan struct{})
	go func() { s.handleConn(c); close(done) }()
	for _, seg := range [][]byte{data[:cut], data[cut:]} {
		if len(seg) > 0 {
			c.inbox <- seg
		}
	}
	verifrt.Quiesce()
	c.Close()
	<-done
	verifrt.Reach("ended")
	verifrt.Assert(len(c.writes) == 0, "at most 4 octets of body can never be a DNS message: nothing is written")
}

// vShapelessUpstream returns a reply that DECODES but need not look like an answer to what was asked: 0, 1 or 2
// questions (arbitrary one-label names, types, classes — a bare 12-octet header is what many servers send for FORMERR),
// QR/TC/rcode arbitrary, 0..1 answers (TTL 60), optional OPT.
type vShapelessUpstream struct{ calls int }

func (u *vShapelessUpstream) ExchangeContext(ctx context.Context, q []byte) (*dnsmsg.Msg, error) {
	u.calls++
	m := dnsmsg.NewMsg()
	m.Header.ID = verifrt.U16("shapeless.id")
	m.Header.Response, m.Header.Truncated = verifrt.Bool("shapeless.qr"), verifrt.Bool("shapeless.tc")
	m.Header.RCode = dnsmsg.RCode(verifrt.U16("shapeless.rcode") & 0xF)
	nq := verifrt.Choose("shapeless.nq", 3)
	for i := 0; i < nq; i++ {
		qq := dnsmsg.NewQuestion()
		qq.Name = vName("shapeless.qname", vShapes[1])
		qq.Type, qq.Class = dnsmsg.Type(verifrt.U16("shapeless.qtype")), dnsmsg.Class(verifrt.U16("shapeless.qclass"))
		m.Questions = append(m.Questions, qq)
	}
	if verifrt.Bool("shapeless.answer") {
		a := vA("shapeless.an")
		a.TTL = 60
		m.Answers = append(m.Answers, a)
	}
	if verifrt.Bool("shapeless.opt") {
		m.Additionals = append(m.Additionals, vRawFixed("shapeless.optrr", dnsmsg.TypeOPT, 0, 0))
	}
	return m, nil
}
func (u *vShapelessUpstream) Close() error { return nil }

// VerifH_C01_RouterSurvivesAnyReply: "No byte sequence arriving … from an upstream as a reply makes the process panic":
// above the transports, the request handler (rules, forwarding, cache store, EDNS0 fix-up, response packing) receives
// ANY decodable reply — no question at all, a foreign question, two questions, any QR/TC/rcode — for a supported query
// with or without OPT, cache on or off (harness clock): nothing panics, exactly one response comes out carrying the
// query's ID, QR=1, RA=1 and RD, and it packs. A second query one second later (served from what the first one left in
// the cache, or forwarded again) is handled just as well.
func VerifH_C01_RouterSurvivesAnyReply() {
	verifrt.Unwind(80)
	verifrt.CtxNoExpiry = true
	base := time.Unix(1700000000, 0)
	offset := time.Duration(0)
	verifrt.Redirect("time.Now", func() time.Time { return base.Add(offset) })
	verifrt.Redirect("time.Until", func(t time.Time) time.Duration { return t.Sub(base.Add(offset)) })
	verifrt.Redirect("time.Since", func(t time.Time) time.Duration { return base.Add(offset).Sub(t) })
	up := &vShapelessUpstream{}
	withCache := verifrt.Bool("cache")
	r := vRouter([]*rule{{upstream: &upstreamWrapper{tag: "up", u: up}}}, withCache)
	ask := func(id uint16) {
		m := dnsmsg.NewMsg()
		m.Header.ID, m.Header.RecursionDesired = id, true
		q := dnsmsg.NewQuestion()
		q.Name, q.Type, q.Class = dnsmsg.Name([]byte{1, 'q'}), 1, 1
		m.Questions = append(m.Questions, q)
		if verifrt.Bool("client.opt") {
			m.Additionals = append(m.Additionals, vRawFixed("client.optrr", dnsmsg.TypeOPT, 0, 0))
		}
		rc := getRequestContext()
		rc.RemoteAddr = netip.AddrPortFrom(netip.AddrFrom4([4]byte{198, 51, 100, 7}), 999)
		r.handleServerReq(m, rc)
		resp := rc.Response.Msg
		verifrt.Assert(resp != nil, "a response is always produced")
		verifrt.Assert(resp.ID == id && resp.Response && resp.RecursionAvailable && resp.RecursionDesired, "with the query's ID, QR=1, RA=1, RD")
		b := mustHaveRespB(m, resp, dnsmsg.RCodeRefused, false, 1200)
		verifrt.Assert(len(b) >= 12 && uint16(b[0])<<8|uint16(b[1]) == id, "and it packs")
	}
	ask(0x1111)
	verifrt.Reach("first-answered")
	if withCache {
		offset = time.Second
		ask(0x2222)
		verifrt.Reach("second-answered")
	}
}
