package router

import (
	"net/netip"

	"github.com/IrineSistiana/mosproxy/internal/verifrt"
)

// VerifH_C01_UDPDatagram: an arbitrary datagram – a header with small arbitrary counts and flags followed by a few
// arbitrary octets, cut anywhere – never crashes the UDP listener. If it is not a decodable message nothing is
// sent back; if it is, exactly one datagram goes back to the sender and to nobody else.
func VerifH_C01_UDPDatagram() {
	verifrt.Unwind(200)
	verifrt.SchedBound(0)
	verifrt.CtxNoExpiry = true
	r := vRouter(nil, false)
	s, out := vUDPServer(r)
	cnt := verifrt.BytesN("counts", 4)
	for _, c := range cnt {
		verifrt.Assume(c <= 1)
	}
	tail := verifrt.Bytes("tail", 5)
	pkt := append([]byte{0xab, 0xcd, verifrt.Byte("flags0"), verifrt.Byte("flags1"), 0, cnt[0], 0, cnt[1], 0, cnt[2], 0, cnt[3]}, tail...)
	cut := verifrt.Concrete(verifrt.IntRange("truncate", 0, 17))
	verifrt.Assume(cut <= len(pkt))
	pkt = pkt[:cut]
	client := netip.AddrPortFrom(netip.AddrFrom4([4]byte{198, 51, 100, 7}), 4242)
	listener := netip.AddrPortFrom(netip.AddrFrom4([4]byte{192, 0, 2, 53}), 53)
	s.handleMsg(pkt, nil, client, listener)
	verifrt.Quiesce()
	verifrt.Reach("handled")
	verifrt.Assert(len(*out) <= 1, "at most one datagram per datagram")
	if len(*out) == 1 {
		verifrt.Reach("answered")
		d := (*out)[0]
		verifrt.Assert(d.remote == client, "the response goes back to the sender")
		verifrt.Assert(len(d.b) >= 12 && d.b[0] == 0xab && d.b[1] == 0xcd && d.b[2]&0x80 != 0, "it is a response carrying the datagram's ID")
		verifrt.Assert(cut >= 12, "only a datagram with a complete header can have been decoded")
	}
}

// VerifH_C01_TCPGarbage: a TCP client sending a frame whose declared length lies (0..20) followed by arbitrary
// octets, in two arbitrary segments, then closing: the connection handler terminates without a crash and writes
// nothing unless the frame really was a decodable message.
func VerifH_C01_TCPGarbage() {
	verifrt.Unwind(200)
	verifrt.SchedBound(0)
	verifrt.CtxNoExpiry = true
	r := vRouter(nil, false)
	s := &tcpServer{r: r, maxConcurrent: 4, idleTimeout: 1}
	c := newVTCPConn()
	data := verifrt.Bytes("data", 6)
	if len(data) >= 2 {
		verifrt.Assume(data[0] == 0 && data[1] <= 20)
	}
	cut := verifrt.Concrete(verifrt.IntRange("cut", 0, 6))
	verifrt.Assume(cut <= len(data))
	done := make(chan struct{})
	go func() { s.handleConn(c); close(done) }()
	for _, seg := range [][]byte{data[:cut], data[cut:]} {
		if len(seg) > 0 {
			c.inbox <- seg
		}
	}
	verifrt.Quiesce()
	c.Close()
	<-done
	verifrt.Reach("ended")
	verifrt.Assert(len(c.writes) == 0, "at most 4 octets of body can never be a DNS message: nothing is written")
}
