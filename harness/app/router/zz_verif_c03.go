package router

import (
	"context"
	"time"

	"github.com/IrineSistiana/mosproxy/internal/dnsmsg"
	"github.com/IrineSistiana/mosproxy/internal/verifrt"
)

// VerifH_C03_Handler: for every decodable query, every rule outcome and every upstream/deadline
// behaviour the request handler leaves exactly one response with the mandated header and question.
func VerifH_C03_Handler_S24() {
	verifrt.Unwind(60)
	vRich = verifrt.Thorough()
	vPlainReply = true // the reply families are C12's subject
	sh := verifrt.Shard() % 6
	vFamForce = verifrt.Shard() / 6 // 0 v4, 1 v6, 2 v4-mapped, 3 unknown
	up := &vUpstream{tag: "up", maxRecs: 1}
	uw := &upstreamWrapper{tag: "up", u: up}
	var rules []*rule
	switch sh % 3 {
	case 0: // no rule at all
	case 1: // reject rule
		rules = append(rules, &rule{reject: uint16(verifrt.IntRange("reject", 1, 15))})
	default: // forward rule (or rule without action)
		if verifrt.Bool("noaction") {
			rules = append(rules, &rule{})
		} else {
			rules = append(rules, &rule{upstream: uw})
		}
	}
	r := vRouter(rules, sh/3 == 1)
	m := vQuery("m")
	rc := getRequestContext()
	rc.RemoteAddr = vAddrPort("client")
	wantID, wantOp, wantRD := m.ID, m.OpCode, m.RecursionDesired
	notImpl := m.Response || !m.RecursionDesired || m.OpCode != 0 || len(m.Questions) != 1
	hasOpt := vHasOpt(m)
	var q0 *dnsmsg.Question
	if len(m.Questions) > 0 {
		q0 = m.Questions[0].Copy()
	}

	r.handleServerReq(m, rc)

	resp := rc.Response.Msg
	verifrt.Assert(resp != nil, "a response is always produced")
	verifrt.Reach("responded")
	verifrt.Assert(resp.ID == wantID && resp.OpCode == wantOp, "response carries the query's ID and opcode")
	verifrt.Assert(resp.Response && resp.RecursionAvailable && resp.RecursionDesired == wantRD, "QR=1, RA=1, RD copied")
	verifrt.Assert(len(resp.Questions) <= 1, "at most one question")
	expired := up.ctxSeen != nil && up.ctxSeen.Err() != nil
	_ = expired
	if notImpl {
		verifrt.Reach("notimpl")
		verifrt.Assert(resp.RCode == dnsmsg.RCodeNotImplemented || resp.RCode == dnsmsg.RCodeServerFailure, "unsupported query: NOTIMP (SERVFAIL only if the deadline struck)")
		verifrt.Assert(up.calls == 0, "unsupported queries are not forwarded")
		verifrt.Assert(!vHasOpt(resp), "no OPT in a NOTIMP response")
	} else {
		switch sh % 3 {
		case 0:
			verifrt.Assert(resp.RCode == dnsmsg.RCodeRefused || resp.RCode == dnsmsg.RCodeServerFailure, "no rule: REFUSED")
			verifrt.Assert(up.calls == 0, "no rule: nothing forwarded")
		case 1:
			verifrt.Assert(resp.RCode == dnsmsg.RCode(rules[0].reject) || resp.RCode == dnsmsg.RCodeServerFailure, "reject rule: its rcode")
			verifrt.Assert(up.calls == 0, "reject rule: nothing forwarded")
		default:
			verifrt.Assert(up.calls <= 1, "at most one upstream exchange on the request path")
			if up.calls == 1 && up.lastResp == nil {
				verifrt.Reach("upstream-failed")
				verifrt.Assert(resp.RCode == dnsmsg.RCodeServerFailure, "upstream failure: SERVFAIL")
			}
		}
		if len(resp.Questions) == 1 && (resp != up.lastResp) {
			verifrt.Assert(q0 != nil && vLowerEq(resp.Questions[0].Name, q0.Name) && resp.Questions[0].Type == q0.Type && resp.Questions[0].Class == q0.Class,
				"a proxy-built response echoes the query's first question (case-insensitively)")
		}
	}
	if !hasOpt {
		verifrt.Assert(!vHasOpt(resp), "no OPT in the response unless the query had one")
	}
	// packing a handler response never needs the fallbacks
	b := mustHaveRespB(m, resp, dnsmsg.RCodeRefused, false, 1200)
	verifrt.Assert(len(b) >= 12, "response packs")
	verifrt.Assert(uint16(b[0])<<8|uint16(b[1]) == wantID, "packed ID")
}

// vFlakyUpstream answers like vKeyedUpstream or fails, as the solver chooses per query.
type vFlakyUpstream struct{ vKeyedUpstream }

func (u *vFlakyUpstream) ExchangeContext(ctx context.Context, q []byte) (*dnsmsg.Msg, error) {
	if verifrt.Bool("up.fails") {
		u.calls++
		verifrt.Yield()
		return nil, errVFake
	}
	return u.vKeyedUpstream.ExchangeContext(ctx, q)
}

// VerifH_C03_StreamListener: the TCP / DoT listener end to end (a DoT connection is this code over a tls.Conn, which —
// unlike a TCP socket — offers no vectored write: every Write call is a record of its own and may interleave with
// another goroutine's). Two pipelined queries whose handlers complete in either order (≤ 1 scheduling deviation),
// the upstream answering or failing per query: the client receives exactly one response per query, each as ONE write
// that is one complete frame, carrying its query's ID and question, SERVFAIL when the upstream failed.
func VerifH_C03_StreamListener() {
	verifrt.Unwind(120)
	verifrt.SchedBound(1 + verifrt.Tier) // thorough: one more deviation from the default schedule
	verifrt.CtxNoExpiry = true
	up := &vFlakyUpstream{}
	r := vRouter([]*rule{{upstream: &upstreamWrapper{tag: "up", u: up}}}, false)
	s := &tcpServer{r: r, maxConcurrent: 4, idleTimeout: 1}
	c := newVTCPConn()
	ids := []uint16{verifrt.U16("id"), verifrt.U16("id")}
	vDistinct(ids)
	done := make(chan struct{})
	go func() { s.handleConn(c); close(done) }()
	c.inbox <- append(vFrame(vQueryMsg(ids[0], 'a', false, 0)), vFrame(vQueryMsg(ids[1], 'b', false, 0))...)
	verifrt.Quiesce()
	c.Close()
	<-done
	verifrt.Reach("served")
	bodies := vCheckFrames(c.writes)
	verifrt.Assert(len(bodies) == 2, "exactly one response per query")
	seen := [2]int{}
	for _, b := range bodies {
		i := vWhichQuery(b, ids)
		verifrt.Assert(len(b) >= 19, "answers and SERVFAILs echo the question")
		seen[i]++
		rcode := b[3] & 0xF
		verifrt.Assert(rcode == 0 || rcode == 2, "answered, or SERVFAIL when the upstream failed")
		vCheckResponse(b, ids[i], b[13], rcode == 0)
	}
	verifrt.Assert(seen[0] == 1 && seen[1] == 1, "each query answered exactly once")
}

// vSilentUpstream never answers: the exchange ends only when its context does.
type vSilentUpstream struct {
	calls  int
	budget time.Duration
	has    bool
}

func (u *vSilentUpstream) ExchangeContext(ctx context.Context, q []byte) (*dnsmsg.Msg, error) {
	u.calls++
	u.budget, u.has = verifrt.CtxBudget(ctx)
	<-ctx.Done()
	return nil, context.Cause(ctx)
}
func (u *vSilentUpstream) Close() error { return nil }

// VerifH_C03_RequestBudget: "within the request deadline (6 s)": a supported query forwarded to an upstream that stays
// silent until its context ends. The context the upstream exchange runs under carries a time budget of exactly 6 s (the
// smallest timeout requested along its ancestor chain), the handler returns once it strikes, and the one response is
// SERVFAIL with the query's ID, RD and question.
func VerifH_C03_RequestBudget() {
	verifrt.Unwind(60)
	verifrt.Expect("forwarded")
	up := &vSilentUpstream{}
	r := vRouter([]*rule{{upstream: &upstreamWrapper{tag: "up", u: up}}}, verifrt.Bool("cache"))
	m := dnsmsg.NewMsg()
	m.Header.ID, m.Header.RecursionDesired = verifrt.U16("id"), true
	q := dnsmsg.NewQuestion()
	q.Name, q.Type, q.Class = dnsmsg.Name([]byte{1, verifrt.Byte("l")}), 1, 1
	m.Questions = append(m.Questions, q)
	rc := getRequestContext()
	rc.RemoteAddr = vAddrPort("client")
	go verifrt.LetDeadlinesPass() // time passes while the handler waits
	r.handleServerReq(m, rc)
	verifrt.Reach("returned")
	resp := rc.Response.Msg
	verifrt.Assert(up.calls <= 1, "the query is forwarded at most once")
	if up.calls == 1 {
		verifrt.Reach("forwarded")
		verifrt.Assert(up.has && up.budget == 6*time.Second, "the upstream exchange of a client query runs under the 6 s request deadline")
	}
	verifrt.Assert(resp != nil && resp.RCode == dnsmsg.RCodeServerFailure, "silence until the deadline: SERVFAIL")
	verifrt.Assert(resp.ID == m.ID && resp.Response && resp.RecursionDesired && resp.RecursionAvailable, "with the query's ID, QR, RD, RA")
	verifrt.Assert(len(resp.Questions) == 1 && vLowerEq(resp.Questions[0].Name, q.Name), "and question")
}

// VerifH_C03_GnetBurst: the event-driven listener is called ONCE per socket read and is never called again for bytes
// it left in the connection's buffer: a burst of 40 complete pipelined queries arriving in one read (well under the
// per-connection limit of 100 in-flight queries) must all be decoded by that one call — nothing is left behind — and
// every one of them gets exactly one response with its own ID, question and answer.
func VerifH_C03_GnetBurst() {
	verifrt.Unwind(400)
	verifrt.SchedBound(0)
	verifrt.CtxNoExpiry = true
	up := &vKeyedUpstream{}
	r := vRouter([]*rule{{upstream: &upstreamWrapper{tag: "up", u: up}}}, false)
	e := &gnetServer{r: r, maxConcurrent: 100, idleTimeout: 1}
	c := &vGnetConn{}
	_, act := e.OnOpen(c)
	verifrt.Assert(act == 0, "connection admitted")
	const n = 40
	mark := func(i int) byte { // 40 distinct label octets that case folding leaves alone
		if i < 26 {
			return byte('a' + i)
		}
		return byte('0' + i - 26)
	}
	for i := 0; i < n; i++ {
		c.buf = append(c.buf, vFrame(vQueryMsg(uint16(0x100+i), mark(i), false, 0))...)
	}
	a := e.OnTraffic(c)
	verifrt.Assert(a == 0, "well-formed traffic never closes the connection")
	verifrt.Assert(len(c.buf) == 0, "one call consumes every complete frame of the read: the event loop will not call again for them")
	verifrt.Quiesce()
	verifrt.Reach("served")
	bodies := vCheckFrames(c.writes)
	verifrt.Assert(len(bodies) == n, "every query of the burst is answered exactly once")
	seen := [n]int{}
	for _, b := range bodies {
		i := int(uint16(b[0])<<8|uint16(b[1])) - 0x100
		verifrt.Assert(i >= 0 && i < n, "response to one of the queries")
		seen[i]++
		vCheckResponse(b, uint16(0x100+i), mark(i), true)
	}
	for i := 0; i < n; i++ {
		verifrt.Assert(seen[i] == 1, "each query answered exactly once")
	}
}
