package router

import (
	"net"
	"net/netip"

	"github.com/IrineSistiana/mosproxy/internal/verifrt"
)

type vDatagram struct {
	b      []byte
	remote netip.AddrPort
}

// vUDPServer builds a UDP listener whose socket writes are captured.
func vUDPServer(r *router) (*udpServer, *[]vDatagram) {
	var out []vDatagram
	verifrt.Redirect("(*net.UDPConn).WriteMsgUDPAddrPort", func(c *net.UDPConn, b, oob []byte, addr netip.AddrPort) (int, int, error) {
		out = append(out, vDatagram{append([]byte(nil), b...), addr})
		return len(b), 0, nil
	})
	return &udpServer{r: r, cs: []*wmUdpConn{{}}}, &out
}

// VerifH_C04_UDPConcurrent: two datagrams from different clients are handled concurrently while the
// receive buffer is reused for the next packet; pooled messages/contexts/buffers are recycled between
// them. Every response goes to its own client and carries the answer produced for its own question.
func VerifH_C04_UDPConcurrent() {
	verifrt.Unwind(400)
	verifrt.SchedBound(2 + verifrt.Tier) // thorough: one more deviation from the default schedule
	verifrt.CtxNoExpiry = true
	up := &vKeyedUpstream{}
	r := vRouter([]*rule{{upstream: &upstreamWrapper{tag: "up", u: up}}}, verifrt.Bool("cache"))
	s, out := vUDPServer(r)
	listener := netip.AddrPortFrom(netip.AddrFrom4([4]byte{192, 0, 2, 53}), 53)
	cl := []netip.AddrPort{
		netip.AddrPortFrom(netip.AddrFrom4([4]byte{198, 51, 100, 1}), 1111),
		netip.AddrPortFrom(netip.AddrFrom4([4]byte{198, 51, 100, 2}), 2222),
	}
	ids := []uint16{verifrt.U16("id0"), verifrt.U16("id1")}
	same := verifrt.Bool("samequestion")
	markers := []byte{'a', 'b'}
	if same {
		markers[1] = 'a'
	}
	// the read loop reuses ONE receive buffer for all packets
	rx := make([]byte, 64)
	for i := 0; i < 2; i++ {
		q := vQueryMsg(ids[i], markers[i], false, 0)
		n := copy(rx, q)
		s.handleMsg(rx[:n], nil, cl[i], listener)
		// the buffer is overwritten as soon as handleMsg returns
		for j := range rx {
			rx[j] = 0xEE
		}
	}
	verifrt.Quiesce()
	verifrt.Reach("served")
	verifrt.Assert(len(*out) == 2, "exactly one datagram per query")
	seen := []int{0, 0}
	for _, d := range *out {
		i := 0
		if d.remote == cl[1] {
			i = 1
		} else {
			verifrt.Assert(d.remote == cl[0], "responses only go to clients that asked")
		}
		seen[i]++
		vCheckResponse(d.b, ids[i], markers[i], true)
	}
	verifrt.Assert(seen[0] == 1 && seen[1] == 1, "each client gets exactly its own response")
}

// VerifH_C04_SequentialRecycling: request B runs entirely on the objects request A released (messages,
// records, questions, request contexts, buffers are handed back LIFO, as A left them): nothing of A
// may show up in B's response.
func VerifH_C04_SequentialRecycling() {
	verifrt.Unwind(120)
	verifrt.SchedBound(0)
	verifrt.CtxNoExpiry = true
	up := &vKeyedUpstream{big: verifrt.Choose("extra-answers", 2)}
	r := vRouter([]*rule{{upstream: &upstreamWrapper{tag: "up", u: up}}}, verifrt.Bool("cache"))
	s, out := vUDPServer(r)
	listener := netip.AddrPortFrom(netip.AddrFrom4([4]byte{192, 0, 2, 53}), 53)
	client := netip.AddrPortFrom(netip.AddrFrom4([4]byte{198, 51, 100, 1}), 1111)
	mA, mB := verifrt.Byte("markerA"), verifrt.Byte("markerB")
	verifrt.Assume(mA >= 'a' && mA <= 'z' && mB >= 'a' && mB <= 'z' && mA != mB)
	idA, idB := verifrt.U16("idA"), verifrt.U16("idB")
	optA := verifrt.Bool("optA")
	s.handleMsg(vQueryMsg(idA, mA, optA, 1232), nil, client, listener)
	verifrt.Quiesce()
	up.big = 0
	s.handleMsg(vQueryMsg(idB, mB, false, 0), nil, client, listener)
	verifrt.Quiesce()
	verifrt.Reach("served")
	verifrt.Assert(len(*out) == 2, "one datagram per query")
	vCheckResponse((*out)[0].b, idA, mA, true)
	vCheckResponse((*out)[1].b, idB, mB, true)
	b := (*out)[1].b
	verifrt.Assert(int(b[6])<<8|int(b[7]) == 1 && int(b[8])<<8|int(b[9]) == 0 && int(b[10])<<8|int(b[11]) == 0,
		"request B's response has exactly its own single answer and no leftover records (no OPT: B had none)")
}

var _ = net.IPv4len

// VerifH_C03_UDPListener: the UDP listener end to end under the one-response property: two datagrams from two clients
// handled concurrently while the receive buffer is overwritten by the next packet as soon as the read loop moves on
// (whatever still has to look at the datagram's octets must have taken its own copy — or have decoded it — by then):
// exactly one response datagram per query, to the right client, with that query's ID, question and answer
// (scenario of C04_UDPConcurrent).
func VerifH_C03_UDPListener() { VerifH_C04_UDPConcurrent() }

// VerifH_C20_UDPReceiveBufferOwnership: the UDP read loop owns its receive buffers and refills them as soon as handleMsg
// returns: whatever runs later (worker goroutines) must work on memory of its own. Two concurrent datagrams with the
// shared buffer overwritten after each packet (scenario of C04_UDPConcurrent under the ownership property): every
// response is derived from its own query's octets.
func VerifH_C20_UDPReceiveBufferOwnership() { VerifH_C04_UDPConcurrent() }
