package router

import (
	"context"
	"io"
	"net/http"
	"net/netip"
	"net/url"
	"os"
	"time"

	"github.com/IrineSistiana/mosproxy/internal/verifrt"
	"github.com/quic-go/quic-go"
)

type vRespWriter struct {
	hdr    http.Header
	status int
	bodies [][]byte
}

func (w *vRespWriter) Header() http.Header { return w.hdr }
func (w *vRespWriter) Write(b []byte) (int, error) {
	w.bodies = append(w.bodies, append([]byte(nil), b...))
	return len(b), nil
}
func (w *vRespWriter) WriteHeader(code int) { w.status = code }

type vBody struct {
	data []byte
	pos  int
}

func (b *vBody) Read(p []byte) (int, error) {
	if b.pos >= len(b.data) {
		return 0, io.EOF
	}
	n := copy(p, b.data[b.pos:])
	b.pos += n
	return n, nil
}
func (b *vBody) Close() error { return nil }

// vHTTPStubs: net/http's header canonicalisation is outside the interpreted set; headers are looked up by
// their canonical spelling.
func vHTTPStubs() {
	verifrt.Redirect("(net/http.Header).Get", func(h http.Header, key string) string {
		if v := h[key]; len(v) > 0 {
			return v[0]
		}
		return ""
	})
	verifrt.Redirect("(net/http.Header).Set", func(h http.Header, key, value string) { h[key] = []string{value} })
}

func vHTTPHandler(r *router) *httpHandler {
	return &httpHandler{r: r, path: "/dns-query", localAddr: netip.AddrPortFrom(netip.AddrFrom4([4]byte{192, 0, 2, 53}), 443)}
}

// VerifH_C01_HTTPPostBody: an arbitrary POST body (application/dns-message) either decodes and is answered
// with exactly one DNS message, or is rejected with status 400 and no body; never a panic.
func VerifH_C01_HTTPPostBody() {
	verifrt.Unwind(200)
	verifrt.CtxNoExpiry = true
	vHTTPStubs()
	r := vRouter(nil, false)
	h := vHTTPHandler(r)
	cnt := verifrt.BytesN("counts", 4)
	for _, c := range cnt {
		verifrt.Assume(c <= 1)
	}
	tail := verifrt.Bytes("tail", 5)
	body := append([]byte{0xab, 0xcd, 0x01, 0x00, 0, cnt[0], 0, cnt[1], 0, cnt[2], 0, cnt[3]}, tail...)
	cut := verifrt.Concrete(verifrt.IntRange("truncate", 0, 17))
	verifrt.Assume(cut <= len(body))
	body = body[:cut]
	w := &vRespWriter{hdr: http.Header{}}
	req := &http.Request{Method: "POST", URL: &url.URL{Path: "/dns-query"}, Header: http.Header{"Content-Type": {"application/dns-message"}},
		Body: &vBody{data: body}, RemoteAddr: "198.51.100.3:4444"}
	h.ServeHTTP(w, req)
	verifrt.Reach("served")
	if w.status == http.StatusBadRequest {
		verifrt.Reach("rejected")
		verifrt.Assert(len(w.bodies) == 0, "an undecodable body is rejected with 400 and nothing is written")
		return
	}
	verifrt.Assert(w.status == 0 && len(w.bodies) == 1, "a decodable query gets exactly one response body")
	b := w.bodies[0]
	verifrt.Assert(len(b) >= 12 && b[0] == 0xab && b[1] == 0xcd && b[2]&0x80 != 0, "the body is a DNS response carrying the query's ID")
	verifrt.Assert(len(b) <= 65535, "body size limit")
	verifrt.Assert(w.hdr["Content-Type"] != nil && w.hdr["Content-Type"][0] == "application/dns-message", "content type set")
}

// VerifH_C03_HTTPGet: a well-formed GET (?dns=base64url) query is answered once; wrong path, method,
// Accept header or a missing parameter are refused with the proper status and never reach the router.
func VerifH_C03_HTTPGet() {
	verifrt.Unwind(400)
	verifrt.CtxNoExpiry = true
	vHTTPStubs()
	up := &vKeyedUpstream{}
	r := vRouter([]*rule{{upstream: &upstreamWrapper{tag: "up", u: up}}}, false)
	h := vHTTPHandler(r)
	// vQueryMsg(0x1234, 'q', false, 0) in base64url without padding
	const q64 = "EjQBAAABAAAAAAAAAXEAAAEAAQ"
	w := &vRespWriter{hdr: http.Header{}}
	req := &http.Request{Method: "GET", URL: &url.URL{Path: "/dns-query", RawQuery: "a=b&dns=" + q64}, Header: http.Header{"Accept": {"application/dns-message"}},
		RemoteAddr: "198.51.100.3:4444"}
	switch verifrt.Choose("defect", 5) {
	case 1:
		req.URL.Path = "/other"
	case 2:
		req.Method = "PUT"
	case 3:
		req.Header = http.Header{"Accept": {"text/html"}}
	case 4:
		req.URL.RawQuery = "x=1"
	}
	h.ServeHTTP(w, req)
	verifrt.Reach("served")
	if req.URL.Path != "/dns-query" {
		verifrt.Assert(w.status == http.StatusNotFound && len(w.bodies) == 0 && up.calls == 0, "wrong path: 404")
		return
	}
	if req.Method != "GET" {
		verifrt.Assert(w.status == http.StatusNotImplemented && len(w.bodies) == 0 && up.calls == 0, "unsupported method: 501")
		return
	}
	if req.Header["Accept"][0] != "application/dns-message" || req.URL.RawQuery == "x=1" {
		verifrt.Assert(w.status == http.StatusBadRequest && len(w.bodies) == 0 && up.calls == 0, "bad request: 400, nothing forwarded")
		return
	}
	verifrt.Reach("answered")
	verifrt.Assert(len(w.bodies) == 1 && up.calls == 1, "exactly one response for the query")
	vCheckResponse(w.bodies[0], 0x1234, 'q', true)
}

// VerifH_C15_HTTPRefused: a request refused by the limiter gets status 503, is charged to the client's
// address, and is neither decoded nor forwarded.
func VerifH_C15_HTTPRefused() {
	verifrt.Unwind(400)
	verifrt.CtxNoExpiry = true
	vHTTPStubs()
	up := &vKeyedUpstream{}
	r, charges := vLimitedRouter(up)
	h := vHTTPHandler(r)
	const q64 = "EjQBAAABAAAAAAAAAXEAAAEAAQ"
	w := &vRespWriter{hdr: http.Header{}}
	req := &http.Request{Method: "GET", URL: &url.URL{Path: "/dns-query", RawQuery: "dns=" + q64}, Header: http.Header{"Accept": {"application/dns-message"}},
		RemoteAddr: "198.51.100.3:4444"}
	h.ServeHTTP(w, req)
	verifrt.Reach("served")
	verifrt.Assert(len(*charges) >= 1 && (*charges)[0].addr == netip.AddrFrom4([4]byte{198, 51, 100, 3}) && (*charges)[0].n == costHTTPQuery, "HTTP admission charges the client's address")
	if up.calls == 0 {
		verifrt.Reach("refused")
		verifrt.Assert(w.status == http.StatusServiceUnavailable && len(w.bodies) == 0, "a refused HTTP query gets 503 and no body")
	} else {
		verifrt.Assert(len(w.bodies) == 1, "an admitted query is answered")
	}
}

// ---- DoQ listener: one stream, one query

type vQStream struct {
	quic.Stream
	in     []byte
	pos    int
	writes [][]byte
	closed int
	wd     time.Time // write deadline, as armed by the handler
}

func (s *vQStream) Read(p []byte) (int, error) {
	if s.pos >= len(s.in) {
		return 0, io.EOF
	}
	n := copy(p, s.in[s.pos:])
	s.pos += n
	return n, nil
}
func (s *vQStream) Write(p []byte) (int, error) {
	// the response may become available any time within the request budget: a write deadline armed earlier
	// may have passed by now
	if !s.wd.IsZero() && time.Now().After(s.wd) {
		return 0, os.ErrDeadlineExceeded
	}
	s.writes = append(s.writes, append([]byte(nil), p...))
	return len(p), nil
}
func (s *vQStream) Close() error                      { s.closed++; return nil }
func (s *vQStream) CancelRead(quic.StreamErrorCode)   {}
func (s *vQStream) CancelWrite(quic.StreamErrorCode)  {}
func (s *vQStream) SetReadDeadline(t time.Time) error { return nil }
func (s *vQStream) SetWriteDeadline(t time.Time) error {
	s.wd = t
	return nil
}
func (s *vQStream) SetDeadline(t time.Time) error {
	s.wd = t
	return nil
}

// VerifH_C03_QuicStream: a DoQ stream carrying one length-prefixed query gets exactly one length-prefixed
// response; a stream whose bytes do not decode gets nothing.
func VerifH_C03_QuicStream() {
	verifrt.Unwind(300)
	verifrt.CtxNoExpiry = true
	up := &vKeyedUpstream{}
	r := vRouter([]*rule{{upstream: &upstreamWrapper{tag: "up", u: up}}}, false)
	s := &quicServer{r: r, idleTimeout: 1}
	frame := vFrame(vQueryMsg(0x4242, 'k', false, 0))
	cut := verifrt.Concrete(verifrt.IntRange("truncate", 0, len(frame)))
	st := &vQStream{in: frame[:cut]}
	remote := netip.AddrPortFrom(netip.AddrFrom4([4]byte{198, 51, 100, 3}), 4444)
	s.handleStream(st, &vQConn{}, remote, netip.AddrPort{})
	verifrt.Reach("handled")
	if cut < len(frame) {
		verifrt.Assert(len(st.writes) == 0 && up.calls == 0, "an incomplete / undecodable stream gets no response and is not forwarded")
		return
	}
	verifrt.Reach("answered")
	bodies := vCheckFrames(st.writes)
	verifrt.Assert(len(bodies) == 1, "exactly one response frame per query")
	vCheckResponse(bodies[0], 0x4242, 'k', true)
}

// VerifH_C15_HTTPClientAddrHeader: behind a reverse proxy (client_addr_header configured) the DoH handler charges –
// and later routes / tags ECS for – the client named in the header (its first hop), IPv4 or IPv6, never the proxy's
// socket address; a value that is not an address is a 400 and nothing is charged or forwarded.
func VerifH_C15_HTTPClientAddrHeader() {
	verifrt.Unwind(400)
	verifrt.CtxNoExpiry = true
	vHTTPStubs()
	up := &vKeyedUpstream{}
	r, charges := vLimitedRouter(up)
	h := vHTTPHandler(r)
	h.clientAddrHeader = "X-Forwarded-For"
	const q64 = "EjQBAAABAAAAAAAAAXEAAAEAAQ"
	forms := []struct {
		v    string
		want netip.Addr
		ok   bool
	}{
		{"203.0.113.9", netip.AddrFrom4([4]byte{203, 0, 113, 9}), true},
		{"203.0.113.9, 10.0.0.1", netip.AddrFrom4([4]byte{203, 0, 113, 9}), true},
		{"2001:db8::5,10.0.0.1", netip.AddrFrom16([16]byte{0x20, 0x01, 0x0d, 0xb8, 0, 0, 0, 0, 0, 0, 0, 0, 0, 0, 0, 5}), true},
		{"not-an-address", netip.Addr{}, false},
	}
	f := forms[verifrt.Choose("header", len(forms))]
	w := &vRespWriter{hdr: http.Header{}}
	req := &http.Request{Method: "GET", URL: &url.URL{Path: "/dns-query", RawQuery: "dns=" + q64},
		Header:     http.Header{"Accept": {"application/dns-message"}, "X-Forwarded-For": {f.v}},
		RemoteAddr: "192.0.2.200:4444"} // the reverse proxy
	h.ServeHTTP(w, req)
	verifrt.Reach("served")
	if !f.ok {
		verifrt.Assert(w.status == http.StatusBadRequest && len(*charges) == 0 && up.calls == 0 && len(w.bodies) == 0, "an unusable header value: 400, nothing charged, nothing forwarded")
		return
	}
	verifrt.Assert(len(*charges) >= 1 && (*charges)[0].n == costHTTPQuery, "admission is charged first, with the HTTP query cost")
	for _, c := range *charges {
		// (the router charges the work done for an admitted query afterwards, too)
		verifrt.Assert(c.addr == f.want, "every charge goes to the client named in the header (first hop), never to the proxy")
	}
	if up.calls == 0 {
		verifrt.Assert(w.status == http.StatusServiceUnavailable && len(w.bodies) == 0, "refused: 503, no body")
	} else {
		verifrt.Reach("answered")
		verifrt.Assert(len(w.bodies) == 1, "admitted: answered")
	}
}

// vQStreamConn: a DoQ connection that delivers a scripted sequence of streams and then dies.
type vQStreamConn struct {
	vQConn
	streams []*vQStream
	next    int
}

func (c *vQStreamConn) AcceptStream(ctx context.Context) (quic.Stream, error) {
	if c.next >= len(c.streams) {
		return nil, errVNet // connection closed by the peer / idle
	}
	s := c.streams[c.next]
	c.next++
	return s, nil
}

// VerifH_C03_QuicConnection: the DoQ connection loop: three streams on one connection, each carrying one complete
// query, handled concurrently (≤ 1 scheduling deviation); the limiter may refuse any of them. Every admitted query gets
// exactly one length-prefixed response ON ITS OWN STREAM, carrying its own ID, question and answer; a refused stream
// gets nothing and is not forwarded; every stream is closed; the loop ends when the connection does.
func VerifH_C03_QuicConnection() {
	verifrt.Unwind(300)
	verifrt.SchedBound(1)
	verifrt.CtxNoExpiry = true
	up := &vKeyedUpstream{}
	r, charges := vLimitedRouter(up)
	s := &quicServer{r: r, idleTimeout: 1}
	c := &vQStreamConn{}
	ids := []uint16{0x101, 0x202, 0x303}
	for i, id := range ids {
		c.streams = append(c.streams, &vQStream{in: vFrame(vQueryMsg(id, byte('a'+i), false, 0))})
	}
	err := s.handleConn(c)
	verifrt.Quiesce()
	verifrt.Reach("connection-ended")
	verifrt.Assert(err != nil && c.next == 3, "the loop accepted every stream and ended with the connection")
	answered := 0
	for i, st := range c.streams {
		verifrt.Assert(st.closed >= 1, "every stream is closed")
		if len(st.writes) == 0 {
			continue
		}
		answered++
		bodies := vCheckFrames(st.writes)
		verifrt.Assert(len(bodies) == 1, "exactly one response frame on the query's own stream")
		vCheckResponse(bodies[0], ids[i], byte('a'+i), true)
	}
	admitted := 0
	for _, ch := range *charges {
		verifrt.Assert(ch.addr == netip.AddrFrom4([4]byte{198, 51, 100, 9}), "charges go to the client")
		if ch.n == costQUICQuery {
			admitted++
		}
	}
	verifrt.Assert(admitted == 3, "each stream is submitted to the limiter once")
	verifrt.Assert(answered == up.calls, "exactly the admitted queries are forwarded and answered")
	if answered == 3 {
		verifrt.Reach("all-answered")
	}
}
