package router

import (
	"context"

	"github.com/IrineSistiana/mosproxy/internal/dnsmsg"
	domainmatcher "github.com/IrineSistiana/mosproxy/internal/domain_matcher"
	"github.com/IrineSistiana/mosproxy/internal/upstream"
	"github.com/IrineSistiana/mosproxy/internal/verifrt"
)

// refDecodeQuery: minimal independent decoder of an upstream query: one uncompressed question.
func refDecodeQuery(b []byte) (name []byte, typ, class uint16, rd bool, qd, an, ns, ar int, end int, ok bool) {
	if len(b) < 12 {
		return
	}
	rd = b[2]&1 != 0
	qd, an, ns, ar = int(b[4])<<8|int(b[5]), int(b[6])<<8|int(b[7]), int(b[8])<<8|int(b[9]), int(b[10])<<8|int(b[11])
	off := 12
	for {
		if off >= len(b) {
			return
		}
		c := int(b[off])
		if c == 0 {
			off++
			break
		}
		if c > 63 || off+1+c > len(b) {
			return
		}
		name = append(name, b[off:off+1+c]...)
		off += 1 + c
	}
	if off+4 > len(b) {
		return
	}
	typ = uint16(b[off])<<8 | uint16(b[off+1])
	class = uint16(b[off+2])<<8 | uint16(b[off+3])
	return name, typ, class, rd, qd, an, ns, ar, off + 4, true
}

// VerifH_C10_FirstMatch: the first rule whose (possibly reversed) domain condition holds decides; a
// reject rule contacts no upstream; a forward rule sends exactly that question to exactly its upstream.
func VerifH_C10_FirstMatch_S9() {
	verifrt.Unwind(60)
	sh := verifrt.Shard()
	ups := []*vUpstream{{tag: "u1"}, {tag: "u2"}}
	uws := []*upstreamWrapper{{tag: "u1", u: ups[0]}, {tag: "u2", u: ups[1]}}
	q := dnsmsg.NewQuestion()
	q.Name = vName("q.name", vShapes[3]) // two labels
	q.Type = dnsmsg.Type(verifrt.U16("q.type"))
	q.Class = dnsmsg.Class(verifrt.U16("q.class"))
	dnsmsg.ToLowerName(q.Name)
	tld := q.Name[3:4]

	type spec struct {
		hasMatcher, reverse, matches bool
		reject                       uint16
		up                           int // -1 none
	}
	var specs []spec
	var rules []*rule
	kinds := []int{sh % 3, (sh / 3) % 3}
	if verifrt.Thorough() {
		kinds = append(kinds, verifrt.Choose("k2", 3))
	}
	for i, k := range kinds {
		var sp spec
		ru := &rule{}
		sp.hasMatcher = verifrt.Bool("r.hasmatcher")
		if sp.hasMatcher {
			if i > 0 && specs[i-1].hasMatcher && verifrt.Bool("r.sharedset") {
				// consecutive rules may reference the SAME domain set (same matcher object)
				ru.matcher = rules[i-1].matcher
				sp.matches = specs[i-1].matches
			} else {
				m := domainmatcher.NewMixMatcher()
				l := verifrt.BytesN("r.label", 1)
				verifrt.Assume(!('A' <= l[0] && l[0] <= 'Z') && l[0] != '.' && l[0] != ':' && l[0] != 0)
				rule := append([]byte("domain:"), l...)
				verifrt.Assume(m.Add(rule) == nil)
				ru.matcher = m
				sp.matches = verifrt.EqBytes(l, tld)
			}
			sp.reverse = verifrt.Bool("r.reverse")
			ru.reverse = sp.reverse
		}
		sp.up = -1
		switch k {
		case 0:
			sp.reject = uint16(verifrt.IntRange("r.reject", 1, 15))
			ru.reject = sp.reject
			if verifrt.Bool("r.rejectAndForward") { // reject wins over forward
				ru.upstream = uws[i%2]
			}
		case 1:
			sp.up = i % 2
			ru.upstream = uws[sp.up]
		}
		specs = append(specs, sp)
		rules = append(rules, ru)
	}
	r := vRouter(rules, false)
	rc := getRequestContext()
	r.handleReq(context.Background(), q, rc)

	// declarative reference: first i with cond_i
	sel := -1
	for i, sp := range specs {
		cond := true
		if sp.hasMatcher {
			cond = sp.matches != sp.reverse
		}
		if cond {
			sel = i
			break
		}
	}
	resp := rc.Response.Msg
	verifrt.Assert(resp != nil, "handleReq always sets a response")
	verifrt.Reach("handled")
	switch {
	case sel < 0:
		verifrt.Reach("nomatch")
		verifrt.Assert(resp.RCode == dnsmsg.RCodeRefused, "no applicable rule: REFUSED")
		verifrt.Assert(ups[0].calls+ups[1].calls == 0, "no applicable rule: nothing forwarded")
	case specs[sel].reject > 0:
		verifrt.Reach("reject")
		verifrt.Assert(uint16(resp.RCode) == specs[sel].reject, "reject rule answers with its rcode")
		verifrt.Assert(ups[0].calls+ups[1].calls == 0, "reject rule contacts no upstream")
		verifrt.Assert(rc.Response.RuleIdx == sel, "deciding rule index")
	case specs[sel].up < 0:
		verifrt.Assert(resp.RCode == dnsmsg.RCodeRefused, "rule without action: REFUSED")
		verifrt.Assert(ups[0].calls+ups[1].calls == 0, "rule without action: nothing forwarded")
	default:
		verifrt.Reach("forward")
		u := specs[sel].up
		verifrt.Assert(ups[u].calls == 1, "exactly one exchange on the selected upstream")
		verifrt.Assert(ups[1-u].calls == 0, "never another upstream")
		name, typ, class, rd, qd, an, ns, ar, _, ok := refDecodeQuery(ups[u].lastQ)
		verifrt.Assert(ok && qd == 1 && an == 0 && ns == 0 && ar == 1, "upstream query: one question, one additional (OPT)")
		verifrt.Assert(rd, "upstream query has RD=1")
		verifrt.Assert(verifrt.EqBytes(name, q.Name) && typ == uint16(q.Type) && class == uint16(q.Class), "upstream query carries exactly the (lower-cased) question")
	}
}

// VerifH_C10_LoadRejects: configurations that name an unknown upstream / domain-set tag, repeat a tag or
// omit a required field are rejected at start-up; the corresponding correct configuration starts.
func VerifH_C10_LoadRejects() {
	verifrt.Unwind(400)
	verifrt.CtxNoExpiry = true
	cfg := &Config{
		Upstreams:  []UpstreamConfig{{Tag: "u1", Addr: "udp://192.0.2.1"}},
		DomainSets: []DomainSetConfig{{Tag: "d1"}},
		Rules:      []RuleConfig{{Domain: "d1", Forward: "u1"}, {Reject: 5}},
	}
	// the other fields of the rules are arbitrary: a dangling reference must be caught whatever else the rule says
	// (a rule may carry a reject code AND a forward target, a reverse flag, ...)
	cfg.Rules[0].Reject = []uint16{0, 3}[verifrt.Choose("r0.reject", 2)]
	cfg.Rules[0].Reverse = verifrt.Bool("r0.reverse")
	cfg.Rules[1].Reject = []uint16{0, 5}[verifrt.Choose("r1.reject", 2)]
	at := verifrt.Choose("rule", 2) // which rule carries the dangling reference (defects 3, 4)
	defect := verifrt.Choose("defect", 8)
	switch defect {
	case 1:
		cfg.Upstreams = append(cfg.Upstreams, UpstreamConfig{Tag: "u1", Addr: "udp://192.0.2.2"}) // repeated upstream tag
	case 2:
		cfg.DomainSets = append(cfg.DomainSets, DomainSetConfig{Tag: "d1"}) // repeated domain-set tag
	case 3:
		cfg.Rules[at].Forward = "u2" // unknown upstream
	case 4:
		cfg.Rules[at].Domain = "d2" // unknown domain set
	case 5:
		cfg.Upstreams[0].Addr = "" // missing address
	case 6:
		cfg.Upstreams[0].Tag = "" // missing tag
	case 7:
		cfg.Upstreams[0].Addr = "gopher://192.0.2.1" // unsupported protocol
	}
	r, err := run(context.Background(), cfg)
	verifrt.Reach("returned")
	if defect == 0 {
		verifrt.Assert(err == nil && r != nil, "the correct configuration starts")
		verifrt.Assert(len(r.rules) == 2 && r.rules[0].matcher == r.domainSets["d1"], "rules are bound to the tagged domain set, in order")
		// (a rule that rejects never forwards: which upstream object it holds is not observable)
		verifrt.Assert(cfg.Rules[0].Reject != 0 || r.rules[0].upstream == r.upstreams["u1"], "a forwarding rule is bound to the tagged upstream")
		r.close(nil)
		return
	}
	verifrt.Assert(err != nil && r == nil, "a configuration with an unknown / repeated tag or a missing field is rejected at start-up, not silently ignored")
}

type vCfgUpstream struct {
	vUpstream
	addr, dialAddr string
}

// VerifH_C10_ConfiguredUpstreamReached: "that rule's upstream" is the server its tag was CONFIGURED with. Through the
// real start-up path (run → initUpstream → rule loading) with upstream.NewUpstream replaced by a recording
// constructor: two (thorough: three) upstream tags whose configurations may coincide in the address URL, in the
// dial_addr override, in both or in neither; one forward rule naming any of the tags. The query must be exchanged,
// exactly once, on a transport that was constructed from the configuration of exactly that tag (same URL and same
// dial_addr), and on no other; closing the router closes every constructed transport.
func VerifH_C10_ConfiguredUpstreamReached() {
	verifrt.Unwind(400)
	verifrt.CtxNoExpiry = true
	var made []*vCfgUpstream
	verifrt.Redirect("github.com/IrineSistiana/mosproxy/internal/upstream.NewUpstream", func(addr string, opt upstream.Opt) (upstream.Upstream, error) {
		u := &vCfgUpstream{addr: addr, dialAddr: opt.DialAddr}
		u.tag = "made"
		made = append(made, u)
		return u, nil
	})
	addrs := []string{"tls://dns.example", "udp://192.0.2.1"}
	dials := []string{"", "198.51.100.1", "198.51.100.2:853"}
	n := 2
	if verifrt.Thorough() {
		n = 3
	}
	cfg := &Config{}
	tags := []string{"up_a", "up_b", "up_c"}
	for i := 0; i < n; i++ {
		cfg.Upstreams = append(cfg.Upstreams, UpstreamConfig{Tag: tags[i], Addr: addrs[verifrt.Choose("addr", 2)], DialAddr: dials[verifrt.Choose("dial", 3)]})
	}
	sel := verifrt.Choose("forward", n)
	cfg.Rules = []RuleConfig{{Forward: tags[sel]}}
	r, err := run(context.Background(), cfg)
	verifrt.Assert(err == nil && r != nil, "the configuration starts")
	q := dnsmsg.NewQuestion()
	q.Name = dnsmsg.Name([]byte{1, 'q', 1, 't'})
	q.Type, q.Class = 1, 1
	rc := getRequestContext()
	r.handleReq(context.Background(), q, rc)
	verifrt.Reach("handled")
	used := 0
	for _, u := range made {
		if u.calls > 0 {
			used++
			verifrt.Assert(u.calls == 1, "exactly one exchange")
			verifrt.Assert(u.addr == cfg.Upstreams[sel].Addr && u.dialAddr == cfg.Upstreams[sel].DialAddr,
				"the query goes to a transport built from the selected tag's own configuration (address and dial_addr)")
		}
	}
	verifrt.Assert(used == 1, "and to no other upstream")
	r.close(nil)
	for _, u := range made {
		verifrt.Assert(u.closed >= 1, "every constructed transport is closed by closing the router")
	}
}

// VerifH_C10_QueryNameCase: rules see the LOWER-CASED query name: through the whole request handler, a query whose
// one-label name is an arbitrary octet c (so also an upper-case letter) against rule 0 = `domain:<l>` → upstream 1 (l a
// lower-case letter or digit), rule 1 = catch-all → upstream 2: the query is forwarded exactly once, to upstream 1 iff
// lower(c) == l, the forwarded question is the lower-cased name.
func VerifH_C10_QueryNameCase() {
	verifrt.Unwind(80)
	verifrt.CtxNoExpiry = true
	ups := []*vUpstream{{tag: "u1"}, {tag: "u2"}}
	uws := []*upstreamWrapper{{tag: "u1", u: ups[0]}, {tag: "u2", u: ups[1]}}
	l := verifrt.Byte("l")
	verifrt.Assume((l >= 'a' && l <= 'z') || (l >= '0' && l <= '9'))
	m0 := domainmatcher.NewMixMatcher()
	verifrt.Assume(m0.Add(append([]byte("domain:"), l)) == nil)
	r := vRouter([]*rule{{matcher: m0, upstream: uws[0]}, {upstream: uws[1]}}, false)
	c := verifrt.Byte("c")
	m := dnsmsg.NewMsg()
	m.Header.ID, m.Header.RecursionDesired = 7, true
	q := dnsmsg.NewQuestion()
	q.Name, q.Type, q.Class = dnsmsg.Name([]byte{1, c}), 1, 1
	m.Questions = append(m.Questions, q)
	rc := getRequestContext()
	r.handleServerReq(m, rc)
	verifrt.Reach("handled")
	lower := byte(verifrt.Ite('A' <= c && c <= 'Z', int(c)+32, int(c)))
	want := 1
	if lower == l {
		want = 0
		verifrt.Reach("matched")
	}
	verifrt.Assert(ups[want].calls == 1 && ups[1-want].calls == 0, "the first rule whose condition holds for the case-folded name decides; exactly one exchange, on its upstream")
	name, _, _, _, _, _, _, _, _, ok := refDecodeQuery(ups[want].lastQ)
	verifrt.Assert(ok && len(name) == 2 && name[1] == lower, "the upstream is asked the lower-cased name")
	verifrt.Assert(rc.Response.Msg != nil, "one response")
}

// VerifH_C10_NonASCIIEntry: domain-set files are octet strings, not Unicode text: case-insensitivity is ASCII-only on
// BOTH sides (the loader's folding of an entry and the router's folding of the query name). An entry whose label is one
// arbitrary octet >= 0x80 (a lone Latin-1 letter, half of a UTF-8 sequence, …) or a two-octet sequence of such, loaded
// from text, must select its rule for a query name carrying exactly those octets — and only for that.
func VerifH_C10_NonASCIIEntry() {
	verifrt.Unwind(200)
	verifrt.CtxNoExpiry = true
	ups := []*vUpstream{{tag: "u1"}, {tag: "u2"}}
	uws := []*upstreamWrapper{{tag: "u1", u: ups[0]}, {tag: "u2", u: ups[1]}}
	n := 1 + verifrt.Choose("octets", 1+verifrt.Tier) // quick: one octet; thorough: also two
	lab := verifrt.BytesN("label", n)
	for _, c := range lab {
		verifrt.Assume(c >= 0x80)
	}
	m0 := domainmatcher.NewMixMatcher()
	verifrt.Assume(m0.Add(append([]byte("domain:"), lab...)) == nil)
	r := vRouter([]*rule{{matcher: m0, upstream: uws[0]}, {upstream: uws[1]}}, false)
	qlab := append([]byte(nil), lab...)
	same := true
	if verifrt.Bool("other-name") {
		qlab[0] = verifrt.Byte("other")
		same = qlab[0] == lab[0]
	}
	m := dnsmsg.NewMsg()
	m.Header.ID, m.Header.RecursionDesired = 7, true
	q := dnsmsg.NewQuestion()
	q.Name, q.Type, q.Class = dnsmsg.Name(append([]byte{byte(n)}, qlab...)), 1, 1
	m.Questions = append(m.Questions, q)
	rc := getRequestContext()
	r.handleServerReq(m, rc)
	verifrt.Reach("handled")
	want := 1
	if same {
		want = 0
		verifrt.Reach("listed")
	}
	verifrt.Assert(ups[want].calls == 1 && ups[1-want].calls == 0, "an entry with non-ASCII octets selects its rule for exactly the name carrying those octets")
}
