package router

import (
	"github.com/IrineSistiana/mosproxy/internal/dnsmsg"
	"github.com/IrineSistiana/mosproxy/internal/pool"
	"github.com/IrineSistiana/mosproxy/internal/verifrt"
)

// vBigRaw: a TXT-typed raw record with n octets of RDATA (first and last octet symbolic, the rest as the pool
// left them) and the root as owner: 11+n octets on the wire.
func vBigRaw(tag string, n int) *dnsmsg.RawResource {
	r := dnsmsg.NewRaw()
	r.Type, r.Class, r.TTL = dnsmsg.TypeTXT, 1, 30
	r.Data = pool.GetBuf(n)
	r.Data[0] = verifrt.Byte(tag + ".first")
	r.Data[n-1] = verifrt.Byte(tag + ".last")
	return r
}

// VerifH_C09_StreamFraming: what every stream listener (TCP, DoT, gnet, DoQ) sends for a response that is too big
// for a 16-bit length prefix. mustHaveRespB(…, tcp=true, size) – with the size argument the listeners pass (0)
// or any other value – must produce ONE frame whose prefix equals the body length, a body of at most 65535
// octets that decodes, with TC set exactly when records were left out and counts that match.
// Sizes straddle the 65535 boundary exactly (…65534, 65535 fit; 65536, 65537 do not) and go far beyond it.
func VerifH_C09_StreamFraming() {
	verifrt.Unwind(60)
	query := dnsmsg.NewMsg()
	verifrt.Assert(query.Unpack(vQueryMsg(0x7777, 'k', false, 0)) == nil, "query decodes")
	resp := dnsmsg.NewMsg()
	resp.ID, resp.Response = 0x7777, true
	resp.Questions = append(resp.Questions, query.Questions[0].Copy())
	// header 12 + question 7 = 19; every record 11+n
	n1 := 30000
	var lens []int
	switch verifrt.Choose("scenario", 3) {
	case 0: // two records around the boundary: total 65533..65538
		n2 := 65535 - 19 - 11 - 11 - n1 + verifrt.Choose("delta", 6) - 2
		lens = []int{n1, n2}
	case 1: // three records, the middle one does not fit, the small last one does
		lens = []int{n1, 40000, 100}
	default: // far beyond: > 128 KiB in total
		lens = []int{65000, 65000, 10}
	}
	total := 19
	for i, n := range lens {
		resp.Answers = append(resp.Answers, vBigRaw("rr"+string(rune('0'+i)), n))
		total += 11 + n
	}
	size := 0
	if verifrt.Bool("size-arg-nonzero") {
		size = verifrt.IntRange("size", 1, 70000)
	}
	b := mustHaveRespB(query, resp, dnsmsg.RCodeRefused, true, size)
	verifrt.Reach("packed")
	verifrt.Assert(len(b) >= 2+12, "frame has prefix and header")
	body := b[2:]
	verifrt.Assert(len(body) <= 65535, "a stream response body never exceeds 65535 octets")
	verifrt.Assert(int(b[0])<<8|int(b[1]) == len(body), "the 2-octet prefix equals the body length")
	got := dnsmsg.NewMsg()
	verifrt.Assert(got.Unpack(body) == nil, "the body decodes")
	verifrt.Assert(got.ID == 0x7777 && got.Response && len(got.Questions) == 1, "it is the response to this query")
	if total <= 65535 {
		verifrt.Reach("fits")
		verifrt.Assert(len(got.Answers) == len(lens) && !got.Truncated, "a response that fits is sent whole, TC clear")
	} else {
		verifrt.Reach("truncated")
		verifrt.Assert(got.Truncated && len(got.Answers) < len(lens), "records were left out: TC set")
	}
	// what is there is a subsequence of the original records, unchanged
	j := 0
	for _, rr := range got.Answers {
		raw := rr.(*dnsmsg.RawResource)
		for j < len(lens) && lens[j] != len(raw.Data) {
			j++
		}
		verifrt.Assert(j < len(lens), "only original records, in order")
		orig := resp.Answers[j].(*dnsmsg.RawResource)
		verifrt.Assert(raw.Data[0] == orig.Data[0] && raw.Data[len(raw.Data)-1] == orig.Data[len(orig.Data)-1], "RDATA intact")
		j++
	}
}
