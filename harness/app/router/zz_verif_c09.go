package router

import (
	"net/netip"

	"github.com/IrineSistiana/mosproxy/internal/dnsmsg"
	"github.com/IrineSistiana/mosproxy/internal/pool"
	"github.com/IrineSistiana/mosproxy/internal/verifrt"
)

// vBigRaw: a TXT-typed raw record with n octets of RDATA (first and last octet symbolic, the rest as the pool
// left them) and the root as owner: 11+n octets on the wire.
func vBigRaw(tag string, n int) *dnsmsg.RawResource {
	r := dnsmsg.NewRaw()
	r.Type, r.Class, r.TTL = dnsmsg.TypeTXT, 1, 30
	r.Data = pool.GetBuf(n)
	r.Data[0] = verifrt.Byte(tag + ".first")
	r.Data[n-1] = verifrt.Byte(tag + ".last")
	return r
}

// VerifH_C09_StreamFraming: what every stream listener (TCP, DoT, gnet, DoQ) sends for a response that is too big
// for a 16-bit length prefix. mustHaveRespB(…, tcp=true, size) – with the size argument the listeners pass (0)
// or any other value – must produce ONE frame whose prefix equals the body length, a body of at most 65535
// octets that decodes, with TC set exactly when records were left out and counts that match.
// Sizes straddle the 65535 boundary exactly (…65534, 65535 fit; 65536, 65537 do not) and go far beyond it.
func VerifH_C09_StreamFraming() {
	verifrt.Unwind(60)
	query := dnsmsg.NewMsg()
	verifrt.Assert(query.Unpack(vQueryMsg(0x7777, 'k', false, 0)) == nil, "query decodes")
	resp := dnsmsg.NewMsg()
	resp.ID, resp.Response = 0x7777, true
	resp.Questions = append(resp.Questions, query.Questions[0].Copy())
	// header 12 + question 7 = 19; every record 11+n
	n1 := 30000
	var lens []int
	switch verifrt.Choose("scenario", 3) {
	case 0: // two records around the boundary: total 65533..65538
		n2 := 65535 - 19 - 11 - 11 - n1 + verifrt.Choose("delta", 6) - 2
		lens = []int{n1, n2}
	case 1: // three records, the middle one does not fit, the small last one does
		lens = []int{n1, 40000, 100}
	default: // far beyond: > 128 KiB in total
		lens = []int{65000, 65000, 10}
	}
	total := 19
	for i, n := range lens {
		resp.Answers = append(resp.Answers, vBigRaw("rr"+string(rune('0'+i)), n))
		total += 11 + n
	}
	size := 0
	if verifrt.Bool("size-arg-nonzero") {
		size = verifrt.IntRange("size", 1, 70000)
	}
	b := mustHaveRespB(query, resp, dnsmsg.RCodeRefused, true, size)
	verifrt.Reach("packed")
	verifrt.Assert(len(b) >= 2+12, "frame has prefix and header")
	body := b[2:]
	verifrt.Assert(len(body) <= 65535, "a stream response body never exceeds 65535 octets")
	verifrt.Assert(int(b[0])<<8|int(b[1]) == len(body), "the 2-octet prefix equals the body length")
	got := dnsmsg.NewMsg()
	verifrt.Assert(got.Unpack(body) == nil, "the body decodes")
	verifrt.Assert(got.ID == 0x7777 && got.Response && len(got.Questions) == 1, "it is the response to this query")
	if total <= 65535 {
		verifrt.Reach("fits")
		verifrt.Assert(len(got.Answers) == len(lens) && !got.Truncated, "a response that fits is sent whole, TC clear")
	} else {
		verifrt.Reach("truncated")
		verifrt.Assert(got.Truncated && len(got.Answers) < len(lens), "records were left out: TC set")
	}
	// what is there is a subsequence of the original records, unchanged
	j := 0
	for _, rr := range got.Answers {
		raw := rr.(*dnsmsg.RawResource)
		for j < len(lens) && lens[j] != len(raw.Data) {
			j++
		}
		verifrt.Assert(j < len(lens), "only original records, in order")
		orig := resp.Answers[j].(*dnsmsg.RawResource)
		verifrt.Assert(raw.Data[0] == orig.Data[0] && raw.Data[len(raw.Data)-1] == orig.Data[len(orig.Data)-1], "RDATA intact")
		j++
	}
}

// VerifH_C09_UDPClientSize: the UDP listener end to end: a client advertising ANY EDNS0 payload size (or none) asks a
// question whose upstream answer (47 A records, about 780 octets) may not fit. The datagram sent back is never
// larger than max(512, advertised size) – 512 without OPT –, decodes, carries TC exactly when answers were left
// out, keeps the question and, if the client sent an OPT, exactly one OPT.
func VerifH_C09_UDPClientSize() {
	verifrt.Unwind(400)
	verifrt.SchedBound(0)
	verifrt.CtxNoExpiry = true
	const extra = 46
	up := &vKeyedUpstream{big: extra}
	r := vRouter([]*rule{{upstream: &upstreamWrapper{tag: "up", u: up}}}, false)
	s, out := vUDPServer(r)
	withOpt := verifrt.Bool("client.opt")
	size := verifrt.U16("client.udpsize")
	client := netip.AddrPortFrom(netip.AddrFrom4([4]byte{198, 51, 100, 7}), 4242)
	listener := netip.AddrPortFrom(netip.AddrFrom4([4]byte{192, 0, 2, 53}), 53)
	s.handleMsg(vQueryMsg(0x4444, 'k', withOpt, size), nil, client, listener)
	verifrt.Quiesce()
	verifrt.Reach("served")
	verifrt.Assert(len(*out) == 1, "exactly one datagram")
	b := (*out)[0].b
	limit := 512
	if withOpt && int(size) > 512 {
		limit = int(size)
	}
	verifrt.Assert(len(b) <= limit, "the datagram never exceeds max(512, the size the client advertised) – 512 without EDNS0")
	m := dnsmsg.NewMsg()
	verifrt.Assert(m.Unpack(b) == nil, "it decodes")
	verifrt.Assert(m.ID == 0x4444 && m.Response && len(m.Questions) == 1 && m.Questions[0].Name[1] == 'k', "it answers this query")
	verifrt.Assert(m.Truncated == (len(m.Answers) < extra+1), "TC exactly when answers were left out")
	nopt := 0
	for _, rr := range m.Additionals {
		if rr.Hdr().Type == dnsmsg.TypeOPT {
			nopt++
		}
	}
	verifrt.Assert(nopt == verifrt.Ite(withOpt, 1, 0), "exactly one OPT iff the client sent one")
	for _, rr := range m.Answers {
		a, ok := rr.(*dnsmsg.A)
		verifrt.Assert(ok && a.A == vAnswerFor('k'), "kept answers are unmodified")
	}
	if len(m.Answers) == extra+1 {
		verifrt.Reach("complete")
	} else {
		verifrt.Reach("truncated")
	}
}
