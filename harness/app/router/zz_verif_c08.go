package router

import (
	"context"
	"net/netip"
	"time"

	"github.com/IrineSistiana/mosproxy/internal/dnsmsg"
	"github.com/IrineSistiana/mosproxy/internal/verifrt"
)

// vTTLResp: a response with nrec non-OPT records of arbitrary TTL (plus, optionally, an OPT whose "TTL"
// must not count), arbitrary rcode and TC.
func vTTLResp(tag string, nrec int, withOpt bool) (*dnsmsg.Msg, []uint32) {
	m := dnsmsg.NewMsg()
	m.Header.Response = true
	m.Header.RCode = dnsmsg.RCode(verifrt.U16(tag+".rcode") & 0xF)
	m.Header.Truncated = verifrt.Bool(tag + ".tc")
	q := dnsmsg.NewQuestion()
	q.Name = vName(tag+".qname", vShapes[1])
	q.Type, q.Class = 1, 1
	m.Questions = append(m.Questions, q)
	var ttls []uint32
	for i := 0; i < nrec; i++ {
		a := vA(tag + ".an")
		ttls = append(ttls, a.TTL)
		switch {
		case i == 0:
			m.Answers = append(m.Answers, a)
		case verifrt.Bool(tag + ".rec.in-additional"):
			m.Additionals = append(m.Additionals, a) // glue: counts for the lifetime and ages like any other record
		default:
			m.Authorities = append(m.Authorities, a)
		}
	}
	if withOpt {
		m.Additionals = append(m.Additionals, vRawFixed(tag+".opt", dnsmsg.TypeOPT, 0, 0))
	}
	return m, ttls
}

// refLifetime: the cache lifetime in seconds mandated for a response (C08).
func refLifetime(rcode dnsmsg.RCode, ttls []uint32, maxSec uint32) uint64 {
	has := len(ttls) > 0
	min := uint64(0xFFFFFFFF)
	for _, t := range ttls {
		if uint64(t) < min {
			min = uint64(t)
		}
	}
	var ttl uint64
	capTo := func(def uint64) uint64 {
		if has && min < def {
			return min
		}
		return def
	}
	switch rcode {
	case dnsmsg.RCodeSuccess:
		if has {
			ttl = min
		} else {
			ttl = 30
		}
	case dnsmsg.RCodeNameError:
		ttl = capTo(30)
	case dnsmsg.RCodeServerFailure:
		ttl = capTo(1)
	default:
		ttl = capTo(5)
	}
	if ttl == 0 {
		ttl = 1
	}
	if ttl > uint64(maxSec) {
		ttl = uint64(maxSec)
	}
	return ttl
}

// VerifH_C08_StorePolicy: what Store puts into the cache: nothing for truncated responses; otherwise a
// lifetime of exactly the mandated number of seconds.
func VerifH_C08_StorePolicy_S6() {
	verifrt.IntegerSolver()
	verifrt.Unwind(40)
	sh := verifrt.Shard()
	r := vRouter(nil, true)
	c := r.cache
	maxSec := verifrt.U32("maxttl")
	verifrt.Assume(maxSec >= 1)
	c.maximumTtl = time.Duration(maxSec) * time.Second
	resp, ttls := vTTLResp("resp", sh%3, sh/3 == 1)
	q := resp.Questions[0]
	rcode, tc := resp.Header.RCode, resp.Header.Truncated
	c.Store(q, netip.Addr{}, resp)
	k := cacheKey(q, "")
	v, stored, expire := c.memory.Get(k)
	verifrt.Reach("stored")
	if tc {
		verifrt.Assert(v == nil, "truncated responses are never cached")
		return
	}
	verifrt.Assert(v != nil, "a complete response is cached")
	life := expire.Sub(stored)
	want := refLifetime(rcode, ttls, maxSec)
	verifrt.Assert(life == time.Duration(want)*time.Second, "cache lifetime = min record TTL (capped by the maximum; 30 s NXDOMAIN/record-less, 5 s other errors, 1 s SERVFAIL; at least 1 s)")
}

// VerifH_C08_Ageing: a hit is served with every TTL reduced by the whole seconds elapsed (floor 1), never increased.
func VerifH_C08_Ageing_S3() {
	verifrt.IntegerSolver()
	verifrt.Unwind(40)
	r := vRouter(nil, true)
	c := r.cache
	nrec := verifrt.Shard()
	resp, ttls := vTTLResp("resp", nrec, false)
	verifrt.Assume(!resp.Header.Truncated)
	q := resp.Questions[0].Copy()
	c.Store(q, netip.Addr{}, resp)
	rc := getRequestContext()
	tA := time.Now()
	m, stored, _ := c.Get(context.Background(), q, rc)
	tB := time.Now()
	verifrt.Assert(m != nil, "stored entry is a hit")
	verifrt.Reach("hit")
	verifrt.Assume(tB.Sub(stored) < time.Duration(1<<32)*time.Second)
	lo := uint32(tA.Sub(stored).Seconds())
	hi := uint32(tB.Sub(stored).Seconds())
	got := []uint32{}
	for _, rr := range m.Answers {
		got = append(got, rr.Hdr().TTL)
	}
	for _, rr := range m.Authorities {
		got = append(got, rr.Hdr().TTL)
	}
	for _, rr := range m.Additionals {
		if rr.Hdr().Type != dnsmsg.TypeOPT {
			got = append(got, rr.Hdr().TTL)
		}
	}
	verifrt.Assert(len(got) == len(ttls), "same records")
	for i, t := range ttls {
		g := got[i]
		verifrt.Assert(g >= 1 && g <= t || (t == 0 && g == 1), "aged TTL never exceeds the upstream TTL (floor 1)")
		// no greater than ttl - elapsed(lo), floored at 1
		var ub uint32 = 1
		if t > lo {
			ub = t - lo
		}
		verifrt.Assert(g <= ub, "TTL <= upstream TTL minus whole seconds elapsed since it was fetched (floored at 1)")
		var lb uint32 = 1
		if t > hi {
			lb = t - hi
		}
		verifrt.Assert(g >= lb, "TTL not reduced by more than the elapsed seconds")
	}
	verifrt.Assert(m.Header.RCode == resp.Header.RCode, "rcode preserved")
}

// VerifH_C08_NegativeNeverDisplaces: an error response never displaces a live positive entry, and a
// failed exchange stores nothing.
func VerifH_C08_NegativeNeverDisplaces() {
	verifrt.IntegerSolver()
	verifrt.Unwind(40)
	r := vRouter(nil, true)
	c := r.cache
	pos, _ := vTTLResp("pos", 1, false)
	neg, _ := vTTLResp("neg", 0, false)
	verifrt.Assume(!pos.Header.Truncated && pos.Header.RCode == 0 && neg.Header.RCode != 0)
	q := pos.Questions[0].Copy()
	c.Store(q, netip.Addr{}, pos)
	c.Store(q, netip.Addr{}, neg)
	rc := getRequestContext()
	m, _, _ := c.Get(context.Background(), q, rc)
	verifrt.Reach("hit")
	verifrt.Assert(m != nil && m.Header.RCode == 0 && len(m.Answers) == 1, "the positive entry survives a later error response")
	// failed exchange: handleReq with a failing upstream stores nothing
	up := &vUpstream{tag: "up"}
	r2 := vRouter([]*rule{{upstream: &upstreamWrapper{tag: "up", u: up}}}, true)
	q2 := dnsmsg.NewQuestion()
	q2.Name = vName("q2", vShapes[2])
	q2.Type, q2.Class = 1, 1
	rc2 := getRequestContext()
	r2.handleReq(context.Background(), q2, rc2)
	if up.lastResp == nil {
		verifrt.Reach("failed")
		v, _, _ := r2.cache.memory.Get(cacheKey(q2, ""))
		verifrt.Assert(v == nil, "a failed exchange is never cached")
	}
}

// VerifH_C08_AgeingAllSections: one record in EACH of the three sections with fixed TTLs (100, 7, 3) and an
// arbitrary clock: every one of them is served aged by the whole seconds elapsed (floor 1) – no section is skipped.
func VerifH_C08_AgeingAllSections() {
	verifrt.IntegerSolver()
	verifrt.Unwind(40)
	r := vRouter(nil, true)
	c := r.cache
	resp, _ := vTTLResp("resp", 0, false)
	verifrt.Assume(!resp.Header.Truncated && resp.Header.RCode == 0)
	ttls := []uint32{100, 7, 3}
	for i, t := range ttls {
		a := vA("rec")
		a.TTL = t
		switch i {
		case 0:
			resp.Answers = append(resp.Answers, a)
		case 1:
			resp.Authorities = append(resp.Authorities, a)
		default:
			resp.Additionals = append(resp.Additionals, a)
		}
	}
	q := resp.Questions[0].Copy()
	c.Store(q, netip.Addr{}, resp)
	rc := getRequestContext()
	tA := time.Now()
	m, stored, _ := c.Get(context.Background(), q, rc)
	tB := time.Now()
	if m == nil {
		verifrt.Reach("expired")
		verifrt.Assert(tB.Sub(stored) >= 3*time.Second-2*time.Second, "an entry only disappears once its lifetime (3 s here, 2 s granularity) is over")
		return
	}
	verifrt.Reach("hit")
	// (expiry itself happens inside otter, which the model does not age: only hits in a sane time range are judged)
	verifrt.Assume(tB.Sub(stored) < time.Duration(1<<32)*time.Second)
	lo, hi := uint32(tA.Sub(stored).Seconds()), uint32(tB.Sub(stored).Seconds())
	verifrt.Assert(len(m.Answers) == 1 && len(m.Authorities) == 1 && len(m.Additionals) == 1, "all records are served")
	got := []uint32{m.Answers[0].Hdr().TTL, m.Authorities[0].Hdr().TTL, m.Additionals[0].Hdr().TTL}
	for i, t := range ttls {
		var ub, lb uint32 = 1, 1
		if t > lo {
			ub = t - lo
		}
		if t > hi {
			lb = t - hi
		}
		verifrt.Assert(got[i] >= lb && got[i] <= ub, "every section's TTL is reduced by exactly the whole seconds elapsed (floor 1)")
	}
}

// vTypedRecord: a record of one of the kinds the codec knows, with an arbitrary TTL and arbitrary numeric RDATA fields
// (an SOA's serial/refresh/retry/expire/MINIMUM, an MX preference, SRV priority/weight/port): values a cache policy
// might be tempted to look at.
func vTypedRecord(tag string, kind int) (dnsmsg.Resource, uint32) {
	ttl := verifrt.U32(tag + ".ttl")
	owner := vName(tag+".owner", vShapes[1])
	var rr dnsmsg.Resource
	switch kind {
	case 0:
		s := dnsmsg.NewSOA()
		s.NS, s.MBox = vName(tag+".ns", vShapes[1]), vName(tag+".mbox", vShapes[1])
		s.Serial, s.Refresh, s.Retry, s.Expire, s.MinTTL = verifrt.U32(tag+".serial"), verifrt.U32(tag+".refresh"), verifrt.U32(tag+".retry"), verifrt.U32(tag+".expire"), verifrt.U32(tag+".minimum")
		s.Type = dnsmsg.TypeSOA
		rr = s
	case 1:
		n := dnsmsg.NewNAME()
		n.NameData = vName(tag+".target", vShapes[1])
		n.Type = []dnsmsg.Type{dnsmsg.TypeNS, dnsmsg.TypeCNAME, dnsmsg.TypePTR}[verifrt.Choose(tag+".nametype", 3)]
		rr = n
	case 2:
		m := dnsmsg.NewMX()
		m.Pref, m.MX = verifrt.U16(tag+".pref"), vName(tag+".mx", vShapes[1])
		m.Type = dnsmsg.TypeMX
		rr = m
	case 3:
		s := dnsmsg.NewSRV()
		s.Priority, s.Weight, s.Port, s.Target = verifrt.U16(tag+".prio"), verifrt.U16(tag+".weight"), verifrt.U16(tag+".port"), vName(tag+".target", vShapes[1])
		s.Type = dnsmsg.TypeSRV
		rr = s
	case 4:
		a := dnsmsg.NewAAAA()
		copy(a.AAAA[:], verifrt.BytesN(tag+".aaaa", 16))
		a.Type = dnsmsg.TypeAAAA
		rr = a
	default:
		r := vRawFixed(tag+".raw", dnsmsg.Type(99), 0, 2)
		rr = r
	}
	h := rr.Hdr()
	h.Name, h.Class, h.TTL = owner, 1, ttl
	return rr, ttl
}

// VerifH_C08_StorePolicyRecordKinds: the lifetime is the smallest RECORD TTL whatever the records are and wherever
// they sit: responses with no answer but records in the authority / additional section (NODATA or NXDOMAIN with an
// SOA, referrals with NS + glue), answers of every record kind the codec knows (SOA, NS/CNAME/PTR, MX, SRV, AAAA,
// unknown type) with arbitrary RDATA numbers (an SOA MINIMUM above or below its TTL), any rcode, any maximum.
func VerifH_C08_StorePolicyRecordKinds_S6() {
	verifrt.Unwind(60)
	kind := verifrt.Shard()
	r := vRouter(nil, true)
	c := r.cache
	maxSec := verifrt.U32("maxttl")
	verifrt.Assume(maxSec >= 1)
	c.maximumTtl = time.Duration(maxSec) * time.Second
	m := dnsmsg.NewMsg()
	m.Header.Response = true
	m.Header.RCode = dnsmsg.RCode(verifrt.U16("rcode") & 0xF)
	q := dnsmsg.NewQuestion()
	q.Name = vName("qname", vShapes[1])
	q.Type, q.Class = 1, 1
	m.Questions = append(m.Questions, q)
	rr, t0 := vTypedRecord("r0", kind)
	ttls := []uint32{t0}
	switch verifrt.Choose("r0.section", 3) {
	case 0:
		m.Answers = append(m.Answers, rr)
	case 1:
		m.Authorities = append(m.Authorities, rr)
	default:
		m.Additionals = append(m.Additionals, rr)
	}
	if verifrt.Bool("second") {
		a := vA("r1")
		ttls = append(ttls, a.TTL)
		if verifrt.Bool("r1.in-answer") {
			m.Answers = append(m.Answers, a)
		} else {
			m.Additionals = append(m.Additionals, a)
		}
	}
	c.Store(q, netip.Addr{}, m)
	v, stored, expire := c.memory.Get(cacheKey(q, ""))
	verifrt.Reach("stored")
	verifrt.Assert(v != nil, "a complete response is cached")
	want := refLifetime(m.Header.RCode, ttls, maxSec)
	verifrt.Assert(expire.Sub(stored) == time.Duration(want)*time.Second, "cache lifetime = smallest record TTL of the message (capped), whatever the record kinds, sections and RDATA values")
}

// VerifH_C08_BackendExpiry: "nothing is served from cache once its lifetime has elapsed": eviction itself is the cache
// library's job (otter removes an entry once the time-to-live it was given is over; outside the encoding), so what is
// decided here is the time-to-live the library is GIVEN: for a response stored at any instant (one record with a TTL
// from {0, 1, 30, 300, 86400}, NOERROR / NXDOMAIN / SERVFAIL / REFUSED, default maximum), expire − stored is the
// mandated lifetime (StorePolicy) and the time-to-live handed to the backend ends at that very expire instant:
// reading-before-Store <= expire − ttl <= reading-after-Store.
func VerifH_C08_BackendExpiry() {
	verifrt.IntegerSolver() // clock arithmetic only: the integer back end decides these chains of inequalities at once
	verifrt.Unwind(40)
	r := vRouter(nil, true)
	c := r.cache
	maxSec := uint32(defaultMaxCacheTtl / time.Second)
	resp, _ := vTTLResp("resp", 1, false)
	resp.Header.Truncated = false
	resp.Header.RCode = []dnsmsg.RCode{0, 3, 2, 5}[verifrt.Choose("rcode", 4)]
	ttl0 := []uint32{0, 1, 30, 300, 86400}[verifrt.Choose("ttl", 5)]
	resp.Answers[0].Hdr().TTL = ttl0
	q := resp.Questions[0]
	tA := time.Now()
	c.Store(q, netip.Addr{}, resp)
	tB := time.Now()
	v, stored, expire := c.memory.Get(cacheKey(q, ""))
	verifrt.Assert(v != nil && verifrt.Ghost("otter.sets") == 1, "stored once")
	verifrt.Reach("stored")
	ttl := verifrt.GhostDuration("otter.lastttl")
	_ = maxSec // (the lifetime itself is StorePolicy's subject)
	verifrt.Assert(!stored.Before(tA) && !stored.After(tB), "stored instant is an instant of the Store call")
	// the backend's clock starts at some instant of the Store call: expire − tB <= ttl <= expire − tA
	verifrt.Assert(ttl <= expire.Sub(tA) && ttl >= expire.Sub(tB), "the time-to-live given to the cache backend ends exactly at the entry's expire instant")
}
