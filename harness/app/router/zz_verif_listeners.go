package router

import (
	"context"
	"errors"
	"net"
	"net/netip"
	"os"
	"time"

	"github.com/IrineSistiana/mosproxy/internal/dnsmsg"
	"github.com/IrineSistiana/mosproxy/internal/pool"
	"github.com/IrineSistiana/mosproxy/internal/verifrt"
	"github.com/panjf2000/gnet/v2"
)

var errVNet = errors.New("fake connection closed")

// vTCPConn: client side of a stream connection as seen by the listener: Read blocks until the scripted
// client pushes a segment (or closes), every Write is recorded as one unit.
type vTCPConn struct {
	inbox    chan []byte
	pend     []byte
	closedCh chan struct{}
	closed   bool
	writes   [][]byte
	remote   net.Addr
	timeout  chan struct{} // the harness lets the read deadline strike: the next / current blocked Read fails once
}

func newVTCPConn() *vTCPConn {
	return &vTCPConn{inbox: make(chan []byte, 16), closedCh: make(chan struct{}), timeout: make(chan struct{}, 1),
		remote: &net.TCPAddr{IP: net.IP{192, 0, 2, 1}, Port: 5353}}
}

func (c *vTCPConn) Read(p []byte) (int, error) {
	if len(c.pend) == 0 {
		select {
		case b := <-c.inbox:
			c.pend = b
		case <-c.closedCh:
			return 0, errVNet
		case <-c.timeout:
			return 0, os.ErrDeadlineExceeded
		}
	}
	n := copy(p, c.pend)
	c.pend = c.pend[n:]
	return n, nil
}
func (c *vTCPConn) Write(p []byte) (int, error) {
	if c.closed {
		return 0, errVNet
	}
	c.writes = append(c.writes, append([]byte(nil), p...))
	return len(p), nil
}
func (c *vTCPConn) Close() error {
	if !c.closed {
		c.closed = true
		close(c.closedCh)
	}
	return nil
}
func (c *vTCPConn) LocalAddr() net.Addr                { return &net.TCPAddr{IP: net.IP{192, 0, 2, 53}, Port: 53} }
func (c *vTCPConn) RemoteAddr() net.Addr               { return c.remote }
func (c *vTCPConn) SetDeadline(t time.Time) error      { return nil }
func (c *vTCPConn) SetReadDeadline(t time.Time) error  { return nil }
func (c *vTCPConn) SetWriteDeadline(t time.Time) error { return nil }

// vFrame: a minimal decodable query (header + one question "a" A IN) with the given ID, RD set,
// length-prefixed. marker goes into the question name so that answers can be told apart.
func vQueryMsg(id uint16, marker byte, withOpt bool, optSize uint16) []byte {
	b := []byte{byte(id >> 8), byte(id), 0x01, 0x00, 0, 1, 0, 0, 0, 0, 0, 0, 1, marker, 0, 0, 1, 0, 1}
	if withOpt {
		b[11] = 1
		b = append(b, 0, 0, 41, byte(optSize>>8), byte(optSize), 0, 0, 0, 0, 0, 0)
	}
	return b
}

func vFrame(msg []byte) []byte {
	return append([]byte{byte(len(msg) >> 8), byte(len(msg))}, msg...)
}

// vKeyedUpstream answers every query with an A record derived from the question (so that a swapped or
// stale answer is visible) and with the query's ID.
type vKeyedUpstream struct {
	calls int
	big   int    // number of extra answers (to force truncation)
	seen  []byte // marker octet of every question that was forwarded
}

func vAnswerFor(marker byte) [4]byte { return [4]byte{10, marker, marker ^ 0x5a, 7} }

func (u *vKeyedUpstream) ExchangeContext(ctx context.Context, q []byte) (*dnsmsg.Msg, error) {
	u.calls++
	verifrt.Yield() // the upstream takes time: other requests may run meanwhile
	m := dnsmsg.NewMsg()
	if err := m.Unpack(q); err != nil {
		return nil, err
	}
	rr := dnsmsg.PopEDNS0(m)
	if rr != nil {
		dnsmsg.ReleaseResource(rr)
	}
	m.Response = true
	marker := m.Questions[0].Name[1]
	u.seen = append(u.seen, marker)
	for i := 0; i <= u.big; i++ {
		a := dnsmsg.NewA()
		a.Name = dnsmsg.Name(pool.CopyBuf(m.Questions[0].Name))
		a.Type, a.Class, a.TTL = dnsmsg.TypeA, 1, 60
		a.A = vAnswerFor(marker)
		m.Answers = append(m.Answers, a)
	}
	return m, nil
}
func (u *vKeyedUpstream) Close() error { return nil }

// vCheckResponse decodes one response body and checks it against the query it must belong to.
func vCheckResponse(body []byte, wantID uint16, wantMarker byte, forwarded bool) {
	m := dnsmsg.NewMsg()
	verifrt.Assert(m.Unpack(body) == nil, "response decodes")
	verifrt.Assert(m.ID == wantID && m.Response, "response carries the query's ID, QR=1")
	verifrt.Assert(len(m.Questions) == 1 && len(m.Questions[0].Name) == 2 && m.Questions[0].Name[1] == wantMarker, "response echoes its own question")
	if forwarded {
		verifrt.Assert(m.RCode == 0 && len(m.Answers) >= 1, "forwarded answer present")
		for _, rr := range m.Answers {
			a, ok := rr.(*dnsmsg.A)
			verifrt.Assert(ok && a.A == vAnswerFor(wantMarker), "the answer is the one the upstream produced for this response's own question")
		}
	}
}

// ---- gnet fake

type vGnetConn struct {
	gnet.Conn
	buf     []byte
	ctx     interface{}
	writes  [][]byte
	closed  int
	pending []func()
}

func (c *vGnetConn) Next(n int) ([]byte, error) {
	if n > len(c.buf) {
		return nil, errVNet // io.ErrShortBuffer: nothing is consumed
	}
	if n <= 0 {
		n = len(c.buf)
	}
	b := c.buf[:n]
	c.buf = c.buf[n:]
	return b, nil
}
func (c *vGnetConn) InboundBuffered() int     { return len(c.buf) }
func (c *vGnetConn) Context() interface{}     { return c.ctx }
func (c *vGnetConn) SetContext(x interface{}) { c.ctx = x }
func (c *vGnetConn) LocalAddr() net.Addr      { return &net.TCPAddr{IP: net.IP{192, 0, 2, 53}, Port: 53} }
func (c *vGnetConn) RemoteAddr() net.Addr     { return &net.TCPAddr{IP: net.IP{192, 0, 2, 1}, Port: 5353} }
func (c *vGnetConn) Close() error             { c.closed++; return nil }
func (c *vGnetConn) Flush() error             { return nil }
func (c *vGnetConn) Write(p []byte) (int, error) {
	c.writes = append(c.writes, append([]byte(nil), p...))
	return len(p), nil
}
func (c *vGnetConn) AsyncWrite(p []byte, cb gnet.AsyncCallback) error {
	// the event loop performs the write and the callback later
	c.writes = append(c.writes, append([]byte(nil), p...))
	if cb != nil {
		cb(c, nil)
	}
	return nil
}

var _ = netip.Addr{}
