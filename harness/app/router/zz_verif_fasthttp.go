package router

import (
	"io"
	"net"
	"net/netip"

	"github.com/IrineSistiana/mosproxy/internal/pool"
	"github.com/IrineSistiana/mosproxy/internal/verifrt"
	"github.com/valyala/fasthttp"
)

// vFastReq is what the fasthttp.RequestCtx accessors used by the handler return. fasthttp itself (request
// parsing, header tables, buffer reuse) is outside the encoding: each accessor is replaced by a stub that honours
// its documented contract (Peek returns nil for an absent key, BodyStream yields the body once, SetBody copies).
type vFastReq struct {
	method  string
	path    string
	dns     []byte
	accept  []byte
	ctype   []byte
	xff     []byte
	body    []byte
	status  int
	bodies  [][]byte
	rawBody []byte // body stored by reference (SetBodyRaw): fasthttp reads it when it writes the response, after the handler returned
	respCT  string
	remote  net.Addr
	uri     fasthttp.URI
	args    fasthttp.Args
	stubbed bool
}

func vFastStubs(f *vFastReq) {
	verifrt.Redirect("(*github.com/valyala/fasthttp.RequestCtx).IsGet", func(*fasthttp.RequestCtx) bool { return f.method == "GET" })
	verifrt.Redirect("(*github.com/valyala/fasthttp.RequestCtx).IsPost", func(*fasthttp.RequestCtx) bool { return f.method == "POST" })
	verifrt.Redirect("(*github.com/valyala/fasthttp.Request).URI", func(*fasthttp.Request) *fasthttp.URI { return &f.uri })
	verifrt.Redirect("(*github.com/valyala/fasthttp.URI).Path", func(*fasthttp.URI) []byte { return []byte(f.path) })
	verifrt.Redirect("(*github.com/valyala/fasthttp.URI).QueryArgs", func(*fasthttp.URI) *fasthttp.Args { return &f.args })
	verifrt.Redirect("(*github.com/valyala/fasthttp.Args).Peek", func(_ *fasthttp.Args, key string) []byte {
		if key == "dns" {
			return f.dns
		}
		return nil
	})
	verifrt.Redirect("(*github.com/valyala/fasthttp.RequestHeader).Peek", func(_ *fasthttp.RequestHeader, key string) []byte {
		switch key {
		case "Accept":
			return f.accept
		case "Content-Type":
			return f.ctype
		case "X-Forwarded-For":
			return f.xff
		}
		return nil
	})
	verifrt.Redirect("(*github.com/valyala/fasthttp.Request).BodyStream", func(*fasthttp.Request) io.Reader { return &vBody{data: f.body} })
	verifrt.Redirect("(*github.com/valyala/fasthttp.RequestCtx).SetStatusCode", func(_ *fasthttp.RequestCtx, c int) { f.status = c })
	verifrt.Redirect("(*github.com/valyala/fasthttp.RequestCtx).SetBody", func(_ *fasthttp.RequestCtx, b []byte) {
		f.bodies = append(f.bodies, append([]byte(nil), b...))
	})
	verifrt.Redirect("(*github.com/valyala/fasthttp.Response).SetBodyRaw", func(_ *fasthttp.Response, b []byte) { f.rawBody = b })
	verifrt.Redirect("(*github.com/valyala/fasthttp.ResponseHeader).Add", func(_ *fasthttp.ResponseHeader, k, v string) {
		if k == "Content-Type" {
			f.respCT = v
		}
	})
	verifrt.Redirect("(*github.com/valyala/fasthttp.RequestCtx).RemoteAddr", func(*fasthttp.RequestCtx) net.Addr { return f.remote })
	verifrt.Redirect("(*github.com/valyala/fasthttp.RequestCtx).LocalAddr", func(*fasthttp.RequestCtx) net.Addr {
		return &net.TCPAddr{IP: net.IP{192, 0, 2, 53}, Port: 80}
	})
}

// VerifH_C03_FastHTTP: the fasthttp DoH handler: a well-formed GET (?dns=) or POST query is answered with exactly
// one application/dns-message body carrying the response to that query; wrong path / method / headers / missing
// parameter / undecodable body get the proper status, no body, and never reach the upstream.
func VerifH_C03_FastHTTP() {
	verifrt.Unwind(400)
	verifrt.CtxNoExpiry = true
	up := &vKeyedUpstream{}
	r := vRouter([]*rule{{upstream: &upstreamWrapper{tag: "up", u: up}}}, false)
	h := &fasthttpHandler{r: r, path: "/dns-query", logger: r.logger}
	const q64 = "EjQBAAABAAAAAAAAAXEAAAEAAQ" // vQueryMsg(0x1234,'q',false,0), base64url
	f := &vFastReq{path: "/dns-query", remote: &net.TCPAddr{IP: net.IP{198, 51, 100, 3}, Port: 4444}}
	post := verifrt.Bool("post")
	if post {
		f.method, f.ctype, f.body = "POST", []byte("application/dns-message"), vQueryMsg(0x1234, 'q', false, 0)
	} else {
		f.method, f.accept, f.dns = "GET", []byte("application/dns-message"), []byte(q64)
	}
	defect := verifrt.Choose("defect", 6)
	switch defect {
	case 1:
		f.path = "/other"
	case 2:
		f.method = "PUT"
	case 3:
		f.accept, f.ctype = []byte("text/html"), []byte("text/plain")
	case 4:
		f.dns = nil
		f.body = f.body[:len(f.body)/2] // POST: cut inside the question
	case 5:
		if !post {
			f.dns = []byte("!!!!") // not base64url
		} else {
			f.body = nil
		}
	}
	vFastStubs(f)
	var ctx fasthttp.RequestCtx
	h.HandleFastHTTP(&ctx)
	// the server writes the response after the handler has returned; meanwhile other requests use the buffer pool
	if f.rawBody != nil {
		scratch := pool.GetBuf(len(f.rawBody))
		for i := range scratch {
			scratch[i] = 0xEE
		}
		f.bodies = append(f.bodies, append([]byte(nil), f.rawBody...))
		pool.ReleaseBuf(scratch)
	}
	verifrt.Reach("served")
	switch defect {
	case 0:
		verifrt.Reach("answered")
		verifrt.Assert(f.status == 0 && len(f.bodies) == 1 && up.calls == 1, "exactly one response body for the query")
		verifrt.Assert(f.respCT == "application/dns-message", "content type set")
		vCheckResponse(f.bodies[0], 0x1234, 'q', true)
	case 1:
		verifrt.Assert(f.status == fasthttp.StatusNotFound && len(f.bodies) == 0 && up.calls == 0, "wrong path: 404")
	case 2:
		verifrt.Assert(f.status == fasthttp.StatusNotImplemented && len(f.bodies) == 0 && up.calls == 0, "unsupported method: 501")
	default:
		verifrt.Assert(f.status == fasthttp.StatusBadRequest && len(f.bodies) == 0 && up.calls == 0, "bad request: 400, nothing forwarded")
	}
}

var _ = netip.Addr{}

// VerifH_C04_FastHTTPBodyOwnership: the same handler under the no-mix-up property: the response body the server writes
// after the handler returned is this query's response even though the buffer pool is busy in between.
func VerifH_C04_FastHTTPBodyOwnership() { VerifH_C03_FastHTTP() }
