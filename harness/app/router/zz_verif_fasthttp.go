package router

import (
	"io"
	"net"
	"net/netip"

	"github.com/IrineSistiana/mosproxy/internal/pool"
	"github.com/IrineSistiana/mosproxy/internal/verifrt"
	"github.com/valyala/fasthttp"
)

// vFastReq is what the fasthttp.RequestCtx accessors used by the handler return. fasthttp itself (request
// parsing, header tables, buffer reuse) is outside the encoding: each accessor is replaced by a stub that honours
// its documented contract (Peek returns nil for an absent key, BodyStream yields the body once, SetBody copies).
type vFastReq struct {
	method  string
	path    string
	dns     []byte
	accept  []byte
	ctype   []byte
	xff     []byte
	body    []byte
	status  int
	bodies  [][]byte
	rawBody []byte // body stored by reference (SetBodyRaw): fasthttp reads it when it writes the response, after the handler returned
	respCT  string
	remote  net.Addr
	uri     fasthttp.URI
	args    fasthttp.Args
	stubbed bool
}

func vFastStubs(f *vFastReq) {
	verifrt.Redirect("(*github.com/valyala/fasthttp.RequestCtx).IsGet", func(*fasthttp.RequestCtx) bool { return f.method == "GET" })
	verifrt.Redirect("(*github.com/valyala/fasthttp.RequestCtx).IsPost", func(*fasthttp.RequestCtx) bool { return f.method == "POST" })
	verifrt.Redirect("(*github.com/valyala/fasthttp.Request).URI", func(*fasthttp.Request) *fasthttp.URI { return &f.uri })
	verifrt.Redirect("(*github.com/valyala/fasthttp.URI).Path", func(*fasthttp.URI) []byte { return []byte(f.path) })
	verifrt.Redirect("(*github.com/valyala/fasthttp.URI).QueryArgs", func(*fasthttp.URI) *fasthttp.Args { return &f.args })
	verifrt.Redirect("(*github.com/valyala/fasthttp.Args).Peek", func(_ *fasthttp.Args, key string) []byte {
		if key == "dns" {
			return f.dns
		}
		return nil
	})
	verifrt.Redirect("(*github.com/valyala/fasthttp.RequestHeader).Peek", func(_ *fasthttp.RequestHeader, key string) []byte {
		switch key {
		case "Accept":
			return f.accept
		case "Content-Type":
			return f.ctype
		case "X-Forwarded-For":
			return f.xff
		}
		return nil
	})
	verifrt.Redirect("(*github.com/valyala/fasthttp.Request).BodyStream", func(*fasthttp.Request) io.Reader { return &vBody{data: f.body} })
	verifrt.Redirect("(*github.com/valyala/fasthttp.RequestCtx).SetStatusCode", func(_ *fasthttp.RequestCtx, c int) { f.status = c })
	verifrt.Redirect("(*github.com/valyala/fasthttp.RequestCtx).SetBody", func(_ *fasthttp.RequestCtx, b []byte) {
		f.bodies = append(f.bodies, append([]byte(nil), b...))
	})
	verifrt.Redirect("(*github.com/valyala/fasthttp.Response).SetBodyRaw", func(_ *fasthttp.Response, b []byte) { f.rawBody = b })
	verifrt.Redirect("(*github.com/valyala/fasthttp.ResponseHeader).Add", func(_ *fasthttp.ResponseHeader, k, v string) {
		if k == "Content-Type" {
			f.respCT = v
		}
	})
	verifrt.Redirect("(*github.com/valyala/fasthttp.RequestCtx).RemoteAddr", func(*fasthttp.RequestCtx) net.Addr { return f.remote })
	verifrt.Redirect("(*github.com/valyala/fasthttp.RequestCtx).LocalAddr", func(*fasthttp.RequestCtx) net.Addr {
		return &net.TCPAddr{IP: net.IP{192, 0, 2, 53}, Port: 80}
	})
}

// VerifH_C03_FastHTTP: the fasthttp DoH handler: a well-formed GET (?dns=) or POST query is answered with exactly
// one application/dns-message body carrying the response to that query; wrong path / method / headers / missing
// parameter / undecodable body get the proper status, no body, and never reach the upstream.
func VerifH_C03_FastHTTP() {
	verifrt.Unwind(400)
	verifrt.CtxNoExpiry = true
	up := &vKeyedUpstream{}
	r := vRouter([]*rule{{upstream: &upstreamWrapper{tag: "up", u: up}}}, false)
	h := &fasthttpHandler{r: r, path: "/dns-query", logger: r.logger}
	const q64 = "EjQBAAABAAAAAAAAAXEAAAEAAQ" // vQueryMsg(0x1234,'q',false,0), base64url
	f := &vFastReq{path: "/dns-query", remote: &net.TCPAddr{IP: net.IP{198, 51, 100, 3}, Port: 4444}}
	post := verifrt.Bool("post")
	if post {
		f.method, f.ctype, f.body = "POST", []byte("application/dns-message"), vQueryMsg(0x1234, 'q', false, 0)
	} else {
		f.method, f.accept, f.dns = "GET", []byte("application/dns-message"), []byte(q64)
	}
	defect := verifrt.Choose("defect", 6)
	switch defect {
	case 1:
		f.path = "/other"
	case 2:
		f.method = "PUT"
	case 3:
		f.accept, f.ctype = []byte("text/html"), []byte("text/plain")
	case 4:
		f.dns = nil
		f.body = f.body[:len(f.body)/2] // POST: cut inside the question
	case 5:
		if !post {
			f.dns = []byte("!!!!") // not base64url
		} else {
			f.body = nil
		}
	}
	vFastStubs(f)
	var ctx fasthttp.RequestCtx
	h.HandleFastHTTP(&ctx)
	// the server writes the response after the handler has returned; meanwhile other requests use the buffer pool
	if f.rawBody != nil {
		scratch := pool.GetBuf(len(f.rawBody))
		for i := range scratch {
			scratch[i] = 0xEE
		}
		f.bodies = append(f.bodies, append([]byte(nil), f.rawBody...))
		pool.ReleaseBuf(scratch)
	}
	verifrt.Reach("served")
	switch defect {
	case 0:
		verifrt.Reach("answered")
		verifrt.Assert(f.status == 0 && len(f.bodies) == 1 && up.calls == 1, "exactly one response body for the query")
		verifrt.Assert(f.respCT == "application/dns-message", "content type set")
		vCheckResponse(f.bodies[0], 0x1234, 'q', true)
	case 1:
		verifrt.Assert(f.status == fasthttp.StatusNotFound && len(f.bodies) == 0 && up.calls == 0, "wrong path: 404")
	case 2:
		verifrt.Assert(f.status == fasthttp.StatusNotImplemented && len(f.bodies) == 0 && up.calls == 0, "unsupported method: 501")
	default:
		verifrt.Assert(f.status == fasthttp.StatusBadRequest && len(f.bodies) == 0 && up.calls == 0, "bad request: 400, nothing forwarded")
	}
}

var _ = netip.Addr{}

// VerifH_C04_FastHTTPBodyOwnership: the same handler under the no-mix-up property: the response body the server writes
// after the handler returned is this query's response even though the buffer pool is busy in between.
func VerifH_C04_FastHTTPBodyOwnership() { VerifH_C03_FastHTTP() }

// VerifH_C15_FastHTTPClientAddrHeader: behind a reverse proxy the fasthttp DoH listener takes the client from the
// configured header: whatever is charged for the query (the cost of the work done for it) is charged to the FIRST
// address of the header — never to the proxy's own address —, and a header value that is not an address (arbitrary ≤ 3
// octets, or text) is a 400 without any charge or upstream exchange. (The handler never panics on hostile header octets.)
func VerifH_C15_FastHTTPClientAddrHeader() {
	verifrt.Unwind(400)
	verifrt.CtxNoExpiry = true
	up := &vKeyedUpstream{}
	r, charges := vLimitedRouter(up)
	h := &fasthttpHandler{r: r, path: "/dns-query", clientAddrHeader: "X-Forwarded-For", logger: r.logger}
	const q64 = "EjQBAAABAAAAAAAAAXEAAAEAAQ"
	f := &vFastReq{path: "/dns-query", method: "GET", accept: []byte("application/dns-message"), dns: []byte(q64),
		remote: &net.TCPAddr{IP: net.IP{192, 0, 2, 200}, Port: 4444}} // the reverse proxy
	forms := []struct {
		v    []byte
		want netip.Addr
		ok   bool
	}{
		{[]byte("203.0.113.9"), netip.AddrFrom4([4]byte{203, 0, 113, 9}), true},
		{[]byte("203.0.113.9, 10.0.0.1"), netip.AddrFrom4([4]byte{203, 0, 113, 9}), true},
		{[]byte("2001:db8::5,10.0.0.1"), netip.AddrFrom16([16]byte{0x20, 0x01, 0x0d, 0xb8, 0, 0, 0, 0, 0, 0, 0, 0, 0, 0, 0, 5}), true},
		{[]byte("not-an-address"), netip.Addr{}, false},
		{nil, netip.Addr{}, false}, // filled below: arbitrary short octets
	}
	k := verifrt.Choose("header", len(forms))
	fm := forms[k]
	if k == 4 {
		fm.v = verifrt.Bytes("xff", 3)
		verifrt.Assume(len(fm.v) > 0)
		for _, c := range fm.v {
			verifrt.Assume(!(c >= '0' && c <= '9') && c != ':') // cannot be (the start of) an address
		}
	}
	f.xff = fm.v
	vFastStubs(f)
	var ctx fasthttp.RequestCtx
	h.HandleFastHTTP(&ctx)
	verifrt.Reach("served")
	if !fm.ok {
		verifrt.Assert(f.status == fasthttp.StatusBadRequest && len(*charges) == 0 && up.calls == 0 && len(f.bodies) == 0, "an unusable header value: 400, nothing charged, nothing forwarded")
		return
	}
	verifrt.Reach("answered")
	verifrt.Assert(len(f.bodies) == 1, "answered")
	for _, c := range *charges {
		verifrt.Assert(c.addr == fm.want, "every charge goes to the client named in the header (first hop), never to the proxy")
	}
}

// VerifH_C20_FastHTTPBodyOwnership: the fasthttp listener writes the response AFTER the handler has returned: whatever
// the handler leaves in the response must not be memory it has already given back to the pool (the stub of SetBodyRaw
// keeps the slice by reference and the harness reads it after other requests have used the pool — ownership ghosts).
func VerifH_C20_FastHTTPBodyOwnership() { VerifH_C03_FastHTTP() }
