package router

import (
	"context"

	"github.com/IrineSistiana/mosproxy/internal/dnsmsg"
	"github.com/IrineSistiana/mosproxy/internal/verifrt"
)

// vDistinct: the client uses pairwise different transaction IDs for the queries it has in flight.
func vDistinct(ids []uint16) {
	for i := range ids {
		for j := 0; j < i; j++ {
			verifrt.Assume(ids[i] != ids[j])
		}
	}
}

// vWhichQuery identifies the query a response answers by its transaction ID; a response that carries a question must
// carry exactly that query's question, and only a REFUSED may come without one.
func vWhichQuery(b []byte, ids []uint16) int {
	id := uint16(b[0])<<8 | uint16(b[1])
	i := -1
	for j := range ids {
		if id == ids[j] {
			i = j
		}
	}
	verifrt.Assert(i >= 0, "every response carries the transaction ID of one of the queries")
	if len(b) >= 19 && b[5] == 1 {
		verifrt.Assert(b[12] == 1 && b[13] == byte('a'+i), "a response that has a question has its own query's question")
	} else {
		verifrt.Assert(b[3]&0xF == 5, "only a REFUSED may come without the question")
	}
	return i
}

// vCheckFrames: every recorded Write is exactly one frame (prefix = body length); returns bodies.
func vCheckFrames(writes [][]byte) [][]byte {
	var bodies [][]byte
	for _, w := range writes {
		verifrt.Assert(len(w) >= 2+12, "a response frame has a prefix and a header")
		verifrt.Assert(int(w[0])<<8|int(w[1]) == len(w)-2, "each response is one contiguous frame whose 2-octet prefix equals its body length")
		bodies = append(bodies, w[2:])
	}
	return bodies
}

// VerifH_C13_TCPStream: standard TCP listener: k pipelined queries arriving in arbitrary segments are each
// decoded once and answered by one frame; beyond the per-connection limit the answer is REFUSED.
func VerifH_C13_TCPStream() {
	verifrt.Unwind(120)
	verifrt.SchedBound(1)
	verifrt.CtxNoExpiry = true
	up := &vKeyedUpstream{}
	r := vRouter([]*rule{{upstream: &upstreamWrapper{tag: "up", u: up}}}, false)
	s := &tcpServer{r: r, maxConcurrent: int32(1 + verifrt.Choose("limit", 2)), idleTimeout: 1}
	c := newVTCPConn()
	k := 2
	if verifrt.Thorough() {
		k = 3
	}
	var stream []byte
	ids := []uint16{}
	for i := 0; i < k; i++ {
		id := verifrt.U16("id")
		ids = append(ids, id)
		stream = append(stream, vFrame(vQueryMsg(id, byte('a'+i), false, 0))...)
	}
	vDistinct(ids)
	done := make(chan struct{})
	go func() { s.handleConn(c); close(done) }()
	// arbitrary segmentation: up to 3 cuts anywhere (also inside a length prefix)
	cut1 := verifrt.IntRange("cut1", 0, len(stream))
	cut2 := len(stream)
	if verifrt.Thorough() {
		cut2 = verifrt.IntRange("cut2", 0, len(stream))
	}
	verifrt.Assume(cut1 <= cut2)
	c1, c2 := verifrt.Concrete(cut1), verifrt.Concrete(cut2)
	for _, seg := range [][]byte{stream[:c1], stream[c1:c2], stream[c2:]} {
		if len(seg) > 0 {
			c.inbox <- seg
		}
	}
	verifrt.Quiesce()
	c.Close() // client goes away after having read everything
	<-done
	verifrt.Reach("served")
	bodies := vCheckFrames(c.writes)
	verifrt.Assert(len(bodies) == k, "every query is answered exactly once (none dropped, none duplicated)")
	seen := make([]int, k)
	for _, b := range bodies {
		i := vWhichQuery(b, ids)
		seen[i]++
		if b[3]&0xF != 5 {
			vCheckResponse(b, ids[i], byte('a'+i), true)
		}
	}
	for i := 0; i < k; i++ {
		verifrt.Assert(seen[i] == 1, "each query answered exactly once")
	}
	verifrt.Assert(up.calls <= k, "no query forwarded twice")
}

// VerifH_C13_GnetStream: gnet listener reassembly as a transition system over arbitrary chunking.
func VerifH_C13_GnetStream() {
	verifrt.Unwind(120)
	verifrt.SchedBound(1)
	verifrt.CtxNoExpiry = true
	up := &vKeyedUpstream{}
	r := vRouter([]*rule{{upstream: &upstreamWrapper{tag: "up", u: up}}}, false)
	e := &gnetServer{r: r, maxConcurrent: int32(1 + verifrt.Choose("limit", 2)), idleTimeout: 1}
	c := &vGnetConn{}
	_, act := e.OnOpen(c)
	verifrt.Assert(act == 0, "connection admitted")
	k := 3 // three frames: with limit 1 the segment still holds a frame AFTER a refused one
	var stream []byte
	ids := []uint16{}
	for i := 0; i < k; i++ {
		id := verifrt.U16("id")
		ids = append(ids, id)
		stream = append(stream, vFrame(vQueryMsg(id, byte('a'+i), false, 0))...)
	}
	vDistinct(ids)
	cut1 := verifrt.IntRange("cut1", 0, len(stream))
	cut2 := len(stream)
	if verifrt.Thorough() {
		cut2 = verifrt.IntRange("cut2", 0, len(stream))
	}
	verifrt.Assume(cut1 <= cut2)
	c1, c2 := verifrt.Concrete(cut1), verifrt.Concrete(cut2)
	for _, seg := range [][]byte{stream[:c1], stream[c1:c2], stream[c2:]} {
		if len(seg) == 0 {
			continue
		}
		c.buf = append(c.buf, seg...)
		a := e.OnTraffic(c)
		verifrt.Assert(a == 0, "well-formed traffic never closes the connection")
	}
	verifrt.Quiesce()
	verifrt.Reach("served")
	verifrt.Assert(len(c.buf) == 0, "all complete frames consumed")
	bodies := vCheckFrames(c.writes)
	verifrt.Assert(len(bodies) == k, "every query is answered exactly once")
	seen := make([]int, k)
	for _, b := range bodies {
		i := vWhichQuery(b, ids)
		seen[i]++
		if b[3]&0xF != 5 {
			vCheckResponse(b, ids[i], byte('a'+i), true)
		}
	}
	for i := 0; i < k; i++ {
		verifrt.Assert(seen[i] == 1, "each query answered exactly once")
	}
}

// VerifH_C01_GnetLyingLength: a frame whose declared length lies (0..20) with arbitrary bytes never panics
// the reassembly; an undecodable frame closes the connection and nothing is written.
func VerifH_C01_GnetLyingLength() {
	verifrt.Unwind(60)
	r := vRouter(nil, false)
	e := &gnetServer{r: r, maxConcurrent: 4, idleTimeout: 1}
	c := &vGnetConn{}
	e.OnOpen(c)
	data := verifrt.Bytes("data", 6)
	if len(data) >= 2 {
		// keep the declared length small so that the body decoder sees at most a few octets
		verifrt.Assume(data[0] == 0 && data[1] <= 20)
	}
	cut := verifrt.Concrete(verifrt.IntRange("cut", 0, 6))
	verifrt.Assume(cut <= len(data))
	closed := false
	for _, seg := range [][]byte{data[:cut], data[cut:]} {
		if len(seg) == 0 || closed {
			continue
		}
		c.buf = append(c.buf, seg...)
		if e.OnTraffic(c) != 0 {
			closed = true
		}
	}
	verifrt.Reach("fed")
	verifrt.Assert(len(c.writes) == 0, "nothing is written for bytes that contain no decodable query")
}

// vGatedUpstream keeps a query in flight until the harness opens the gate.
type vGatedUpstream struct {
	vKeyedUpstream
	gate chan struct{}
}

func (u *vGatedUpstream) ExchangeContext(ctx context.Context, q []byte) (*dnsmsg.Msg, error) {
	<-u.gate
	return u.vKeyedUpstream.ExchangeContext(ctx, q)
}

// VerifH_C13_TCPIdleTimeoutMidFrame: the read deadline strikes while a frame is only partly received (after any
// number of its octets, also inside the length prefix) and while an earlier query is still being handled; the
// rest of the frame arrives afterwards. Whatever the listener does with the connection then, it never
// re-synchronises inside a frame: the second frame's BODY is itself a complete length-prefixed query, which was
// never sent as a frame and must never be answered. The first query is answered at most once.
func VerifH_C13_TCPIdleTimeoutMidFrame() {
	verifrt.Unwind(160)
	verifrt.SchedBound(1)
	verifrt.CtxNoExpiry = true
	up := &vGatedUpstream{gate: make(chan struct{})}
	r := vRouter([]*rule{{upstream: &upstreamWrapper{tag: "up", u: up}}}, false)
	s := &tcpServer{r: r, maxConcurrent: int32(1 + verifrt.Choose("limit", 2)), idleTimeout: 1}
	c := newVTCPConn()
	id1 := verifrt.U16("id1")
	frame1 := vFrame(vQueryMsg(id1, 'a', false, 0))
	frame2 := vFrame(vFrame(vQueryMsg(0xBEEF, 's', false, 0))) // a frame whose body looks like a frame
	done := make(chan struct{})
	go func() { s.handleConn(c); close(done) }()
	cut := verifrt.Concrete(verifrt.IntRange("cut", 0, len(frame2)))
	c.inbox <- append(append([]byte(nil), frame1...), frame2[:cut]...)
	verifrt.Quiesce() // query 1 is in flight (its upstream is gated), the read loop waits for the rest of frame 2
	select {
	case c.timeout <- struct{}{}: // the idle deadline strikes now
	default:
	}
	verifrt.Quiesce()
	if cut < len(frame2) {
		c.inbox <- frame2[cut:]
	}
	verifrt.Quiesce()
	close(up.gate)
	verifrt.Quiesce()
	c.Close()
	<-done
	verifrt.Reach("ended")
	n1 := 0
	for _, w := range c.writes {
		verifrt.Assert(len(w) >= 2+12 && int(w[0])<<8|int(w[1]) == len(w)-2, "every write is one well-formed frame")
		b := w[2:]
		id := uint16(b[0])<<8 | uint16(b[1])
		verifrt.Assert(id != 0xBEEF || id1 == 0xBEEF, "octets that were never sent as a frame are never answered (no re-synchronisation inside a frame)")
		if len(b) > 13 {
			verifrt.Assert(b[13] != 's', "octets that were never sent as a frame are never answered (no re-synchronisation inside a frame)")
		}
		if id == id1 {
			n1++
		}
	}
	verifrt.Assert(n1 <= 1, "the first query is answered at most once")
}

// VerifH_C13_GnetFreshConnection: every connection starts with clean reassembly state, whatever earlier connections
// did: connection A sends any strict prefix of a frame and goes away (OnClose); connection B is opened afterwards and
// sends one complete query – it is decoded and answered, and nothing A left behind is released twice.
func VerifH_C13_GnetFreshConnection() {
	verifrt.Unwind(160)
	verifrt.SchedBound(0)
	verifrt.CtxNoExpiry = true
	up := &vKeyedUpstream{}
	r := vRouter([]*rule{{upstream: &upstreamWrapper{tag: "up", u: up}}}, false)
	e := &gnetServer{r: r, maxConcurrent: 4, idleTimeout: 1}
	frameA := vFrame(vQueryMsg(0x1111, 'a', false, 0))
	a := &vGnetConn{}
	e.OnOpen(a)
	cut := verifrt.Concrete(verifrt.IntRange("cut", 0, len(frameA)-1))
	if cut > 0 {
		a.buf = append(a.buf, frameA[:cut]...)
		verifrt.Assert(e.OnTraffic(a) == 0, "a partial frame keeps the connection open")
	}
	e.OnClose(a, nil)
	b := &vGnetConn{}
	_, act := e.OnOpen(b)
	verifrt.Assert(act == 0, "connection B admitted")
	b.buf = append(b.buf, vFrame(vQueryMsg(0x2222, 'b', false, 0))...)
	verifrt.Assert(e.OnTraffic(b) == 0, "one complete valid frame does not close the connection")
	verifrt.Quiesce()
	verifrt.Reach("served")
	bodies := vCheckFrames(b.writes)
	verifrt.Assert(len(bodies) == 1 && len(a.writes) == 0, "B's query is answered exactly once, on B")
	vCheckResponse(bodies[0], 0x2222, 'b', true)
	e.OnClose(b, nil)
}

// VerifH_C01_GnetConnectionsAreIndependent: "input that cannot be decoded is rejected … and later valid queries are still
// answered": what one connection leaves behind (a frame cut short by a disconnect, a lying length prefix) must not
// wedge the NEXT connection of the listener (scenario of C13_GnetFreshConnection, registered under the malformed-input
// property as well).
func VerifH_C01_GnetConnectionsAreIndependent() { VerifH_C13_GnetFreshConnection() }

// VerifH_C13_FramePrefixNeverWraps: "each response is emitted as one contiguous frame whose 2-byte prefix equals its body
// length" — also for responses at and beyond what two octets can express: the stream packing helper for messages of
// 65533..65538, ~70 KiB and ~130 KiB (scenario of C09_StreamFraming, registered under the framing property as well).
func VerifH_C13_FramePrefixNeverWraps() { VerifH_C09_StreamFraming() }
