package router

import (
	"github.com/IrineSistiana/mosproxy/internal/pool"
	"time"
	"net/netip"
	"context"

	"github.com/IrineSistiana/mosproxy/internal/dnsmsg"
	"github.com/IrineSistiana/mosproxy/internal/verifrt"
)

// VerifH_C12_UpstreamQueryOPT: every upstream query carries exactly one OPT {root, 41, class 1200, ttl 0};
// it contains an ECS option only when ECS is on and the client address is known, and then exactly the
// /24 or /56 prefix, scope 0, no host bits.
func VerifH_C12_UpstreamQueryOPT() {
	verifrt.Unwind(60)
	vRich = true
	r := vRouter(nil, false)
	r.opt.ecsEnabled = verifrt.Bool("ecs")
	q := dnsmsg.NewQuestion()
	q.Name = vName("q.name", vShapes[verifrt.Choose("q.shape", 3)])
	q.Type = dnsmsg.Type(verifrt.U16("q.type"))
	q.Class = dnsmsg.Class(verifrt.U16("q.class"))
	ap := vAddrPort("client")
	addr := ap.Addr()
	b, err := r.packReq(q, addr)
	verifrt.Assert(err == nil, "request packs")
	name, typ, class, rd, qd, an, ns, ar, off, ok := refDecodeQuery(b)
	verifrt.Assert(ok && qd == 1 && an == 0 && ns == 0 && ar == 1 && rd, "one question, RD, exactly one additional")
	verifrt.Assert(verifrt.EqBytes(name, q.Name) && typ == uint16(q.Type) && class == uint16(q.Class), "question unchanged")
	verifrt.Reach("packed")
	// OPT: root name, type 41, class 1200, ttl 0
	verifrt.Assert(off+11 <= len(b), "OPT present")
	verifrt.Assert(b[off] == 0 && b[off+1] == 0 && b[off+2] == 41, "OPT owner is root, type 41")
	verifrt.Assert(int(b[off+3])<<8|int(b[off+4]) == 1200, "OPT advertises the proxy's UDP size 1200")
	verifrt.Assert(b[off+5] == 0 && b[off+6] == 0 && b[off+7] == 0 && b[off+8] == 0, "OPT ttl (ext-rcode, version, DO) zero")
	rdlen := int(b[off+9])<<8 | int(b[off+10])
	rd0 := off + 11
	verifrt.Assert(rd0+rdlen == len(b), "nothing after the OPT")
	u := addr.Unmap()
	switch {
	case !r.opt.ecsEnabled || !addr.IsValid():
		verifrt.Reach("no-ecs")
		verifrt.Assert(rdlen == 0, "no options without ECS / without a known client")
	case u.Is4():
		verifrt.Reach("ecs4")
		a := u.As4()
		verifrt.Assert(rdlen == 11, "ECS v4 option size")
		verifrt.Assert(b[rd0] == 0 && b[rd0+1] == 8 && b[rd0+2] == 0 && b[rd0+3] == 7, "option code 8, length 7")
		verifrt.Assert(b[rd0+4] == 0 && b[rd0+5] == 1 && b[rd0+6] == 24 && b[rd0+7] == 0, "family 1, source /24, scope 0")
		verifrt.Assert(b[rd0+8] == a[0] && b[rd0+9] == a[1] && b[rd0+10] == a[2], "exactly the three prefix octets")
	default:
		verifrt.Reach("ecs6")
		a := u.As16()
		verifrt.Assert(rdlen == 15, "ECS v6 option size")
		verifrt.Assert(b[rd0] == 0 && b[rd0+1] == 8 && b[rd0+2] == 0 && b[rd0+3] == 11, "option code 8, length 11")
		verifrt.Assert(b[rd0+4] == 0 && b[rd0+5] == 2 && b[rd0+6] == 56 && b[rd0+7] == 0, "family 2, source /56, scope 0")
		ok := true
		for i := 0; i < 7; i++ {
			ok = verifrt.And(ok, b[rd0+8+i] == a[i])
		}
		verifrt.Assert(ok, "exactly the seven prefix octets")
	}
}

// VerifH_C12_ResponseOPT: the answer to a supported query has exactly one OPT {root,41,1200,0,no options}
// iff the query had one, whatever OPT/options the upstream (or the cache) supplied.
func VerifH_C12_ResponseOPT_S8() {
	verifrt.Unwind(60)
	vRich = verifrt.Thorough()
	vFamForce = verifrt.Shard() / 2 // 0 v4, 1 v6, 2 v4-mapped, 3 unknown
	up := &vUpstream{tag: "up", maxRecs: 1}
	uw := &upstreamWrapper{tag: "up", u: up}
	r := vRouter([]*rule{{upstream: uw}}, verifrt.Shard()%2 == 1)
	m := vQuery("m")
	verifrt.Assume(!m.Response && m.RecursionDesired && m.OpCode == 0 && len(m.Questions) == 1)
	rc := getRequestContext()
	rc.RemoteAddr = vAddrPort("client")
	hasOpt := vHasOpt(m)
	r.handleReqMsg(context.Background(), m, rc)
	resp := rc.Response.Msg
	verifrt.Assert(resp != nil, "response set")
	verifrt.Reach("responded")
	n := 0
	for _, rr := range resp.Additionals {
		if rr.Hdr().Type == dnsmsg.TypeOPT {
			n++
			raw, isRaw := rr.(*dnsmsg.RawResource)
			verifrt.Assert(isRaw && len(raw.Name) == 0 && raw.Class == 1200 && raw.TTL == 0 && len(raw.Data) == 0,
				"the response OPT is the proxy's own: root, class 1200, ttl 0, no options")
		}
	}
	if hasOpt {
		verifrt.Assert(n == 1, "query with OPT: exactly one OPT in the response")
	} else {
		verifrt.Assert(n == 0, "query without OPT: no OPT in the response")
	}
}

// VerifH_C12_OPTSurvivesTruncation: "exactly one OPT iff the query contained one" also when the response has to be
// cut down to the client's advertised size: the UDP listener end to end with ~780 octets of upstream answers and a
// client OPT advertising ANY 16-bit payload size (the scenario of C09_UDPClientSize, registered under the EDNS0
// property as well): the OPT is never what gets dropped, and a query without OPT never gets one.
func VerifH_C12_OPTSurvivesTruncation() { VerifH_C09_UDPClientSize() }

// vOptUpstream answers with an A record (TTL 60) for the question asked and an OPT of its own carrying options (a
// cookie, an ECS echo, padding — five opaque octets here).
type vOptUpstream struct{ calls int }

func (u *vOptUpstream) ExchangeContext(ctx context.Context, q []byte) (*dnsmsg.Msg, error) {
	u.calls++
	m := dnsmsg.NewMsg()
	if err := m.Unpack(q); err != nil {
		return nil, err
	}
	if rr := dnsmsg.PopEDNS0(m); rr != nil {
		dnsmsg.ReleaseResource(rr)
	}
	m.Response = true
	a := dnsmsg.NewA()
	a.Name = dnsmsg.Name(pool.CopyBuf(m.Questions[0].Name))
	a.Type, a.Class, a.TTL = dnsmsg.TypeA, 1, 60
	a.A = [4]byte{192, 0, 2, byte(u.calls)}
	m.Answers = append(m.Answers, a)
	opt := dnsmsg.NewRaw()
	opt.Type, opt.Class, opt.TTL = dnsmsg.TypeOPT, 4096, 0x8000
	d := pool.GetBuf(5)
	copy(d, []byte{0, 10, 0, 1, 0xAB})
	opt.Data = d
	m.Additionals = append(m.Additionals, opt)
	return m, nil
}
func (u *vOptUpstream) Close() error { return nil }

// VerifH_C12_EveryServingPathStripsOptions: "EDNS options supplied by the upstream … are never relayed", on every path
// an answer can take to a client — fresh from the upstream, from the cache, and from a cache entry that was rewritten
// by a BACKGROUND REFRESH. Under a harness clock: miss at t=0, hit at 50 s (inside the refresh window: a refresh runs
// and stores its result), hit at 51 s (served from the refreshed entry); the upstream always attaches an OPT with
// options. Every response to a client that sent an OPT carries exactly one OPT {root, 1200, ttl 0, no options}; a client
// without OPT gets none.
func VerifH_C12_EveryServingPathStripsOptions() {
	verifrt.Unwind(400)
	verifrt.SchedBound(1)
	verifrt.CtxNoExpiry = true
	verifrt.Expect("refreshed")
	base := time.Unix(1700000000, 0)
	offset := time.Duration(0)
	verifrt.Redirect("time.Now", func() time.Time { return base.Add(offset) })
	verifrt.Redirect("time.Until", func(t time.Time) time.Duration { return t.Sub(base.Add(offset)) })
	verifrt.Redirect("time.Since", func(t time.Time) time.Duration { return base.Add(offset).Sub(t) })
	up := &vOptUpstream{}
	r := vRouter([]*rule{{upstream: &upstreamWrapper{tag: "up", u: up}}}, true)
	ask := func(id uint16, withOpt bool) {
		m := dnsmsg.NewMsg()
		m.Header.ID, m.Header.RecursionDesired = id, true
		q := dnsmsg.NewQuestion()
		q.Name, q.Type, q.Class = dnsmsg.Name([]byte{1, 'q'}), 1, 1
		m.Questions = append(m.Questions, q)
		if withOpt {
			m.Additionals = append(m.Additionals, vRawFixed("client.optrr", dnsmsg.TypeOPT, 0, 0))
		}
		rc := getRequestContext()
		rc.RemoteAddr = netip.AddrPortFrom(netip.AddrFrom4([4]byte{198, 51, 100, 7}), 999)
		r.handleServerReq(m, rc)
		resp := rc.Response.Msg
		verifrt.Assert(resp != nil && resp.RCode == 0 && len(resp.Answers) == 1, "answered")
		n := 0
		for _, rr := range resp.Additionals {
			if rr.Hdr().Type == dnsmsg.TypeOPT {
				n++
				raw, isRaw := rr.(*dnsmsg.RawResource)
				verifrt.Assert(isRaw && len(raw.Name) == 0 && raw.Class == 1200 && raw.TTL == 0 && len(raw.Data) == 0,
					"the response OPT is the proxy's own: root, class 1200, ttl 0, no options")
			}
		}
		if withOpt {
			verifrt.Assert(n == 1, "query with OPT: exactly one OPT in the response")
		} else {
			verifrt.Assert(n == 0, "query without OPT: no OPT in the response")
		}
		verifrt.Quiesce()
	}
	ask(1, true)
	verifrt.Assert(up.calls == 1, "miss forwarded")
	offset = 50 * time.Second
	ask(2, verifrt.Bool("second.opt"))
	verifrt.Assert(up.calls == 2, "hit in the window: one background refresh")
	verifrt.Reach("refreshed")
	offset = 51 * time.Second
	ask(3, true)
	ask(4, false)
	verifrt.Assert(up.calls == 2, "served from the refreshed entry")
}
