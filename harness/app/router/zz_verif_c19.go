package router

import (
	"context"
	"hash/maphash"
	"net/netip"
	"time"

	"github.com/IrineSistiana/mosproxy/internal/dnsmsg"
	"github.com/IrineSistiana/mosproxy/internal/verifrt"
)

// VerifH_C19_Window: a hit triggers a refresh exactly in the last quarter of the entry's lifetime.
func VerifH_C19_Window() {
	stored := time.Now()
	life := time.Duration(verifrt.U32("life.s")) * time.Second
	verifrt.Assume(life >= 4*time.Second)
	expire := stored.Add(life)
	tA := time.Now()
	got := needPrefetch(stored, expire)
	tB := time.Now()
	verifrt.Reach("decided")
	quarter := life >> 2
	if got {
		verifrt.Assert(expire.Sub(tB) <= quarter || expire.Sub(tA) < quarter, "refresh only inside the last quarter of the lifetime")
		verifrt.Assert(expire.Sub(tA) < quarter+life, "sanity")
	} else {
		verifrt.Assert(expire.Sub(tA) >= quarter, "no refresh while more than a quarter of the lifetime remains")
	}
}

// VerifH_C19_ReserveDone: one step of the single-flight table from an arbitrary state.
func VerifH_C19_ReserveDone() {
	c := newPrefetchCtl()
	k1, k2 := verifrt.U64("k1"), verifrt.U64("k2")
	has1, has2 := verifrt.Bool("has1"), verifrt.Bool("has2")
	verifrt.Assume(k1 != k2)
	if has1 {
		c.queue[k1] = struct{}{}
	}
	if has2 {
		c.queue[k2] = struct{}{}
	}
	if verifrt.Bool("op.reserve") {
		ok := c.reserve(k1)
		verifrt.Reach("reserve")
		verifrt.Assert(ok == !has1, "reserve succeeds exactly when no refresh of that key is in flight")
		_, in := c.queue[k1]
		verifrt.Assert(in, "after reserve the key is marked in flight")
	} else {
		c.done(k1)
		verifrt.Reach("done")
		_, in := c.queue[k1]
		verifrt.Assert(!in, "done clears the key")
	}
	_, in2 := c.queue[k2]
	verifrt.Assert(in2 == has2, "other keys untouched")
}

// VerifH_C19_HitPath: a hit inside the refresh window is answered from the cache without waiting for any
// upstream exchange; concurrent hits start at most one refresh; success replaces the entry, failure keeps it.
func VerifH_C19_HitPath() {
	verifrt.Unwind(120)
	verifrt.SchedBound(1 + verifrt.Tier) // thorough: one more deviation from the default schedule
	verifrt.CtxNoExpiry = true
	up := &vUpstream{tag: "up", maxRecs: 1, fixedTTL: true}
	uw := &upstreamWrapper{tag: "up", u: up}
	r := vRouter([]*rule{{upstream: uw}}, true)
	// a positive entry that is already in its last quarter
	q := dnsmsg.NewQuestion()
	q.Name = vName("q", vShapes[1])
	q.Type, q.Class = 1, 1
	resp, _ := vTTLResp("seed", 1, false)
	verifrt.Assume(!resp.Truncated && resp.RCode == 0)
	resp.Answers[0].Hdr().TTL = 100 // the TTL value is irrelevant here; the window is reached by the symbolic clock
	resp.Questions[0].Name[1] = q.Name[1]
	r.cache.Store(q, netip.Addr{}, resp)
	// force "inside the window": any later instant satisfying needPrefetch
	rc1, rc2 := getRequestContext(), getRequestContext()
	r.handleReq(context.Background(), q, rc1)
	hit1 := rc1.Response.Cached
	callsAfterFirst := up.calls
	r.handleReq(context.Background(), q, rc2)
	verifrt.Reach("answered")
	if hit1 {
		verifrt.Assert(callsAfterFirst == 0, "a cache hit is answered without waiting for the upstream (refresh runs in the background)")
		verifrt.Assert(rc1.Response.Msg != nil && rc1.Response.Msg.RCode == 0, "answered from cache")
	}
	if hit1 && rc2.Response.Cached {
		verifrt.Assert(up.calls == 0, "no upstream exchange on the request path of hits")
	}
	verifrt.Quiesce()
	if hit1 && rc2.Response.Cached {
		verifrt.Reach("two-hits")
		verifrt.Assert(up.calls <= 1, "two hits in the window start at most one refresh")
	}
	verifrt.Assert(len(r.prefetch.queue) == 0, "the in-flight mark is cleared when the refresh ends (success or failure)")
	// the old entry is still usable unless it expired / was replaced by a good refresh
	_ = callsAfterFirst
}

// VerifH_C19_RefreshReplaces: what the background refresh does with its result: a successful (NOERROR) response –
// with answer records or record-less (NODATA) – stored over a live positive entry of either kind replaces it, so
// that later hits see the renewed data; an error response does not (C08).
func VerifH_C19_RefreshReplaces() {
	verifrt.Unwind(60)
	r := vRouter(nil, true)
	c := r.cache
	old, _ := vTTLResp("old", verifrt.Choose("old.records", 2), false)
	fresh, _ := vTTLResp("new", verifrt.Choose("new.records", 2), false)
	verifrt.Assume(!old.Header.Truncated && old.Header.RCode == 0 && !fresh.Header.Truncated)
	old.Header.AuthenticData, fresh.Header.AuthenticData = false, true // tells the two apart
	fresh.Questions[0].Name[1] = old.Questions[0].Name[1]
	q := old.Questions[0].Copy()
	c.Store(q, netip.Addr{}, old)
	c.Store(q, netip.Addr{}, fresh)
	rc := getRequestContext()
	m, _, _ := c.Get(context.Background(), q, rc)
	if m == nil {
		verifrt.Reach("expired") // the clock is arbitrary: the entry may have run out meanwhile
		return
	}
	verifrt.Reach("hit")
	if fresh.Header.RCode == 0 {
		verifrt.Reach("refreshed")
		verifrt.Assert(m.Header.AuthenticData && len(m.Answers) == len(fresh.Answers), "a successful refresh replaces the entry: later hits see the renewed response")
	} else {
		verifrt.Assert(!m.Header.AuthenticData && len(m.Answers) == len(old.Answers), "an error response leaves the positive entry in place")
	}
}

// VerifH_C19_ManyKeysNoDelay: N different cached questions are all hit inside their refresh window while the
// upstream is not answering at all, so N background refreshes pile up. No hit ever waits for anything a refresh holds:
// the harness serves the N hits on one goroutine, so a hit that blocked would leave it parked for ever (reported as a
// deadlock). The clock is fixed by the harness (stored at t0, hit at t0 + 90 % of a 100 s lifetime), so every hit is
// in the window by construction.
func VerifH_C19_ManyKeysNoDelay() {
	verifrt.Unwind(2000)
	verifrt.SchedBound(0)
	verifrt.CtxNoExpiry = true
	n := 40
	if verifrt.Thorough() {
		n = 200
	}
	base := time.Unix(1700000000, 0)
	offset := time.Duration(0)
	verifrt.Redirect("time.Now", func() time.Time { return base.Add(offset) })
	verifrt.Redirect("time.Until", func(t time.Time) time.Duration { return t.Sub(base.Add(offset)) })
	verifrt.Redirect("time.Since", func(t time.Time) time.Duration { return base.Add(offset).Sub(t) })
	// a concrete, collision-free stand-in for the (uninterpreted) hash of the single-flight key: the names differ in
	// their two content octets
	verifrt.Redirect("hash/maphash.Bytes", func(_ maphash.Seed, b []byte) uint64 { return uint64(b[1])<<8 | uint64(b[2]) })
	up := &vGatedUpstream{gate: make(chan struct{})}
	r := vRouter([]*rule{{upstream: &upstreamWrapper{tag: "up", u: up}}}, true)
	mkQ := func(i int) *dnsmsg.Question {
		q := dnsmsg.NewQuestion()
		q.Name = dnsmsg.Name([]byte{2, byte('a' + i%26), byte('a' + i/26)})
		q.Type, q.Class = 1, 1
		return q
	}
	for i := 0; i < n; i++ {
		q := mkQ(i)
		resp := dnsmsg.NewMsg()
		resp.Header.Response = true
		resp.Questions = append(resp.Questions, q.Copy())
		a := dnsmsg.NewA()
		a.Name, a.Type, a.Class, a.TTL = dnsmsg.Name([]byte{2, q.Name[1], q.Name[2]}), dnsmsg.TypeA, 1, 100
		resp.Answers = append(resp.Answers, a)
		r.cache.Store(q, netip.Addr{}, resp)
	}
	offset = 90 * time.Second
	for i := 0; i < n; i++ {
		rc := getRequestContext()
		r.handleReq(context.Background(), mkQ(i), rc)
		verifrt.Assert(rc.Response.Cached && rc.Response.Msg != nil, "answered from the cache at once")
	}
	verifrt.Reach("all-hits-served")
	verifrt.Assert(up.calls == 0, "no hit waited for the upstream")
	verifrt.Quiesce()
	verifrt.Assert(len(r.prefetch.queue) == n, "one refresh per question is in flight")
	close(up.gate)
	verifrt.Quiesce()
	verifrt.Assert(len(r.prefetch.queue) == 0 && up.calls == n, "every refresh ran once and cleared its mark")
}

// VerifH_C19_ConcurrentHits: "at most one background refresh per (question, client group) is in flight at any time,
// no matter how many concurrent hits arrive". Two (thorough: three) hits for the same key race through the
// single-flight gate with a pre-emption possible before every lock operation (≤ 2 deviations from round-robin), the
// upstream gated shut so that a started refresh stays in flight: exactly one refresh reaches the upstream.
// Then the refresh ends, the mark is cleared, and a later hit may start the next one — again exactly one.
type vStartGate struct {
	vGatedUpstream
	started int
}

func (u *vStartGate) ExchangeContext(ctx context.Context, q []byte) (*dnsmsg.Msg, error) {
	u.started++
	return u.vGatedUpstream.ExchangeContext(ctx, q)
}

func VerifH_C19_ConcurrentHits() {
	verifrt.Unwind(200)
	verifrt.SchedBound(2 + verifrt.Tier) // thorough: one more deviation from the default schedule
	verifrt.PreemptSync()
	verifrt.CtxNoExpiry = true
	up := &vStartGate{vGatedUpstream: vGatedUpstream{gate: make(chan struct{})}}
	uw := &upstreamWrapper{tag: "up", u: up}
	r := vRouter([]*rule{{upstream: uw}}, true)
	n := 2
	if verifrt.Thorough() {
		n = 3
	}
	done := make(chan struct{}, n)
	for i := 0; i < n; i++ {
		go func() {
			q := dnsmsg.NewQuestion()
			q.Name = dnsmsg.Name([]byte{1, 'q'})
			q.Type, q.Class = 1, 1
			r.asyncSingleFlightPrefetch(q, netip.Addr{}, uw)
			done <- struct{}{}
		}()
	}
	for i := 0; i < n; i++ {
		<-done
	}
	verifrt.Quiesce()
	verifrt.Reach("hits-served")
	verifrt.Assert(up.started == 1, "concurrent hits for one key start exactly one refresh")
	verifrt.Assert(len(r.prefetch.queue) == 1, "which is marked in flight")
	close(up.gate)
	verifrt.Quiesce()
	verifrt.Assert(len(r.prefetch.queue) == 0, "the mark is cleared when the refresh ends")
	q := dnsmsg.NewQuestion()
	q.Name = dnsmsg.Name([]byte{1, 'q'})
	q.Type, q.Class = 1, 1
	r.asyncSingleFlightPrefetch(q, netip.Addr{}, uw)
	verifrt.Quiesce()
	verifrt.Reach("next-refresh")
	verifrt.Assert(up.started == 2 && len(r.prefetch.queue) == 0, "a later hit starts the next refresh, once")
}

// vHoldFirst answers like vKeyedUpstream (TTL 60 s) but keeps chosen exchanges pending until the gate opens: the first one
// (a slow refresh) and, later, every one started after `holdFrom` (so that refreshes started late stay visible).
type vHoldFirst struct {
	vKeyedUpstream
	gate     chan struct{}
	started  int
	holdFrom int
	waiting  int
	maxWait  int
}

func (u *vHoldFirst) ExchangeContext(ctx context.Context, q []byte) (*dnsmsg.Msg, error) {
	u.started++
	if u.started == 1 || (u.holdFrom > 0 && u.started >= u.holdFrom) {
		u.waiting++
		if u.waiting > u.maxWait {
			u.maxWait = u.waiting
		}
		<-u.gate
		u.waiting--
	}
	return u.vKeyedUpstream.ExchangeContext(ctx, q)
}

// VerifH_C19_SingleFlightAcrossExpiry: "at most one background refresh per (question, client group) is in flight at any
// time" over a longer history, under a harness-controlled clock: a cached answer (60 s) is hit at 50 s — refresh R1
// starts and its upstream exchange stays pending; the entry expires; at 61 s the same question is an ordinary miss,
// answered by a prompt upstream exchange and stored again; at 61 s + 50 s the new entry is hit inside its refresh
// window while R1 is STILL pending. That hit is answered from the cache at once and must not start a second refresh:
// never more than one exchange for this question is pending in the background.
func VerifH_C19_SingleFlightAcrossExpiry() {
	verifrt.Unwind(400)
	verifrt.SchedBound(1 + verifrt.Tier) // thorough: one more deviation from the default schedule
	verifrt.NoTimers()
	verifrt.CtxNoExpiry = true
	base := time.Unix(1700000000, 0)
	offset := time.Duration(0)
	verifrt.Redirect("time.Now", func() time.Time { return base.Add(offset) })
	verifrt.Redirect("time.Until", func(t time.Time) time.Duration { return t.Sub(base.Add(offset)) })
	verifrt.Redirect("time.Since", func(t time.Time) time.Duration { return base.Add(offset).Sub(t) })
	up := &vHoldFirst{gate: make(chan struct{})}
	uw := &upstreamWrapper{tag: "up", u: up}
	r := vRouter([]*rule{{upstream: uw}}, true)
	ask := func() *RequestContext {
		q := dnsmsg.NewQuestion()
		q.Name, q.Type, q.Class = dnsmsg.Name([]byte{1, 'q'}), 1, 1
		rc := getRequestContext()
		r.handleReq(context.Background(), q, rc)
		verifrt.Quiesce()
		return rc
	}
	// seed the cache directly (the first real upstream exchange is to be the refresh R1)
	q0 := dnsmsg.NewQuestion()
	q0.Name, q0.Type, q0.Class = dnsmsg.Name([]byte{1, 'q'}), 1, 1
	seed := dnsmsg.NewMsg()
	seed.Header.Response = true
	seed.Questions = append(seed.Questions, q0.Copy())
	a := dnsmsg.NewA()
	a.Name, a.Type, a.Class, a.TTL = dnsmsg.Name([]byte{1, 'q'}), dnsmsg.TypeA, 1, 60
	seed.Answers = append(seed.Answers, a)
	r.cache.Store(q0, netip.Addr{}, seed)
	offset = 50 * time.Second
	rc1 := ask()
	verifrt.Assert(rc1.Response.Cached && up.started == 1 && up.waiting == 1, "hit in the refresh window: answered from cache, refresh R1 started and pending")
	offset = 61 * time.Second
	verifrt.OtterEvictAll() // the 60 s entry's time-to-live is over: the cache library has dropped it
	rc2 := ask()
	verifrt.Assert(!rc2.Response.Cached && rc2.Response.Msg != nil && rc2.Response.Msg.RCode == 0 && up.started == 2, "after expiry: an ordinary miss, answered by its own prompt exchange")
	up.holdFrom = 3
	offset = 61*time.Second + 50*time.Second
	rc3 := ask()
	verifrt.Reach("second-window")
	verifrt.Assert(rc3.Response.Cached, "the re-stored entry is hit inside its refresh window")
	verifrt.Assert(up.maxWait <= 1 && up.started == 2, "while refresh R1 is still pending no second refresh for the same question is started")
	close(up.gate)
	verifrt.Quiesce()
	verifrt.Assert(len(r.prefetch.queue) == 0, "when R1 ends its mark is cleared")
}
