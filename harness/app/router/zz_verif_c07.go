package router

import (
	"context"
	"net/netip"
	"strings"
	"time"

	"github.com/IrineSistiana/mosproxy/internal/dnsmsg"
	"github.com/IrineSistiana/mosproxy/internal/pool"
	"github.com/IrineSistiana/mosproxy/internal/verifrt"
)

var vShapes = [][]int{{}, {1}, {2}, {1, 1}, {3}, {2, 1}}

func vName(tag string, shape []int) dnsmsg.Name {
	n := 0
	for _, l := range shape {
		n += 1 + l
	}
	b := pool.GetBuf(n)
	off := 0
	for _, l := range shape {
		b[off] = byte(l)
		off++
		for i := 0; i < l; i++ {
			b[off] = verifrt.Byte(tag)
			off++
		}
	}
	return dnsmsg.Name(b)
}

func vQuestion(tag string, nshapes int) *dnsmsg.Question {
	q := dnsmsg.NewQuestion()
	q.Name = vName(tag+".name", vShapes[verifrt.Choose(tag+".shape", nshapes)])
	q.Type = dnsmsg.Type(verifrt.U16(tag + ".type"))
	q.Class = dnsmsg.Class(verifrt.U16(tag + ".class"))
	return q
}

// vDirty leaves arbitrary garbage in the pool buffer that the next GetBuf(n) will hand out.
func vDirty(tag string, n int) {
	if n <= 0 {
		return
	}
	b := pool.GetBuf(n)
	g := verifrt.BytesN(tag, cap(b))
	copy(b[:cap(b)], g)
	pool.ReleaseBuf(b)
}

// VerifH_C07_cacheKeyDeterministic: the key is a function of (name, class, type, mark) only: two
// builds over differently dirtied recycled buffers give the same bytes.
func VerifH_C07_cacheKeyDeterministic() {
	verifrt.Unwind(40)
	q := vQuestion("q", 4)
	mark := string(verifrt.Bytes("mark", 2))
	for _, n := range []int{8, 16} {
		vDirty("garbage1", n)
	}
	k1 := cacheKey(q, mark)
	k1c := append([]byte(nil), k1...)
	pool.ReleaseBuf(k1)
	for _, n := range []int{8, 16} {
		vDirty("garbage2", n)
	}
	k2 := cacheKey(q, mark)
	verifrt.Reach("built")
	verifrt.Assert(verifrt.EqBytes(k1c, k2), "the key does not depend on what the recycled buffer held before")
}

// VerifH_C07_cacheKeyInjective: different (name, class, type, mark) never share a key.
func VerifH_C07_cacheKeyInjective() {
	verifrt.Unwind(40)
	q1 := vQuestion("q1", 4)
	q2 := vQuestion("q2", 4)
	m1 := string(verifrt.Bytes("mark1", 2))
	m2 := string(verifrt.Bytes("mark2", 2))
	k1 := cacheKey(q1, m1)
	k2 := cacheKey(q2, m2)
	verifrt.Reach("built")
	same := verifrt.And(verifrt.And(verifrt.EqBytes(q1.Name, q2.Name), verifrt.EqBytes([]byte(m1), []byte(m2))),
		verifrt.And(q1.Class == q2.Class, q1.Type == q2.Type))
	verifrt.Assert(verifrt.Implies(verifrt.EqBytes(k1, k2), same), "equal keys imply equal (name, class, type, group)")
}

// VerifH_C07_FoldingOnlyLetters: the request path folds the question name before it builds the cache key. Two
// questions whose names differ in one octet share a key exactly when those octets are the same ASCII letter in
// different case — no other pair of octets (e.g. '[' and '{', '@' and '`') is ever folded together.
func VerifH_C07_FoldingOnlyLetters() {
	verifrt.Unwind(40)
	c1, c2 := verifrt.Byte("c1"), verifrt.Byte("c2")
	mk := func(c byte) *dnsmsg.Question {
		q := dnsmsg.NewQuestion()
		n := pool.GetBuf(4)
		n[0], n[1], n[2], n[3] = 3, 'x', c, 'y'
		q.Name, q.Type, q.Class = dnsmsg.Name(n), 1, 1
		return q
	}
	q1, q2 := mk(c1), mk(c2)
	verifrt.Assert(dnsmsg.ToLowerName(q1.Name) == nil && dnsmsg.ToLowerName(q2.Name) == nil, "valid names fold")
	k1, k2 := cacheKey(q1, ""), cacheKey(q2, "")
	verifrt.Reach("keys")
	lower := func(c byte) byte { return byte(verifrt.Ite('A' <= c && c <= 'Z', int(c)+32, int(c))) }
	verifrt.Assert(verifrt.EqBytes(k1, k2) == (lower(c1) == lower(c2)), "same cache entry iff the names are equal ASCII-case-insensitively")
	verifrt.Assert(q1.Name[2] == lower(c1), "folding changes upper-case ASCII letters only")
}

// VerifH_C07_CaseVariantsShareEntry: "same name (ASCII-case-insensitive)" end to end through the request handler under
// a harness-controlled clock: a query for a one-label name c1, then — one second later — one for c2. The second is
// answered from the cache (no second upstream exchange) exactly when the two octets are the same letter up to case or
// the same octet; otherwise it is forwarded. Either way each response carries the answer for its own (folded) name.
func VerifH_C07_CaseVariantsShareEntry() {
	verifrt.Unwind(200)
	verifrt.CtxNoExpiry = true
	base := time.Unix(1700000000, 0)
	offset := time.Duration(0)
	verifrt.Redirect("time.Now", func() time.Time { return base.Add(offset) })
	verifrt.Redirect("time.Until", func(t time.Time) time.Duration { return t.Sub(base.Add(offset)) })
	verifrt.Redirect("time.Since", func(t time.Time) time.Duration { return base.Add(offset).Sub(t) })
	up := &vKeyedUpstream{}
	r := vRouter([]*rule{{upstream: &upstreamWrapper{tag: "up", u: up}}}, true)
	c1, c2 := verifrt.Byte("c1"), verifrt.Byte("c2")
	ask := func(id uint16, c byte) *dnsmsg.Msg {
		m := dnsmsg.NewMsg()
		m.Header.ID, m.Header.RecursionDesired = id, true
		q := dnsmsg.NewQuestion()
		q.Name, q.Type, q.Class = dnsmsg.Name([]byte{1, c}), 1, 1
		m.Questions = append(m.Questions, q)
		rc := getRequestContext()
		r.handleServerReq(m, rc)
		return rc.Response.Msg
	}
	lower := func(c byte) byte { return byte(verifrt.Ite('A' <= c && c <= 'Z', int(c)+32, int(c))) }
	r1 := ask(1, c1)
	verifrt.Assert(up.calls == 1 && r1 != nil && len(r1.Answers) == 1, "first query forwarded and answered")
	offset = time.Second
	r2 := ask(2, c2)
	verifrt.Reach("asked-twice")
	verifrt.Assert(r2 != nil && r2.RCode == 0 && len(r2.Answers) == 1, "second query answered")
	a2, ok := r2.Answers[0].(*dnsmsg.A)
	verifrt.Assert(ok && a2.A == vAnswerFor(lower(c2)), "with the answer produced for its own name")
	if lower(c1) == lower(c2) {
		verifrt.Reach("same-name")
		verifrt.Assert(up.calls == 1, "a repeat of the name in any letter case is answered from the cache")
	} else {
		verifrt.Assert(up.calls == 2, "a different name is never answered from another name's entry")
	}
}

// VerifH_C07_ClientGroups: "the same client group (the label of the configured address range containing the client, or
// none)". The range file is loaded through the real loader (three ranges, two of them carrying the same label, comment
// and blank lines); a response is stored for client A and looked up for client B (arbitrary IPv4 addresses, plain or
// IPv4-mapped), same question, one second later on the harness clock: B is served A's entry exactly when both fall into
// ranges with the same label or both into none.
func VerifH_C07_ClientGroups() {
	verifrt.Unwind(400)
	verifrt.CtxNoExpiry = true
	base := time.Unix(1700000000, 0)
	offset := time.Duration(0)
	verifrt.Redirect("time.Now", func() time.Time { return base.Add(offset) })
	verifrt.Redirect("time.Until", func(t time.Time) time.Duration { return t.Sub(base.Add(offset)) })
	verifrt.Redirect("time.Since", func(t time.Time) time.Duration { return base.Add(offset).Sub(t) })
	file := "# client groups\n10.0.0.0,10.0.0.255,lan\n\n 192.0.2.16,192.0.2.31,guest # trailing comment\n10.0.2.0,10.0.2.255,lan\n"
	mk, err := loadIpMarkerFromReader(strings.NewReader(file))
	verifrt.Assert(err == nil && mk != nil, "the range file loads")
	r := vRouter(nil, true)
	r.cache.ipMarker = mk
	group := func(b []byte) int {
		v := uint32(b[0])<<24 | uint32(b[1])<<16 | uint32(b[2])<<8 | uint32(b[3])
		switch {
		case v >= 0x0a000000 && v <= 0x0a0000ff, v >= 0x0a000200 && v <= 0x0a0002ff:
			return 1
		case v >= 0xc0000210 && v <= 0xc000021f:
			return 2
		}
		return 0
	}
	addr := func(tag string) (netip.Addr, int) {
		b := verifrt.BytesN(tag, 4)
		a := netip.AddrFrom4([4]byte{b[0], b[1], b[2], b[3]})
		if verifrt.Bool(tag + ".mapped") {
			a = netip.AddrFrom16(a.As16())
		}
		return a, group(b)
	}
	a, ga := addr("a")
	b, gb := addr("b")
	q := dnsmsg.NewQuestion()
	q.Name, q.Type, q.Class = dnsmsg.Name([]byte{1, 'q'}), 1, 1
	resp := dnsmsg.NewMsg()
	resp.Header.Response = true
	resp.Questions = append(resp.Questions, q.Copy())
	rr := dnsmsg.NewA()
	rr.Name, rr.Type, rr.Class, rr.TTL = dnsmsg.Name([]byte{1, 'q'}), dnsmsg.TypeA, 1, 60
	resp.Answers = append(resp.Answers, rr)
	r.cache.Store(q, a, resp)
	offset = time.Second
	rc := getRequestContext()
	rc.RemoteAddr = netip.AddrPortFrom(b, 5353)
	m, _, _ := r.cache.Get(context.Background(), q, rc)
	verifrt.Reach("looked-up")
	verifrt.Assert((m != nil) == (ga == gb), "a cached answer goes to a client of the same group only (same label, or both outside every range)")
	if ga == gb && ga != 0 {
		verifrt.Reach("same-label")
	}
}

// VerifH_C07_StoreKeyedByAskedQuestion: a cached answer belongs to the question the CLIENT asked — whatever question
// the upstream's reply carries (nothing validates the echo: another name, the same name in another letter case,
// another type or class, no question at all). Store(asked, client, reply) followed one second later (harness clock) by
// lookups: the asked question is a hit, and the reply's own question — when it differs from the asked one — is not.
func VerifH_C07_StoreKeyedByAskedQuestion() {
	verifrt.Unwind(200)
	verifrt.CtxNoExpiry = true
	base := time.Unix(1700000000, 0)
	offset := time.Duration(0)
	verifrt.Redirect("time.Now", func() time.Time { return base.Add(offset) })
	verifrt.Redirect("time.Until", func(t time.Time) time.Duration { return t.Sub(base.Add(offset)) })
	verifrt.Redirect("time.Since", func(t time.Time) time.Duration { return base.Add(offset).Sub(t) })
	r := vRouter(nil, true)
	asked := dnsmsg.NewQuestion()
	asked.Name, asked.Type, asked.Class = dnsmsg.Name([]byte{1, 'q'}), 1, 1
	reply := dnsmsg.NewMsg()
	reply.Header.Response = true
	var echoed *dnsmsg.Question
	if verifrt.Bool("reply.has-question") {
		echoed = dnsmsg.NewQuestion()
		echoed.Name = dnsmsg.Name([]byte{1, verifrt.Byte("echo.label")})
		echoed.Type, echoed.Class = dnsmsg.Type(verifrt.U16("echo.type")), dnsmsg.Class(verifrt.U16("echo.class"))
		reply.Questions = append(reply.Questions, echoed.Copy())
	}
	a := dnsmsg.NewA()
	a.Name, a.Type, a.Class, a.TTL = dnsmsg.Name([]byte{1, 'q'}), dnsmsg.TypeA, 1, 60
	reply.Answers = append(reply.Answers, a)
	client := netip.AddrFrom4([4]byte{198, 51, 100, 7})
	r.cache.Store(asked, client, reply)
	offset = time.Second
	rc := getRequestContext()
	rc.RemoteAddr = netip.AddrPortFrom(client, 999)
	hit, _, _ := r.cache.Get(context.Background(), asked, rc)
	verifrt.Reach("looked-up")
	verifrt.Assert(hit != nil && len(hit.Answers) == 1, "the answer is filed under the question that was asked: its repeat is a hit")
	if echoed != nil && !(echoed.Name[1] == 'q' && echoed.Type == 1 && echoed.Class == 1) {
		verifrt.Reach("foreign-echo")
		other, _, _ := r.cache.Get(context.Background(), echoed, rc)
		verifrt.Assert(other == nil, "and not under the question the upstream happened to echo")
	}
}
