package router

import (
	"github.com/IrineSistiana/mosproxy/internal/dnsmsg"
	"github.com/IrineSistiana/mosproxy/internal/pool"
	"github.com/IrineSistiana/mosproxy/internal/verifrt"
)

var vShapes = [][]int{{}, {1}, {2}, {1, 1}, {3}, {2, 1}}

func vName(tag string, shape []int) dnsmsg.Name {
	n := 0
	for _, l := range shape {
		n += 1 + l
	}
	b := pool.GetBuf(n)
	off := 0
	for _, l := range shape {
		b[off] = byte(l)
		off++
		for i := 0; i < l; i++ {
			b[off] = verifrt.Byte(tag)
			off++
		}
	}
	return dnsmsg.Name(b)
}

func vQuestion(tag string, nshapes int) *dnsmsg.Question {
	q := dnsmsg.NewQuestion()
	q.Name = vName(tag+".name", vShapes[verifrt.Choose(tag+".shape", nshapes)])
	q.Type = dnsmsg.Type(verifrt.U16(tag + ".type"))
	q.Class = dnsmsg.Class(verifrt.U16(tag + ".class"))
	return q
}

// vDirty leaves arbitrary garbage in the pool buffer that the next GetBuf(n) will hand out.
func vDirty(tag string, n int) {
	if n <= 0 {
		return
	}
	b := pool.GetBuf(n)
	g := verifrt.BytesN(tag, cap(b))
	copy(b[:cap(b)], g)
	pool.ReleaseBuf(b)
}

// VerifH_C07_cacheKeyDeterministic: the key is a function of (name, class, type, mark) only: two
// builds over differently dirtied recycled buffers give the same bytes.
func VerifH_C07_cacheKeyDeterministic() {
	verifrt.Unwind(40)
	q := vQuestion("q", 4)
	mark := string(verifrt.Bytes("mark", 2))
	for _, n := range []int{8, 16} {
		vDirty("garbage1", n)
	}
	k1 := cacheKey(q, mark)
	k1c := append([]byte(nil), k1...)
	pool.ReleaseBuf(k1)
	for _, n := range []int{8, 16} {
		vDirty("garbage2", n)
	}
	k2 := cacheKey(q, mark)
	verifrt.Reach("built")
	verifrt.Assert(verifrt.EqBytes(k1c, k2), "the key does not depend on what the recycled buffer held before")
}

// VerifH_C07_cacheKeyInjective: different (name, class, type, mark) never share a key.
func VerifH_C07_cacheKeyInjective() {
	verifrt.Unwind(40)
	q1 := vQuestion("q1", 4)
	q2 := vQuestion("q2", 4)
	m1 := string(verifrt.Bytes("mark1", 2))
	m2 := string(verifrt.Bytes("mark2", 2))
	k1 := cacheKey(q1, m1)
	k2 := cacheKey(q2, m2)
	verifrt.Reach("built")
	same := verifrt.And(verifrt.And(verifrt.EqBytes(q1.Name, q2.Name), verifrt.EqBytes([]byte(m1), []byte(m2))),
		verifrt.And(q1.Class == q2.Class, q1.Type == q2.Type))
	verifrt.Assert(verifrt.Implies(verifrt.EqBytes(k1, k2), same), "equal keys imply equal (name, class, type, group)")
}

// VerifH_C07_FoldingOnlyLetters: the request path folds the question name before it builds the cache key. Two
// questions whose names differ in one octet share a key exactly when those octets are the same ASCII letter in
// different case — no other pair of octets (e.g. '[' and '{', '@' and '`') is ever folded together.
func VerifH_C07_FoldingOnlyLetters() {
	verifrt.Unwind(40)
	c1, c2 := verifrt.Byte("c1"), verifrt.Byte("c2")
	mk := func(c byte) *dnsmsg.Question {
		q := dnsmsg.NewQuestion()
		n := pool.GetBuf(4)
		n[0], n[1], n[2], n[3] = 3, 'x', c, 'y'
		q.Name, q.Type, q.Class = dnsmsg.Name(n), 1, 1
		return q
	}
	q1, q2 := mk(c1), mk(c2)
	verifrt.Assert(dnsmsg.ToLowerName(q1.Name) == nil && dnsmsg.ToLowerName(q2.Name) == nil, "valid names fold")
	k1, k2 := cacheKey(q1, ""), cacheKey(q2, "")
	verifrt.Reach("keys")
	lower := func(c byte) byte { return byte(verifrt.Ite('A' <= c && c <= 'Z', int(c)+32, int(c))) }
	verifrt.Assert(verifrt.EqBytes(k1, k2) == (lower(c1) == lower(c2)), "same cache entry iff the names are equal ASCII-case-insensitively")
	verifrt.Assert(q1.Name[2] == lower(c1), "folding changes upper-case ASCII letters only")
}
