package netlist

import (
	"net/netip"

	"github.com/IrineSistiana/mosproxy/internal/verifrt"
)

func vAddr(tag string, v6 bool) (netip.Addr, uint64, uint64) {
	if v6 {
		b := verifrt.BytesN(tag, 16)
		var a [16]byte
		copy(a[:], b)
		var hi, lo uint64
		for i := 0; i < 8; i++ {
			hi = hi<<8 | uint64(b[i])
			lo = lo<<8 | uint64(b[8+i])
		}
		return netip.AddrFrom16(a), hi, lo
	}
	b := verifrt.BytesN(tag, 4)
	v := uint64(b[0])<<24 | uint64(b[1])<<16 | uint64(b[2])<<8 | uint64(b[3])
	a := netip.AddrFrom4([4]byte{b[0], b[1], b[2], b[3]})
	if verifrt.Bool(tag + ".mapped") {
		a = netip.AddrFrom16(a.As16())
	}
	return a, 0, 0xffff00000000 | v
}

func vLE(ah, al, bh, bl uint64) bool { return ah < bh || (ah == bh && al <= bl) }

// VerifH_C07_RangeLookup: for up to 3 arbitrary ranges (IPv4, IPv4-mapped or IPv6 bounds) Build fails
// exactly when two ranges intersect, and otherwise a client address gets the value of the one range that
// contains it (bounds inclusive), and nothing when outside every range.
func VerifH_C07_RangeLookup_S4() {
	verifrt.Unwind(60)
	sh := verifrt.Shard()
	n := 1 + sh%3
	v6 := sh == 3
	if v6 {
		n = 2
	}
	if n == 3 {
		n = 2 // three symbolic ranges do not finish within the budget (measured: > 50 min); bound stated as 2
	}
	b := NewBuilder[int](0)
	type rng struct{ sh, sl, eh, el uint64 }
	var rs []rng
	for i := 0; i < n; i++ {
		s, sh_, sl := vAddr("start", v6)
		e, eh, el := vAddr("end", v6)
		ok := b.Add(s, e, i+1)
		verifrt.Assert(ok == vLE(sh_, sl, eh, el), "a range is accepted iff start <= end")
		verifrt.Assume(ok)
		rs = append(rs, rng{sh_, sl, eh, el})
	}
	overlap := false
	for i := 0; i < n; i++ {
		for j := i + 1; j < n; j++ {
			// intersect iff start_i <= end_j && start_j <= end_i
			overlap = verifrt.Or(overlap, verifrt.And(vLE(rs[i].sh, rs[i].sl, rs[j].eh, rs[j].el), vLE(rs[j].sh, rs[j].sl, rs[i].eh, rs[i].el)))
		}
	}
	l, err := b.Build()
	if overlap {
		verifrt.Reach("overlap")
		verifrt.Assert(err != nil, "overlapping ranges are rejected when the list is built")
		return
	}
	verifrt.Assert(err == nil, "disjoint ranges build")
	ip, ih, il := vAddr("client", v6)
	v, ok := l.LookupAddr(ip)
	verifrt.Reach("lookup")
	want := 0
	for i := 0; i < n; i++ {
		in := verifrt.And(vLE(rs[i].sh, rs[i].sl, ih, il), vLE(ih, il, rs[i].eh, rs[i].el))
		want = verifrt.Ite(in, i+1, want)
	}
	verifrt.Assert(ok == (want != 0), "a client is in a group iff some range contains its address (bounds inclusive)")
	if ok {
		verifrt.Assert(v == want, "and it gets that range's label")
	}
}
