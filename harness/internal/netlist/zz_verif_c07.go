package netlist

import (
	"net/netip"

	"github.com/IrineSistiana/mosproxy/internal/verifrt"
)

func vAddr(tag string, v6 bool) (netip.Addr, uint64, uint64) {
	if v6 {
		b := verifrt.BytesN(tag, 16)
		var a [16]byte
		copy(a[:], b)
		var hi, lo uint64
		for i := 0; i < 8; i++ {
			hi = hi<<8 | uint64(b[i])
			lo = lo<<8 | uint64(b[8+i])
		}
		return netip.AddrFrom16(a), hi, lo
	}
	b := verifrt.BytesN(tag, 4)
	v := uint64(b[0])<<24 | uint64(b[1])<<16 | uint64(b[2])<<8 | uint64(b[3])
	a := netip.AddrFrom4([4]byte{b[0], b[1], b[2], b[3]})
	if verifrt.Bool(tag + ".mapped") {
		a = netip.AddrFrom16(a.As16())
	}
	return a, 0, 0xffff00000000 | v
}

// vLE: 128-bit (hi, lo) order as ONE term (no short-circuit operators: the harness must not fork on its own oracle)
func vLE(ah, al, bh, bl uint64) bool { return verifrt.Or(ah < bh, verifrt.And(ah == bh, al <= bl)) }

// VerifH_C07_RangeLookup: for up to 3 arbitrary ranges (IPv4, IPv4-mapped or IPv6 bounds) Build fails
// exactly when two ranges intersect, and otherwise a client address gets the value of the one range that
// contains it (bounds inclusive), and nothing when outside every range.
func VerifH_C07_RangeLookup_S4() {
	verifrt.Unwind(60)
	sh := verifrt.Shard()
	n := 1 + sh%3
	v6 := sh == 3
	if v6 {
		n = 2
	}
	if n == 3 {
		n = 2 // three symbolic ranges do not finish within the budget (measured: > 50 min); bound stated as 2
	}
	b := NewBuilder[int](0)
	type rng struct{ sh, sl, eh, el uint64 }
	var rs []rng
	for i := 0; i < n; i++ {
		s, sh_, sl := vAddr("start", v6)
		e, eh, el := vAddr("end", v6)
		ok := b.Add(s, e, i+1)
		verifrt.Assert(ok == vLE(sh_, sl, eh, el), "a range is accepted iff start <= end")
		verifrt.Assume(ok)
		rs = append(rs, rng{sh_, sl, eh, el})
	}
	overlap := false
	for i := 0; i < n; i++ {
		for j := i + 1; j < n; j++ {
			// intersect iff start_i <= end_j && start_j <= end_i
			overlap = verifrt.Or(overlap, verifrt.And(vLE(rs[i].sh, rs[i].sl, rs[j].eh, rs[j].el), vLE(rs[j].sh, rs[j].sl, rs[i].eh, rs[i].el)))
		}
	}
	l, err := b.Build()
	if overlap {
		verifrt.Reach("overlap")
		verifrt.Assert(err != nil, "overlapping ranges are rejected when the list is built")
		return
	}
	verifrt.Assert(err == nil, "disjoint ranges build")
	ip, ih, il := vAddr("client", v6)
	v, ok := l.LookupAddr(ip)
	verifrt.Reach("lookup")
	want := 0
	for i := 0; i < n; i++ {
		in := verifrt.And(vLE(rs[i].sh, rs[i].sl, ih, il), vLE(ih, il, rs[i].eh, rs[i].el))
		want = verifrt.Ite(in, i+1, want)
	}
	verifrt.Assert(ok == (want != 0), "a client is in a group iff some range contains its address (bounds inclusive)")
	if ok {
		verifrt.Assert(v == want, "and it gets that range's label")
	}
}

// VerifH_C07_LookupSortedList: Lookup on ANY list that satisfies what Build establishes (ranges sorted by start,
// start <= end, pairwise disjoint: end_i < start_{i+1}) with n = 1..6 (thorough 4..9) ranges of arbitrary 128-bit
// bounds, for any 128-bit address: the result is the label of the one range that contains the address (bounds
// inclusive), or nothing. The list is built directly from symbolic 64-bit halves (no text / byte parsing, no sorting):
// together with RangeLookup (Build + Lookup, 2 ranges) and BuildPostcondition this covers range files of any order.
func VerifH_C07_LookupSortedList_S6() {
	// integer-arithmetic back end (cvc5, bit-vectors solved as integers): chains of 64-bit order comparisons are linear
	// arithmetic there (0.05 s a query) but take a bit-blaster seconds each
	verifrt.SymbolicMemory()
	verifrt.Unwind(80)
	n := 1 + verifrt.Shard()
	if verifrt.Thorough() {
		n = 4 + verifrt.Shard()
	}
	l := &List[int]{}
	for i := 0; i < n; i++ {
		r := ipRange[int]{v: i + 1, start: Ipv6{verifrt.U64("sh"), verifrt.U64("sl")}, end: Ipv6{verifrt.U64("eh"), verifrt.U64("el")}}
		verifrt.Assume(vLE(r.start.h, r.start.l, r.end.h, r.end.l))
		if i > 0 {
			p := l.e[i-1]
			verifrt.Assume(verifrt.And(vLE(p.end.h, p.end.l, r.start.h, r.start.l), !verifrt.And(p.end.h == r.start.h, p.end.l == r.start.l)))
		}
		l.e = append(l.e, r)
	}
	ip := Ipv6{verifrt.U64("ih"), verifrt.U64("il")}
	v, ok := l.Lookup(ip)
	verifrt.Reach("lookup")
	want := 0
	for i := 0; i < n; i++ {
		in := verifrt.And(vLE(l.e[i].start.h, l.e[i].start.l, ip.h, ip.l), vLE(ip.h, ip.l, l.e[i].end.h, l.e[i].end.l))
		want = verifrt.Ite(in, i+1, want)
	}
	verifrt.Assert(ok == (want != 0), "a client is in a group iff some range contains its address (bounds inclusive)")
	if ok {
		verifrt.Assert(v == want, "and it gets that range's label")
	}
}

// VerifH_C07_BuildPostcondition: what Lookup relies on: for 2 (thorough 3) accepted ranges in any order, Build
// either rejects them (exactly when two intersect) or returns them sorted by start, pairwise disjoint, each with
// its own label.
func VerifH_C07_BuildPostcondition() {
	verifrt.Unwind(60)
	n := 2
	if verifrt.Thorough() {
		n = 3
	}
	b := &ListBuilder[int]{}
	for i := 0; i < n; i++ {
		r := ipRange[int]{v: i + 1, start: Ipv6{verifrt.U64("sh"), verifrt.U64("sl")}, end: Ipv6{verifrt.U64("eh"), verifrt.U64("el")}}
		verifrt.Assume(vLE(r.start.h, r.start.l, r.end.h, r.end.l))
		b.b = append(b.b, r)
	}
	in := append([]ipRange[int](nil), b.b...)
	overlap := false
	for i := 0; i < n; i++ {
		for j := i + 1; j < n; j++ {
			overlap = verifrt.Or(overlap, verifrt.And(vLE(in[i].start.h, in[i].start.l, in[j].end.h, in[j].end.l), vLE(in[j].start.h, in[j].start.l, in[i].end.h, in[i].end.l)))
		}
	}
	l, err := b.Build()
	if overlap {
		verifrt.Reach("overlap")
		verifrt.Assert(err != nil, "intersecting ranges are rejected")
		return
	}
	verifrt.Reach("built")
	verifrt.Assert(err == nil && l.Len() == n, "disjoint ranges build, none lost")
	seen := 0
	for i := 0; i < n; i++ {
		r := l.e[i]
		verifrt.Assert(r.v >= 1 && r.v <= n, "labels are the given ones")
		o := in[r.v-1]
		verifrt.Assert(r.start == o.start && r.end == o.end, "every range keeps its own bounds and label")
		seen |= 1 << (r.v - 1)
		if i > 0 {
			p := l.e[i-1]
			verifrt.Assert(verifrt.And(vLE(p.end.h, p.end.l, r.start.h, r.start.l), !verifrt.And(p.end.h == r.start.h, p.end.l == r.start.l)), "sorted by start and pairwise disjoint")
		}
	}
	verifrt.Assert(seen == 1<<n-1, "a permutation of the input")
}
