package upstream

import (
	"context"
	"crypto/tls"
	"io"
	"net"
	"net/http"
	"net/url"

	"github.com/IrineSistiana/mosproxy/internal/verifrt"
	"github.com/quic-go/quic-go"
	"github.com/quic-go/quic-go/http3"
	"golang.org/x/net/http2"
)

type vReqRec struct {
	scheme, urlHost, host, path string
}

// vHTTPStubs replaces the parts of net/http, x/net/http2, quic-go and the socket layer that NewUpstream wires
// together by recording stubs. What is observed is exactly what the property talks about: the address handed to
// the dialer / resolver, the TLS server name and ALPN handed to the QUIC dial, the URL/Host of the HTTP request.
func vWiringStubs(dials *[]vDialRec, resolved *[]string, reqs *[]vReqRec, sni *[]string, alpn *[][]string) {
	verifrt.Redirect("(*net.Dialer).DialContext", func(d *net.Dialer, ctx context.Context, network, address string) (net.Conn, error) {
		*dials = append(*dials, vDialRec{network, address})
		return nil, errVLeg
	})
	verifrt.Redirect("net.ResolveUDPAddr", func(network, address string) (*net.UDPAddr, error) {
		*resolved = append(*resolved, address)
		return &net.UDPAddr{IP: net.IP{192, 0, 2, 1}, Port: 1}, nil
	})
	verifrt.Redirect("(*net.ListenConfig).ListenPacket", func(lc *net.ListenConfig, ctx context.Context, network, address string) (net.PacketConn, error) {
		return nil, nil
	})
	verifrt.Redirect("github.com/IrineSistiana/mosproxy/internal/utils.InitQUICSrkFromIfaceMac", func() ([32]byte, net.HardwareAddr, error) {
		return [32]byte{}, nil, errVLeg
	})
	verifrt.Redirect("(*github.com/quic-go/quic-go.Transport).DialEarly", func(t *quic.Transport, ctx context.Context, addr net.Addr, tlsConf *tls.Config, conf *quic.Config) (quic.EarlyConnection, error) {
		name := ""
		var protos []string
		if tlsConf != nil {
			name, protos = tlsConf.ServerName, tlsConf.NextProtos
		}
		*sni = append(*sni, name)
		*alpn = append(*alpn, protos)
		return nil, errVLeg
	})
	verifrt.Redirect("github.com/quic-go/quic-go.NewLRUTokenStore", func(maxOrigins, tokensPerOrigin int) quic.TokenStore { return nil })
	verifrt.Redirect("(*github.com/quic-go/quic-go.Transport).Close", func(t *quic.Transport) error { return nil })
	verifrt.Redirect("golang.org/x/net/http2.ConfigureTransports", func(t1 *http.Transport) (*http2.Transport, error) {
		return &http2.Transport{}, nil
	})
	verifrt.Redirect("net/http.NewRequest", func(method, urlStr string, body io.Reader) (*http.Request, error) {
		u, err := url.Parse(urlStr)
		if err != nil {
			return nil, err
		}
		return &http.Request{Method: method, URL: u, Host: u.Host, Header: http.Header{}}, nil
	})
	verifrt.Redirect("(*net/http.Request).WithContext", func(r *http.Request, ctx context.Context) *http.Request {
		r2 := *r
		return &r2
	})
	rec := func(req *http.Request) {
		*reqs = append(*reqs, vReqRec{req.URL.Scheme, req.URL.Host, req.Host, req.URL.Path})
	}
	verifrt.Redirect("(*net/http.Transport).RoundTrip", func(t *http.Transport, req *http.Request) (*http.Response, error) {
		rec(req)
		// net/http would now ask the transport's DialContext for a connection to the URL's host:port
		t.DialContext(context.Background(), "tcp", req.URL.Host)
		return nil, errVLeg
	})
	verifrt.Redirect("(*github.com/quic-go/quic-go/http3.RoundTripper).RoundTrip", func(t *http3.RoundTripper, req *http.Request) (*http.Response, error) {
		rec(req)
		t.Dial(context.Background(), req.URL.Host, t.TLSClientConfig, t.QuicConfig)
		return nil, errVLeg
	})
}

// VerifH_C17_WiringDoH: https / http / h3 / quic upstreams through NewUpstream, for the same host and dial_addr
// forms as the stream schemes: the socket goes to the URL host (scheme default port 443 / 80 / 853) or to the
// dial_addr override, while the HTTP request still names the URL host (and path), and the DoQ handshake still
// verifies the URL host with ALPN "doq".
func VerifH_C17_WiringDoH_S4() {
	verifrt.Unwind(400)
	verifrt.SchedBound(0)
	verifrt.CtxNoExpiry = true
	var dials []vDialRec
	var resolved []string
	var reqs []vReqRec
	var sni []string
	var alpn [][]string
	vWiringStubs(&dials, &resolved, &reqs, &sni, &alpn)
	scheme := []string{"https", "http", "h3", "quic"}[verifrt.Shard()]
	def := map[string]string{"https": "443", "http": "80", "h3": "443", "quic": "853"}[scheme]
	hosts := []struct{ url, host, port string }{
		{"dns.example", "dns.example", ""},
		{"dns.example:5353", "dns.example", "5353"},
		{"192.0.2.7", "192.0.2.7", ""},
		{"[2001:db8::1]", "2001:db8::1", ""},
		{"[2001:db8::1]:5353", "2001:db8::1", "5353"},
	}
	h := hosts[verifrt.Choose("host", len(hosts))]
	dialForms := []struct{ dial, want string }{
		{"", ""},
		{"198.51.100.9", "198.51.100.9:DEF"},
		{"198.51.100.9:8853", "198.51.100.9:8853"},
		{"2001:db8::9", "[2001:db8::9]:DEF"},
		{"[2001:db8::9]:8853", "[2001:db8::9]:8853"},
	}
	df := dialForms[verifrt.Choose("dial", len(dialForms))]
	path := ""
	if scheme != "quic" {
		path = "/dns-query"
	}
	u, err := NewUpstream(scheme+"://"+h.url+path, Opt{DialAddr: df.dial})
	verifrt.Assert(err == nil && u != nil, "supported address form is accepted")
	q := make([]byte, 12)
	u.ExchangeContext(context.Background(), q)
	verifrt.Quiesce()
	verifrt.Reach("dialled")
	want := df.want
	if want == "" {
		p := h.port
		if p == "" {
			p = def
		}
		if h.host[0] == '2' && len(h.host) > 9 {
			want = "[" + h.host + "]:" + p
		} else {
			want = h.host + ":" + p
		}
	} else if len(want) > 3 && want[len(want)-3:] == "DEF" {
		want = want[:len(want)-3] + def
	}
	switch scheme {
	case "https", "http":
		verifrt.Assert(len(dials) >= 1 && dials[0].network == "tcp" && dials[0].addr == want, "the TCP connection goes to the URL host (default 443/80) or the dial_addr override")
	default:
		verifrt.Assert(len(resolved) >= 1 && resolved[0] == want, "the QUIC connection goes to the URL host (default 443/853) or the dial_addr override")
	}
	if scheme == "quic" {
		verifrt.Assert(len(sni) >= 1 && sni[0] == h.host, "DoQ verifies the URL host (without port/brackets), never the dial_addr")
		verifrt.Assert(len(alpn[0]) == 1 && alpn[0][0] == "doq", "DoQ offers ALPN doq")
		return
	}
	wantScheme := scheme
	if scheme == "h3" {
		wantScheme = "https"
	}
	verifrt.Assert(len(reqs) >= 1 && reqs[0].scheme == wantScheme && reqs[0].urlHost == h.url && reqs[0].host == h.url && reqs[0].path == "/dns-query",
		"the HTTP request (URL, Host, path) still names the URL host exactly as configured, never the dial_addr")
}
