package upstream

import (
	"context"
	"net"

	"github.com/IrineSistiana/mosproxy/internal/verifrt"
)

// VerifH_C18_UDPFallbackClose: closing a plain (UDP with TCP fallback) upstream closes BOTH legs: the UDP socket that
// was in use is closed, and afterwards neither leg dials or exchanges any more; closing twice is harmless.
func VerifH_C18_UDPFallbackClose() {
	verifrt.Unwind(400)
	verifrt.SchedBound(1)
	verifrt.CtxNoExpiry = true
	var udps []*vTCUDPConn
	dials := 0
	verifrt.Redirect("(*net.Dialer).DialContext", func(d *net.Dialer, ctx context.Context, network, address string) (net.Conn, error) {
		dials++
		if network == "udp" {
			c := &vTCUDPConn{inbox: make(chan []byte, 4), closed: make(chan struct{})}
			udps = append(udps, c)
			return c, nil
		}
		return nil, errVLeg
	})
	u, err := NewUpstream("udp://192.0.2.1", Opt{})
	verifrt.Assert(err == nil, "upstream created")
	q := make([]byte, 12)
	if verifrt.Bool("warm") {
		u.ExchangeContext(context.Background(), q) // UDP answers TC=1, the TCP dial fails
		verifrt.Assert(len(udps) == 1 && dials == 2, "one UDP socket, one TCP attempt")
	}
	verifrt.Assert(u.Close() == nil, "close returns")
	u.Close()
	verifrt.Quiesce()
	verifrt.Reach("closed")
	for _, c := range udps {
		verifrt.Assert(c.done, "the UDP socket is closed")
	}
	before := dials
	uu := u.(*udpWithFallback)
	_, e1 := uu.u.ExchangeContext(context.Background(), q)
	_, e2 := uu.t.ExchangeContext(context.Background(), q)
	verifrt.Assert(e1 != nil && e2 != nil, "both legs refuse exchanges after Close")
	verifrt.Assert(dials == before, "and neither leg dials again")
}
