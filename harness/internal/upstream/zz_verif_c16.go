package upstream

import (
	"context"
	"errors"
	"net"
	"os"
	"time"

	"github.com/IrineSistiana/mosproxy/internal/dnsmsg"
	"github.com/IrineSistiana/mosproxy/internal/upstream/transport"
	"github.com/IrineSistiana/mosproxy/internal/verifrt"
)

var errVLeg = errors.New("leg failed")

// VerifH_C16_Fallback: the UDP upstream falls back to TCP exactly when the UDP reply is truncated and
// then hands the caller the TCP outcome (never the truncated message).
func VerifH_C16_Fallback() {
	udpCalls, tcpCalls := 0, 0
	var udpMsg, tcpMsg *dnsmsg.Msg
	var tcpQ []byte
	udpFail, tcpFail := verifrt.Bool("udp.fail"), verifrt.Bool("tcp.fail")
	tc := verifrt.Bool("udp.tc")
	tcpTC := verifrt.Bool("tcp.tc") // a TCP reply can carry TC as well (answer > 64 KiB, broken middlebox): it still is the outcome
	verifrt.Redirect("(*github.com/IrineSistiana/mosproxy/internal/upstream/transport.PipelineTransport).ExchangeContext",
		func(t *transport.PipelineTransport, ctx context.Context, q []byte) (*dnsmsg.Msg, error) {
			udpCalls++
			if udpFail {
				return nil, errVLeg
			}
			udpMsg = dnsmsg.NewMsg()
			udpMsg.Response = true
			udpMsg.Truncated = tc
			udpMsg.ID = verifrt.U16("udp.id")
			return udpMsg, nil
		})
	verifrt.Redirect("(*github.com/IrineSistiana/mosproxy/internal/upstream/transport.ReuseConnTransport).ExchangeContext",
		func(t *transport.ReuseConnTransport, ctx context.Context, q []byte) (*dnsmsg.Msg, error) {
			tcpCalls++
			tcpQ = append([]byte(nil), q...)
			if tcpFail {
				return nil, errVLeg
			}
			verifrt.Assert(tcpCalls <= 1, "a truncated UDP reply triggers exactly one TCP exchange")
			tcpMsg = dnsmsg.NewMsg()
			tcpMsg.Response = true
			tcpMsg.Truncated = tcpTC
			tcpMsg.RCode = 7 // tells the TCP reply from the UDP one
			tcpMsg.ID = verifrt.U16("tcp.id")
			return tcpMsg, nil
		})
	u := &udpWithFallback{}
	q := verifrt.BytesN("q", 12)
	r, err := u.ExchangeContext(context.Background(), q)
	verifrt.Reach("returned")
	verifrt.Assert(udpCalls == 1, "the UDP leg is tried exactly once")
	switch {
	case udpFail:
		verifrt.Assert(r == nil && err != nil && tcpCalls == 0, "UDP failure is reported; no TCP attempt")
	case !tc:
		verifrt.Assert(err == nil && r == udpMsg && tcpCalls == 0, "a complete UDP reply is returned as received, without a TCP attempt")
	default:
		verifrt.Reach("fallback")
		verifrt.Assert(tcpCalls == 1, "a truncated UDP reply triggers exactly one TCP exchange")
		verifrt.Assert(verifrt.EqBytes(tcpQ, q), "the same query is re-sent over TCP")
		verifrt.Assert(r == nil || r.RCode == 7, "the truncated UDP message is never returned")
		if tcpFail {
			verifrt.Assert(r == nil && err != nil, "TCP failure is the outcome")
		} else {
			verifrt.Assert(err == nil && r == tcpMsg && r.Truncated == tcpTC, "the TCP reply is the outcome, whatever it says")
		}
	}
}

// vTCUDPConn: a datagram socket whose server answers every query with a truncated (TC=1) header-only reply.
type vTCUDPConn struct {
	net.Conn
	inbox  chan []byte
	closed chan struct{}
	done   bool
	// shape of the reply (0 = the header-only truncation notice used by SameServer); see VerifH_C16_ReplyShapes
	shape int
	noTC  bool
}

func (c *vTCUDPConn) Write(p []byte) (int, error) {
	r := make([]byte, 12)
	r[0], r[1] = p[0], p[1]
	r[2] = 0x82 // QR, TC
	if c.noTC {
		r[2] = 0x80
	}
	r[3] = 0x80 // RA
	switch c.shape {
	case 1, 2: // question echoed (2: with the letters' case changed, names compare case-insensitively)
		r[5] = 1
		qs := append([]byte(nil), p[12:]...)
		if c.shape == 2 {
			for i := range qs {
				if qs[i] >= 'a' && qs[i] <= 'z' {
					qs[i] -= 0x20
				}
			}
		}
		r = append(r, qs...)
	case 3: // no question, but an OPT record in the additional section (a server that truncates everything else)
		r[11] = 1
		r = append(r, 0, 0, 41, 0x04, 0xd0, 0, 0, 0, 0, 0, 0)
	}
	c.inbox <- r
	return len(p), nil
}
func (c *vTCUDPConn) Read(p []byte) (int, error) {
	select {
	case b := <-c.inbox:
		return copy(p, b), nil
	case <-c.closed:
		return 0, errVLeg
	}
}
func (c *vTCUDPConn) Close() error {
	if !c.done {
		c.done = true
		close(c.closed)
	}
	return nil
}
func (c *vTCUDPConn) LocalAddr() net.Addr {
	return &net.UDPAddr{IP: net.IP{192, 0, 2, 200}, Port: 40000}
}
func (c *vTCUDPConn) RemoteAddr() net.Addr             { return &net.UDPAddr{IP: net.IP{192, 0, 2, 1}, Port: 53} }
func (c *vTCUDPConn) SetDeadline(time.Time) error      { return nil }
func (c *vTCUDPConn) SetReadDeadline(time.Time) error  { return nil }
func (c *vTCUDPConn) SetWriteDeadline(time.Time) error { return nil }

// VerifH_C16_SameServer: the upstream built by NewUpstream for a plain (udp / scheme-less) address: when the UDP reply
// is truncated the query is retried over TCP **to the same server** — the address dialled for the TCP leg is
// exactly the one dialled for UDP, for every host form and every dial_addr override.
func VerifH_C16_SameServer() {
	verifrt.Unwind(400)
	verifrt.SchedBound(0)
	verifrt.CtxNoExpiry = true
	var dials []vDialRec
	verifrt.Redirect("(*net.Dialer).DialContext", func(d *net.Dialer, ctx context.Context, network, address string) (net.Conn, error) {
		dials = append(dials, vDialRec{network, address})
		if network == "udp" {
			return &vTCUDPConn{inbox: make(chan []byte, 4), closed: make(chan struct{})}, nil
		}
		return nil, errVLeg // the TCP connection attempt itself is not the subject
	})
	hosts := []struct{ url, want string }{
		{"dns.example", "dns.example:53"},
		{"dns.example:5353", "dns.example:5353"},
		{"192.0.2.7", "192.0.2.7:53"},
		{"[2001:db8::1]", "[2001:db8::1]:53"},
		{"[2001:db8::1]:5353", "[2001:db8::1]:5353"},
	}
	h := hosts[verifrt.Choose("host", len(hosts))]
	dialForms := []struct{ dial, want string }{
		{"", ""},
		{"198.51.100.9", "198.51.100.9:53"},
		{"198.51.100.9:8853", "198.51.100.9:8853"},
		{"other.example", "other.example:53"},
		{"[2001:db8::9]:8853", "[2001:db8::9]:8853"},
	}
	df := dialForms[verifrt.Choose("dial", len(dialForms))]
	scheme := []string{"udp://", ""}[verifrt.Choose("scheme", 2)]
	u, err := NewUpstream(scheme+h.url, Opt{DialAddr: df.dial})
	verifrt.Assert(err == nil && u != nil, "supported address form is accepted")
	q := make([]byte, 12)
	q[0], q[1] = 0x12, 0x34
	r, err := u.ExchangeContext(context.Background(), q)
	verifrt.Quiesce()
	verifrt.Reach("exchanged")
	verifrt.Assert(r == nil && err != nil, "the truncated UDP reply is not returned; the (failing) TCP leg is the outcome")
	want := df.want
	if want == "" {
		want = h.want
	}
	verifrt.Assert(len(dials) == 2 && dials[0].network == "udp" && dials[1].network == "tcp", "one UDP exchange, then exactly one TCP attempt")
	verifrt.Assert(dials[0].addr == want, "UDP goes to the configured server (dial_addr override honoured)")
	verifrt.Assert(dials[1].addr == dials[0].addr, "the TCP retry goes to the same server as the UDP query")
}


// VerifH_C16_ReplyShapes: "whenever the UDP reply has the TC flag set" — whatever else that reply looks like. A real
// query (one question, RD) goes through the upstream NewUpstream builds; the UDP server answers under the query's ID
// with TC set or clear and with one of the shapes servers and middleboxes produce: a bare 12-octet header, the
// question echoed, the question echoed with different letter case, no question but an OPT record. TC ⇒ exactly one
// TCP attempt to the same server whose outcome is returned; no TC ⇒ the reply is returned as received, no TCP.
func VerifH_C16_ReplyShapes() {
	verifrt.Unwind(400)
	verifrt.SchedBound(0)
	verifrt.CtxNoExpiry = true
	var dials []vDialRec
	shape := verifrt.Choose("shape", 4)
	noTC := verifrt.Bool("no-tc")
	verifrt.Redirect("(*net.Dialer).DialContext", func(d *net.Dialer, ctx context.Context, network, address string) (net.Conn, error) {
		dials = append(dials, vDialRec{network, address})
		if network == "udp" {
			return &vTCUDPConn{inbox: make(chan []byte, 4), closed: make(chan struct{}), shape: shape, noTC: noTC}, nil
		}
		return nil, errVLeg
	})
	u, err := NewUpstream("udp://192.0.2.7", Opt{})
	verifrt.Assert(err == nil && u != nil, "supported address form is accepted")
	l0 := verifrt.Byte("l0")
	verifrt.Assume(l0 >= 'a' && l0 <= 'z')
	q := []byte{0x12, 0x34, 0x01, 0x00, 0, 1, 0, 0, 0, 0, 0, 0, 2, l0, 'b', 0, 0, 1, 0, 1}
	r, err := u.ExchangeContext(context.Background(), q)
	verifrt.Quiesce()
	verifrt.Reach("exchanged")
	if noTC {
		verifrt.Reach("complete")
		verifrt.Assert(err == nil && r != nil, "a reply without TC is returned as received")
		verifrt.Assert(r.Header.ID == 0x1234 && !r.Header.Truncated && r.Header.RecursionAvailable, "ID restored, flags as received")
		verifrt.Assert(len(dials) == 1 && dials[0].network == "udp", "and causes no TCP attempt")
		return
	}
	verifrt.Reach("truncated")
	verifrt.Assert(r == nil && err != nil, "the truncated UDP reply is never returned; the (failing) TCP leg is the outcome")
	verifrt.Assert(len(dials) == 2 && dials[0].network == "udp" && dials[1].network == "tcp", "one UDP exchange, then exactly one TCP attempt")
	verifrt.Assert(dials[1].addr == dials[0].addr && dials[0].addr == "192.0.2.7:53", "to the same server")
}

// VerifH_C17_FallbackLegAddress: the TCP leg of a plain (udp) upstream is a connection of that upstream too: it is
// dialled to exactly the host and port (or dial_addr override) the UDP leg uses — the scenario of C16_SameServer,
// registered under the addressing property as well (5 host forms x 5 dial_addr forms x udp:// / scheme-less).
func VerifH_C17_FallbackLegAddress() { VerifH_C16_SameServer() }

// vLateTCP: the TCP side of a plain upstream's server. It answers every query with a header-only reply echoing ID and
// the query's last flag octet in the rcode bits, but holds the reply to the FIRST query until `late` is closed. Deadlines
// set to a past or present instant wake a blocked reader at once (harness-controlled clock), with a time-out that
// unwraps to os.ErrDeadlineExceeded like a real socket's.
type vLateTCP struct {
	net.Conn
	inbox    chan []byte
	outbox   chan []byte
	closedCh chan struct{}
	closed   bool
	dl       chan struct{}
	dlFired  bool
	pend     []byte
}

type vUpTimeout struct{}

func (vUpTimeout) Error() string   { return "i/o timeout" }
func (vUpTimeout) Timeout() bool   { return true }
func (vUpTimeout) Temporary() bool { return true }
func (vUpTimeout) Unwrap() error   { return os.ErrDeadlineExceeded }

func newVLateTCP(late chan struct{}, holdFirst bool) *vLateTCP {
	c := &vLateTCP{inbox: make(chan []byte, 4), outbox: make(chan []byte, 4), closedCh: make(chan struct{}), dl: make(chan struct{})}
	go func() {
		held := holdFirst
		for {
			var q []byte
			select {
			case q = <-c.outbox:
			case <-c.closedCh:
				return
			}
			if len(q) < 14 {
				continue
			}
			if held {
				held = false
				select {
				case <-late:
				case <-c.closedCh:
					return
				}
			}
			c.inbox <- []byte{0, 12, q[2], q[3], 0x80, q[5] & 0xF, 0, 0, 0, 0, 0, 0, 0, 0}
		}
	}()
	return c
}

func (c *vLateTCP) Read(p []byte) (int, error) {
	if len(c.pend) == 0 {
		select {
		case b := <-c.inbox:
			c.pend = b
		case <-c.closedCh:
			return 0, errVLeg
		case <-c.dl:
			return 0, vUpTimeout{}
		}
	}
	n := copy(p, c.pend)
	c.pend = c.pend[n:]
	return n, nil
}
func (c *vLateTCP) Write(p []byte) (int, error) {
	if c.closed {
		return 0, errVLeg
	}
	c.outbox <- append([]byte(nil), p...)
	return len(p), nil
}
func (c *vLateTCP) Close() error {
	if !c.closed {
		c.closed = true
		close(c.closedCh)
	}
	return nil
}
func (c *vLateTCP) SetDeadline(t time.Time) error {
	if c.closed {
		return errVLeg
	}
	if c.dlFired {
		c.dl, c.dlFired = make(chan struct{}), false
	}
	if !t.IsZero() && !t.After(time.Now()) {
		c.dlFired = true
		close(c.dl)
	}
	return nil
}
func (c *vLateTCP) SetReadDeadline(t time.Time) error  { return c.SetDeadline(t) }
func (c *vLateTCP) SetWriteDeadline(t time.Time) error { return c.SetDeadline(t) }
func (c *vLateTCP) LocalAddr() net.Addr                { return &net.TCPAddr{IP: net.IP{192, 0, 2, 200}, Port: 40001} }
func (c *vLateTCP) RemoteAddr() net.Addr               { return &net.TCPAddr{IP: net.IP{192, 0, 2, 1}, Port: 53} }

// VerifH_C16_AbandonedFallbackThenNext: "the caller receives the outcome of the TCP exchange" — of ITS OWN query. Query A
// is truncated over UDP and retried over TCP, where the server is slow; A's caller gives up; the TCP reply to A arrives
// later on the still open connection (before or after the next step, ≤ 2 scheduling deviations); query B is truncated
// over UDP too and falls back to TCP. Through the upstream NewUpstream builds (real transports, UDP and TCP sockets
// faked, harness-controlled clock): B's caller gets the TCP reply to B (or an error), never A's.
func VerifH_C16_AbandonedFallbackThenNext() {
	verifrt.Unwind(400)
	verifrt.SchedBound(2 + verifrt.Tier) // thorough: one more deviation from the default schedule
	verifrt.NoTimers()
	verifrt.CtxNoExpiry = true
	base := time.Unix(1700000000, 0)
	verifrt.Redirect("time.Now", func() time.Time { return base })
	late := make(chan struct{})
	tcpDials := 0
	verifrt.Redirect("(*net.Dialer).DialContext", func(d *net.Dialer, ctx context.Context, network, address string) (net.Conn, error) {
		if network == "udp" {
			return &vTCUDPConn{inbox: make(chan []byte, 4), closed: make(chan struct{})}, nil
		}
		tcpDials++
		return newVLateTCP(late, tcpDials == 1), nil
	})
	u, err := NewUpstream("udp://192.0.2.7", Opt{})
	verifrt.Assert(err == nil && u != nil, "upstream built")
	mk := func(id uint16, marker byte) []byte {
		return []byte{byte(id >> 8), byte(id), 0x01, marker, 0, 1, 0, 0, 0, 0, 0, 0, 1, 'q', 0, 0, 1, 0, 1}
	}
	ctxA, cancelA := verifrt.CtxWithCancel(nil)
	resA := make(chan error, 1)
	go func() { _, err := u.ExchangeContext(ctxA, mk(0x1111, 1)); resA <- err }()
	verifrt.Quiesce() // A: UDP said TC, the TCP query is on the wire, the server is slow
	verifrt.Assert(tcpDials == 1, "A fell back to TCP")
	cancelA()
	verifrt.Assert(<-resA != nil, "the abandoned exchange returns an error")
	verifrt.Quiesce()
	verifrt.Reach("abandoned")
	go func() { close(late) }()
	r, err := u.ExchangeContext(context.Background(), mk(0x2222, 2))
	verifrt.Reach("second-returned")
	if err == nil {
		verifrt.Reach("second-answered")
		verifrt.Assert(r.Header.ID == 0x2222 && r.Header.RCode == 2 && !r.Header.Truncated, "the caller receives the outcome of the TCP exchange of its own query")
	}
}

// VerifH_C05_FallbackKeepsReplyOwnership: multiplexed UDP replies are pooled objects: a message handed to a caller
// must be THAT exchange's reply and must not have been given back to the pool (the read loop would decode the next
// datagram into it and deliver it to another exchange: one reply satisfying two exchanges). Through the plain upstream
// NewUpstream builds, for every UDP reply shape with TC set or clear and a TCP leg that fails: a returned message is
// live, carries the caller's ID and is the reply that was sent; a truncated one is never returned (scenario of
// C16_ReplyShapes under the ownership ghosts).
func VerifH_C05_FallbackKeepsReplyOwnership() { VerifH_C16_ReplyShapes() }

// VerifH_C16_EveryTruncatedReplyIsRetried: "WHENEVER the UDP reply has the TC flag set" — also the tenth time, and also
// after every earlier TCP attempt failed: twelve exchanges in a row through one plain upstream, every UDP reply
// truncated, every TCP attempt failing: each exchange makes its own TCP attempt to the same server and returns that
// attempt's error; none is left waiting (no deadline is set), none skips the TCP leg.
func VerifH_C16_EveryTruncatedReplyIsRetried() {
	verifrt.Unwind(800)
	verifrt.SchedBound(0)
	verifrt.NoTimers()
	verifrt.CtxNoExpiry = true
	tcpDials := 0
	verifrt.Redirect("(*net.Dialer).DialContext", func(d *net.Dialer, ctx context.Context, network, address string) (net.Conn, error) {
		if network == "udp" {
			return &vTCUDPConn{inbox: make(chan []byte, 4), closed: make(chan struct{}), shape: 1}, nil
		}
		tcpDials++
		return nil, errVLeg
	})
	u, err := NewUpstream("udp://192.0.2.7", Opt{})
	verifrt.Assert(err == nil && u != nil, "upstream built")
	for i := 0; i < 12; i++ {
		q := []byte{0x12, byte(i), 0x01, 0x00, 0, 1, 0, 0, 0, 0, 0, 0, 1, 'q', 0, 0, 1, 0, 1}
		r, err := u.ExchangeContext(context.Background(), q)
		verifrt.Assert(r == nil && err != nil, "the failing TCP leg is the outcome")
		verifrt.Assert(tcpDials == i+1, "every truncated reply gets its own TCP attempt")
	}
	verifrt.Reach("all-retried")
}
