package upstream

import (
	"context"
	"errors"

	"github.com/IrineSistiana/mosproxy/internal/dnsmsg"
	"github.com/IrineSistiana/mosproxy/internal/upstream/transport"
	"github.com/IrineSistiana/mosproxy/internal/verifrt"
)

var errVLeg = errors.New("leg failed")

// VerifH_C16_Fallback: the UDP upstream falls back to TCP exactly when the UDP reply is truncated and
// then hands the caller the TCP outcome (never the truncated message).
func VerifH_C16_Fallback() {
	udpCalls, tcpCalls := 0, 0
	var udpMsg, tcpMsg *dnsmsg.Msg
	var tcpQ []byte
	udpFail, tcpFail := verifrt.Bool("udp.fail"), verifrt.Bool("tcp.fail")
	tc := verifrt.Bool("udp.tc")
	verifrt.Redirect("(*github.com/IrineSistiana/mosproxy/internal/upstream/transport.PipelineTransport).ExchangeContext",
		func(t *transport.PipelineTransport, ctx context.Context, q []byte) (*dnsmsg.Msg, error) {
			udpCalls++
			if udpFail {
				return nil, errVLeg
			}
			udpMsg = dnsmsg.NewMsg()
			udpMsg.Response = true
			udpMsg.Truncated = tc
			udpMsg.ID = verifrt.U16("udp.id")
			return udpMsg, nil
		})
	verifrt.Redirect("(*github.com/IrineSistiana/mosproxy/internal/upstream/transport.ReuseConnTransport).ExchangeContext",
		func(t *transport.ReuseConnTransport, ctx context.Context, q []byte) (*dnsmsg.Msg, error) {
			tcpCalls++
			tcpQ = append([]byte(nil), q...)
			if tcpFail {
				return nil, errVLeg
			}
			tcpMsg = dnsmsg.NewMsg()
			tcpMsg.Response = true
			tcpMsg.ID = verifrt.U16("tcp.id")
			return tcpMsg, nil
		})
	u := &udpWithFallback{}
	q := verifrt.BytesN("q", 12)
	r, err := u.ExchangeContext(context.Background(), q)
	verifrt.Reach("returned")
	verifrt.Assert(udpCalls == 1, "the UDP leg is tried exactly once")
	switch {
	case udpFail:
		verifrt.Assert(r == nil && err != nil && tcpCalls == 0, "UDP failure is reported; no TCP attempt")
	case !tc:
		verifrt.Assert(err == nil && r == udpMsg && tcpCalls == 0, "a complete UDP reply is returned as received, without a TCP attempt")
	default:
		verifrt.Reach("fallback")
		verifrt.Assert(tcpCalls == 1, "a truncated UDP reply triggers exactly one TCP exchange")
		verifrt.Assert(verifrt.EqBytes(tcpQ, q), "the same query is re-sent over TCP")
		verifrt.Assert(r == nil || !r.Truncated, "the truncated UDP message is never returned")
		if tcpFail {
			verifrt.Assert(r == nil && err != nil, "TCP failure is the outcome")
		} else {
			verifrt.Assert(err == nil && r == tcpMsg, "the TCP reply is the outcome")
		}
	}
}
