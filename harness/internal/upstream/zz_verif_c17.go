package upstream

import (
	"context"
	"crypto/tls"
	"net"

	"github.com/IrineSistiana/mosproxy/internal/verifrt"
)

func vIsHostCh(c byte) bool {
	return ('a' <= c && c <= 'z') || ('0' <= c && c <= '9') || c == '.' || c == '-'
}
func vIsHexColon(c byte) bool {
	return ('a' <= c && c <= 'f') || ('0' <= c && c <= '9') || c == ':'
}

// vHost: a domain / IPv4-like host of 1..3 characters without colon.
func vHost(tag string) string {
	b := verifrt.BytesN(tag, 1+verifrt.Choose(tag+".len", 2))
	for _, c := range b {
		verifrt.Assume(vIsHostCh(c))
	}
	return string(b)
}

// vV6: an IPv6-literal-like text of 3..4 characters (hex digits and at least two colons, like every
// real IPv6 literal).
func vV6(tag string) string {
	b := verifrt.BytesN(tag, 3+verifrt.Choose(tag+".len", 2))
	n := 0
	for _, c := range b {
		verifrt.Assume(vIsHexColon(c))
		n += verifrt.Ite(c == ':', 1, 0)
	}
	verifrt.Assume(n >= 2)
	return string(b)
}

func vPort(tag string) string {
	b := verifrt.BytesN(tag, 1+verifrt.Choose(tag+".len", 2))
	for _, c := range b {
		verifrt.Assume('0' <= c && c <= '9')
	}
	return string(b)
}

func vEq(a, b string) bool { return verifrt.EqBytes([]byte(a), []byte(b)) }

// VerifH_C17_TrimBrackets: exactly one enclosing pair of brackets is removed, nothing else.
func VerifH_C17_TrimBrackets() {
	verifrt.Unwind(20)
	s := string(verifrt.Bytes("s", 6))
	got := tryTrimIpv6Brackets(s)
	verifrt.Reach("trimmed")
	if len(s) >= 2 && s[0] == '[' && s[len(s)-1] == ']' {
		verifrt.Assert(vEq(got, s[1:len(s)-1]), "bracketed host: the text between the brackets")
	} else {
		verifrt.Assert(vEq(got, s), "unbracketed host unchanged")
	}
}

// vUrlHost returns (the Host part of an upstream URL, the host and port it denotes; port "" if absent).
func vUrlHost(tag string) (urlHost, host, port string, v6 bool) {
	switch verifrt.Choose(tag+".form", 4) {
	case 0:
		h := vHost(tag + ".h")
		return h, h, "", false
	case 1:
		h, p := vHost(tag+".h"), vPort(tag+".p")
		return h + ":" + p, h, p, false
	case 2:
		a := vV6(tag + ".v6")
		return "[" + a + "]", a, "", true
	default:
		a, p := vV6(tag+".v6"), vPort(tag+".p")
		return "[" + a + "]:" + p, a, p, true
	}
}

func vJoin(host, port string, v6 bool) string {
	if v6 {
		return "[" + host + "]:" + port
	}
	return host + ":" + port
}

// VerifH_C17_DialAddrFromURL: without dial_addr the dialled address is exactly the URL host and port,
// or the scheme's default port when the URL has none (IPv6 literals re-bracketed).
func VerifH_C17_DialAddrFromURL() {
	verifrt.Unwind(40)
	urlHost, host, port, v6 := vUrlHost("u")
	def := []string{"53", "853", "443", "80"}[verifrt.Choose("defport", 4)]
	got := getDialAddr(tryTrimIpv6Brackets(urlHost), "", def)
	verifrt.Reach("computed")
	if port == "" {
		port = def
	}
	verifrt.Assert(vEq(got, vJoin(host, port, v6)), "dial address = URL host : (URL port | default port)")
	// the TLS server name derives from the URL host without port
	sni := tryRemovePort(tryTrimIpv6Brackets(urlHost))
	verifrt.Assert(vEq(sni, host), "server name = URL host without port and brackets")
}

// VerifH_C17_DialAddrOverride: dial_addr wins over the URL host; default port added when missing; "@name"
// is passed through verbatim and selects the unix network.
func VerifH_C17_DialAddrOverride_S5() {
	verifrt.Unwind(40)
	urlHost := vHost("u.h")
	if verifrt.Bool("u.hasport") {
		urlHost = urlHost + ":5"
	}
	def := []string{"53", "853"}[verifrt.Choose("defport", 2)]
	var dial, want string
	switch verifrt.Shard() {
	case 0:
		h := vHost("d.h")
		dial, want = h, h+":"+def
	case 1:
		h, p := vHost("d.h"), vPort("d.p")
		dial, want = h+":"+p, h+":"+p
	case 2:
		a := vV6("d.v6")
		dial, want = a, "["+a+"]:"+def
	case 3:
		a, p := vV6("d.v6"), vPort("d.p")
		dial, want = "["+a+"]:"+p, "["+a+"]:"+p
	default:
		dial = "@" + vHost("d.sock")
		want = dial
	}
	got := getDialAddr(tryTrimIpv6Brackets(urlHost), dial, def)
	verifrt.Reach("computed")
	verifrt.Assert(vEq(got, want), "dial_addr overrides the URL host; default port added only when missing")
	wantNet := "tcp"
	if dial[0] == '@' {
		wantNet = "unix"
	}
	verifrt.Assert(dialNetworkTcpOrUnix(got) == wantNet, "network is unix exactly for @name")
}

// ---- wiring of NewUpstream: what is dialled and which server name is verified

type vDialRec struct {
	network, addr string
}

type vNullConn struct {
	net.Conn
	closed int
}

func (c *vNullConn) Close() error { c.closed++; return nil }

// VerifH_C17_Wiring: for each stream scheme and several host / dial_addr forms, the connection is dialled to
// the reference address and the TLS server name is the URL host (never the dial_addr).
func VerifH_C17_Wiring_S4() {
	verifrt.Unwind(400)
	verifrt.SchedBound(0)
	verifrt.CtxNoExpiry = true
	var dials []vDialRec
	var sni []string
	tlsMode := verifrt.Shard()%2 == 1
	verifrt.Redirect("(*net.Dialer).DialContext", func(d *net.Dialer, ctx context.Context, network, address string) (net.Conn, error) {
		dials = append(dials, vDialRec{network, address})
		if len(network) > 0 && tlsMode {
			return &vNullConn{}, nil // TLS: let the handshake stage run so that the server name is observed
		}
		return nil, errVLeg // the connection attempt itself is not the subject
	})
	scheme := []string{"tcp", "tls", "tcp+pipeline", "tls+pipeline"}[verifrt.Shard()]
	isTLS := scheme[:3] == "tls"
	hosts := []struct{ url, host, port string }{
		{"dns.example", "dns.example", ""},
		{"dns.example:5353", "dns.example", "5353"},
		{"192.0.2.7", "192.0.2.7", ""},
		{"[2001:db8::1]", "2001:db8::1", ""},
		{"[2001:db8::1]:5353", "2001:db8::1", "5353"},
	}
	h := hosts[verifrt.Choose("host", len(hosts))]
	dialForms := []struct{ dial, want string }{
		{"", ""},
		{"198.51.100.9", "198.51.100.9:DEF"},
		{"198.51.100.9:8853", "198.51.100.9:8853"},
		{"other.example", "other.example:DEF"},
		{"2001:db8::9", "[2001:db8::9]:DEF"},
		{"[2001:db8::9]:8853", "[2001:db8::9]:8853"},
	}
	df := dialForms[verifrt.Choose("dial", len(dialForms))]
	def := "53"
	if isTLS {
		def = "853"
	}
	opt := Opt{DialAddr: df.dial}
	if isTLS {
		verifrt.Redirect("crypto/tls.Client", func(c net.Conn, cfg *tls.Config) *tls.Conn {
			sni = append(sni, cfg.ServerName)
			return nil
		})
		verifrt.Redirect("(*crypto/tls.Conn).HandshakeContext", func(c *tls.Conn, ctx context.Context) error { return errVLeg })
		verifrt.Redirect("(*crypto/tls.Conn).Close", func(c *tls.Conn) error { return nil })
	}
	u, err := NewUpstream(scheme+"://"+h.url, opt)
	verifrt.Assert(err == nil && u != nil, "supported address form is accepted")
	q := make([]byte, 12)
	u.ExchangeContext(context.Background(), q)
	verifrt.Quiesce()
	verifrt.Reach("dialled")
	verifrt.Assert(len(dials) >= 1, "a connection is dialled")
	want := df.want
	if want == "" {
		p := h.port
		if p == "" {
			p = def
		}
		if h.host[0] == '2' && len(h.host) > 9 { // the IPv6 literal
			want = "[" + h.host + "]:" + p
		} else {
			want = h.host + ":" + p
		}
	} else if len(want) > 3 && want[len(want)-3:] == "DEF" {
		want = want[:len(want)-3] + def
	}
	verifrt.Assert(dials[0].network == "tcp" && dials[0].addr == want, "dialled exactly the configured host/port or the dial_addr override (default port added when missing)")
	if isTLS {
		verifrt.Assert(len(sni) >= 1 && sni[0] == h.host, "the TLS server name is the URL host (without port/brackets), never the dial_addr")
	}
}
