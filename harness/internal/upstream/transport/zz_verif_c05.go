package transport

import (
	"context"
	"github.com/IrineSistiana/mosproxy/internal/dnsmsg"
	"github.com/IrineSistiana/mosproxy/internal/verifrt"
)

// VerifH_C05_addQueueC: one step of the ID allocator from ANY valid connection state (all 65537 counter
// values at once): IDs are handed out fresh and monotone, never wrap, the waiter is registered under
// exactly its ID, other waiters are untouched.
func VerifH_C05_addQueueC() {
	c, k1, _, ch1, _, has1, _ := vPipelineConn(false, &vConn{})
	old, oldRes := c.nextQid, c.reserved
	ch := make(chan *dnsmsg.Msg, 1)
	qid, err := c.addQueueC(ch)
	if old > 65535 {
		verifrt.Reach("eol")
		verifrt.Assert(err == errPipelineConnEoL, "an exhausted connection refuses instead of wrapping")
		verifrt.Assert(c.nextQid == old, "counter unchanged at end of life")
		return
	}
	verifrt.Reach("assigned")
	verifrt.Assert(err == nil && int(qid) == old && c.nextQid == old+1, "fresh, monotone ID")
	got, ok := c.queue[uint32(qid)]
	verifrt.Assert(ok && got == ch, "waiter registered under its own ID")
	if has1 {
		verifrt.Assert(qid != k1, "an ID in use is never handed out again")
		verifrt.Assert(c.queue[uint32(k1)] == ch1, "other waiters untouched")
	}
	verifrt.Assert(c.reserved == oldRes || c.reserved == oldRes-1, "reservation consumed at most once")
	verifrt.Assert(c.reserved >= 0, "reserved never negative")
}

// VerifH_C05_deleteQueueC: removes only its own entry; retires the connection iff the IDs are used up and
// nobody is waiting.
func VerifH_C05_deleteQueueC() {
	conn := &vConn{}
	c, k1, k2, _, ch2, has1, has2 := vPipelineConn(false, conn)
	verifrt.Assume(has1)
	old := c.nextQid
	c.deleteQueueC(k1)
	verifrt.Reach("deleted")
	verifrt.Assert(c.nextQid == old, "the ID counter never moves backwards: a wire ID is used once in a connection's life")
	_, still := c.queue[uint32(k1)]
	verifrt.Assert(!still, "own entry removed")
	if has2 {
		verifrt.Assert(c.queue[uint32(k2)] == ch2, "other waiters untouched")
	}
	wantClosed := old > 65535 && !has2
	verifrt.Assert(c.closed == wantClosed, "retired exactly when IDs are exhausted and nobody waits")
	verifrt.Assert((conn.closed > 0) == wantClosed, "socket closed exactly on retirement")
}

// VerifH_C05_Available: a connection reported available can still hand out a fresh ID, also after Reserve.
func VerifH_C05_Available() {
	c, _, _, _, _, _, _ := vPipelineConn(false, &vConn{})
	st := c.Status()
	verifrt.Assert(st.Closed == c.closed, "status reports closed flag")
	if !st.Available {
		verifrt.Reach("unavailable")
		return
	}
	verifrt.Reach("available")
	verifrt.Assert(c.nextQid <= 65535, "available implies an unused ID exists")
	sum := c.nextQid + c.reserved
	c.Reserve()
	verifrt.Assert(c.nextQid+c.reserved <= 65535 || c.nextQid+c.reserved == sum, "reservations never exceed the remaining IDs")
	_, err := c.addQueueC(make(chan *dnsmsg.Msg, 1))
	verifrt.Assert(err == nil, "the reserved exchange gets an ID")
}

// VerifH_C05_write: the query goes out as a private copy carrying the assigned ID (length-prefixed on
// TCP); the caller's buffer is not modified.
func VerifH_C05_write() {
	verifrt.Unwind(40)
	conn := &vConn{}
	isTCP := verifrt.Bool("tcp")
	c, _, _, _, _, _, _ := vPipelineConn(isTCP, conn)
	m := verifrt.BytesN("m", 12+verifrt.Choose("extra", 3))
	orig := append([]byte(nil), m...)
	qid := verifrt.U16("qid")
	err := c.write(m, qid)
	verifrt.Assert(err == nil, "write on a healthy connection succeeds")
	verifrt.Reach("written")
	verifrt.Assert(verifrt.EqBytes(m, orig), "the caller's message is not modified")
	verifrt.Assert(len(conn.writes) == 1, "exactly one Write per query")
	w := conn.writes[0]
	off := 0
	if isTCP {
		verifrt.Assert(len(w) == len(m)+2 && int(w[0])<<8|int(w[1]) == len(m), "2-octet length prefix = body length")
		off = 2
	} else {
		verifrt.Assert(len(w) == len(m), "datagram = message")
	}
	verifrt.Assert(w[off] == byte(qid>>8) && w[off+1] == byte(qid), "wire ID is the assigned one")
	verifrt.Assert(verifrt.EqBytes(w[off+2:], m[2:]), "rest of the query unchanged")
}

// VerifH_C05_Deliver: the read loop (UDP framing) routes every reply only to the waiter registered under
// the reply's own ID, at most once; duplicates, unknown IDs are dropped; then the connection error wakes all.
func VerifH_C05_Deliver() {
	verifrt.Unwind(60)
	conn := &vConn{}
	c, k1, k2, ch1, ch2, has1, has2 := vPipelineConn(false, conn)
	n := 1 + verifrt.Choose("nreplies", 3)
	var ids []uint16
	for i := 0; i < n; i++ {
		id := verifrt.U16("reply.id")
		ids = append(ids, id)
		conn.reads = append(conn.reads, vReplyBytes("reply", id))
	}
	c.readLoop() // ends with io.EOF -> closeWithErr
	verifrt.Reach("loop-ended")
	verifrt.Assert(c.closed && c.ctx.Err() != nil, "a read error closes the connection and wakes every waiter")
	check := func(ch chan *dnsmsg.Msg, k uint16, has bool) {
		select {
		case r := <-ch:
			verifrt.Assert(has, "only registered waiters receive")
			verifrt.Assert(r.Header.ID == k, "a waiter only ever receives a reply carrying its own wire ID")
			sent := false
			for _, id := range ids {
				sent = verifrt.Or(sent, id == k)
			}
			verifrt.Assert(sent, "the reply was sent by the server")
			select {
			case <-ch:
				verifrt.Assert(false, "at most one reply per waiter")
			default:
			}
		default:
			if has {
				for _, id := range ids {
					verifrt.Assert(id != k, "a reply for a registered waiter is delivered")
				}
			}
		}
	}
	check(ch1, k1, has1)
	check(ch2, k2, has2)
}

type vExRes struct {
	m   *dnsmsg.Msg
	err error
}

// VerifH_C05_Concurrent: two concurrent exchanges on one UDP pipeline connection against a server that
// answers in any order, duplicates, sends unsolicited IDs, and answers after a cancellation: whoever
// returns a message returns a reply the server sent for its own wire ID, with the caller's ID restored,
// and no reply satisfies two exchanges.
func VerifH_C05_Concurrent() {
	verifrt.Unwind(80)
	conn := newVNetConn()
	t := &PipelineTransport{opts: PipelineOpts{IsTCP: false}}
	c := newPipelineConn(conn, t) // starts the read loop
	ctx1, cancel1 := verifrt.CtxWithCancel(nil)
	ctx2, _ := verifrt.CtxWithCancel(nil)
	cid := []uint16{verifrt.U16("cid1"), verifrt.U16("cid2")}
	res := []chan vExRes{make(chan vExRes, 1), make(chan vExRes, 1)}
	mk := func(i int) []byte {
		m := make([]byte, 12)
		m[0], m[1] = byte(cid[i]>>8), byte(cid[i])
		m[2] = byte(i + 1) // marks which exchange wrote the datagram
		return m
	}
	go func() { r, err := c.exchange(ctx1, mk(0)); res[0] <- vExRes{r, err} }()
	go func() { r, err := c.exchange(ctx2, mk(1)); res[1] <- vExRes{r, err} }()
	// the server (this goroutine) first receives both queries
	wire := []int{-1, -1}
	for k := 0; k < 2; k++ {
		q := <-conn.outbox
		who := int(q[2]) - 1
		verifrt.Assert(who == 0 || who == 1, "query marker intact")
		verifrt.Assert(wire[who] < 0, "one datagram per exchange")
		wire[who] = int(q[0])<<8 | int(q[1])
	}
	verifrt.Assert(wire[0] != wire[1], "concurrent exchanges get distinct wire IDs")
	// then acts: up to 3 steps
	var sentID []int
	cancelled := false
	nsteps := 2
	if verifrt.Thorough() {
		nsteps = 3
	}
	for step := 0; step < nsteps; step++ {
		switch verifrt.Choose("server.act", 5) {
		case 0: // reply to exchange 1
			sentID = append(sentID, wire[0])
		case 1: // reply to exchange 2
			sentID = append(sentID, wire[1])
		case 2: // unsolicited ID
			u := int(verifrt.U16("unsolicited"))
			verifrt.Assume(u != wire[0] && u != wire[1])
			sentID = append(sentID, u)
		case 3: // the caller of exchange 1 gives up
			if !cancelled {
				cancelled = true
				cancel1()
			}
			continue
		default:
			continue
		}
		id := sentID[len(sentID)-1]
		b := make([]byte, 12)
		b[0], b[1] = byte(id>>8), byte(id)
		b[3] = byte(len(sentID)) // reply serial number (rcode bits): identifies the reply
		conn.inbox <- b
	}
	// finally the server closes the connection: every waiter must be released
	conn.Close()
	r0 := <-res[0]
	r1 := <-res[1]
	verifrt.Reach("both-returned")
	tags := []int{0, 0}
	for i, r := range []vExRes{r0, r1} {
		if r.m == nil {
			verifrt.Assert(r.err != nil, "no message implies an error")
			continue
		}
		verifrt.Reach("got-reply")
		verifrt.Assert(r.m.Header.ID == cid[i], "caller's original ID restored")
		k := int(r.m.Header.RCode)
		verifrt.Assert(k >= 1 && k <= len(sentID) && sentID[k-1] == wire[i], "the returned message is a reply the server sent for this exchange's wire ID")
		tags[i] = k
	}
	if tags[0] != 0 && tags[1] != 0 {
		verifrt.Assert(tags[0] != tags[1], "no reply satisfies two exchanges")
	}
	// a later exchange can never be satisfied by a late reply: its wire ID is fresh
	q3, err := c.addQueueC(make(chan *dnsmsg.Msg, 1))
	if err == nil {
		verifrt.Assert(int(q3) != wire[0] && int(q3) != wire[1], "wire IDs are never reused")
	}
}

// VerifH_C05_LateReply: the reply to an exchange arrives together with (or after) that exchange's
// cancellation. Whatever the abandoned exchange did, a LATER exchange on the connection (the server never
// answers it) must not be satisfied by that reply.
func VerifH_C05_LateReply() {
	verifrt.Unwind(80)
	verifrt.SchedBound(2 + verifrt.Tier) // thorough: one more deviation from the default schedule
	conn := newVNetConn()
	t := &PipelineTransport{opts: PipelineOpts{IsTCP: verifrt.Bool("tcp")}}
	c := newPipelineConn(conn, t)
	ctxA, cancelA := verifrt.CtxWithCancel(nil)
	resA := make(chan vExRes, 1)
	go func() { r, err := c.exchange(ctxA, vQuery12(0x1111, 1)); resA <- vExRes{r, err} }()
	q := <-conn.outbox
	off := 0
	if t.opts.IsTCP {
		off = 2
	}
	wireA := int(q[off])<<8 | int(q[off+1])
	reply := []byte{byte(wireA >> 8), byte(wireA), 0x80, 0x07, 0, 0, 0, 0, 0, 0, 0, 0}
	if t.opts.IsTCP {
		reply = append([]byte{0, 12}, reply...)
	}
	if verifrt.Bool("reply-first") {
		conn.inbox <- reply
		verifrt.Quiesce() // the read loop delivers it
		cancelA()
	} else {
		cancelA()
		conn.inbox <- reply
	}
	rA := <-resA
	if rA.m != nil {
		verifrt.Reach("A-got-reply")
		verifrt.Assert(rA.m.Header.ID == 0x1111 && rA.m.Header.RCode == 7, "A's own reply")
	} else {
		verifrt.Reach("A-abandoned")
	}
	verifrt.Quiesce()
	// exchange B: never answered, gives up
	ctxB, cancelB := verifrt.CtxWithCancel(nil)
	resB := make(chan vExRes, 1)
	go func() { r, err := c.exchange(ctxB, vQuery12(0x2222, 2)); resB <- vExRes{r, err} }()
	qb := <-conn.outbox
	wireB := int(qb[off])<<8 | int(qb[off+1])
	verifrt.Assert(wireB != wireA, "fresh wire ID")
	verifrt.Quiesce()
	cancelB()
	rB := <-resB
	verifrt.Reach("B-returned")
	verifrt.Assert(rB.m == nil && rB.err != nil, "an exchange the server never answered returns no message (a late reply to an abandoned exchange cannot satisfy it)")
}

// VerifH_C05_SharedPayload: the transport never modifies the caller's query, so one packed query may be handed to
// two exchanges at the same time (retries, fan-out to several upstreams). Two concurrent exchanges with the SAME
// payload slice, a Write that can be overtaken while it is in progress (the fake yields inside Write): both
// datagrams carry distinct assigned wire IDs, the server's reply to each ID reaches one exchange each, both get the
// caller's ID back, and the shared payload is never seen modified.
func VerifH_C05_SharedPayload() {
	verifrt.Unwind(80)
	verifrt.SchedBound(2 + verifrt.Tier) // thorough: one more deviation from the default schedule
	conn := newVNetConn()
	isTCP := verifrt.Bool("tcp")
	t := &PipelineTransport{opts: PipelineOpts{IsTCP: isTCP}}
	c := newPipelineConn(conn, t)
	cid := verifrt.U16("cid")
	m := vQuery12(cid, 9)
	orig := append([]byte(nil), m...)
	res := []chan vExRes{make(chan vExRes, 1), make(chan vExRes, 1)}
	go func() { r, err := c.exchange(context.Background(), m); res[0] <- vExRes{r, err} }()
	go func() { r, err := c.exchange(context.Background(), m); res[1] <- vExRes{r, err} }()
	off := 0
	if isTCP {
		off = 2
	}
	var wire []int
	for k := 0; k < 2; k++ {
		q := <-conn.outbox
		wire = append(wire, int(q[off])<<8|int(q[off+1]))
		verifrt.Assert(q[off+3] == 9, "payload octets intact on the wire")
	}
	verifrt.Assert(wire[0] != wire[1], "the two exchanges go out under distinct wire IDs")
	verifrt.Assert(wire[0] < 2 && wire[1] < 2, "and these are the IDs the connection assigned (0 and 1)")
	for k := 0; k < 2; k++ {
		b := []byte{byte(wire[k] >> 8), byte(wire[k]), 0x80, byte(k + 1), 0, 0, 0, 0, 0, 0, 0, 0}
		if isTCP {
			b = append([]byte{0, 12}, b...)
		}
		conn.inbox <- b
	}
	r0, r1 := <-res[0], <-res[1]
	verifrt.Reach("both-returned")
	verifrt.Assert(r0.err == nil && r1.err == nil && r0.m != nil && r1.m != nil, "both exchanges are answered")
	verifrt.Assert(r0.m.Header.ID == cid && r1.m.Header.ID == cid, "both get the caller's ID back")
	verifrt.Assert(r0.m.Header.RCode != r1.m.Header.RCode, "each reply reaches exactly one exchange")
	verifrt.Assert(verifrt.EqBytes(m, orig), "the shared payload is unchanged")
}

// VerifH_C05_ConcurrentPreemptive: the registration / delivery steps are only atomic as long as each runs under one
// lock acquisition — which the step harnesses (mechanism A) assume. Here two exchanges race on one connection with a
// pre-emption possible before every lock and channel operation (≤ 2 deviations from round-robin), UDP or TCP: the two
// queries leave under distinct wire IDs, the server answers both (in either order), each exchange gets exactly the
// reply for its own wire ID with the caller's ID restored.
func VerifH_C05_ConcurrentPreemptive() {
	verifrt.Unwind(120)
	verifrt.SchedBound(2 + verifrt.Tier) // thorough: one more deviation from the default schedule
	verifrt.PreemptSync()
	verifrt.NoTimers()
	verifrt.CtxNoExpiry = true
	conn := newVNetConn()
	isTCP := verifrt.Bool("tcp")
	t := &PipelineTransport{opts: PipelineOpts{IsTCP: isTCP}}
	c := newPipelineConn(conn, t)
	cid := []uint16{verifrt.U16("cid1"), verifrt.U16("cid2")}
	res := []chan vExRes{make(chan vExRes, 1), make(chan vExRes, 1)}
	for i := 0; i < 2; i++ {
		i := i
		go func() { r, err := c.exchange(context.Background(), vQuery12(cid[i], byte(i+1))); res[i] <- vExRes{r, err} }()
	}
	off := 0
	if isTCP {
		off = 2
	}
	wire := []int{-1, -1}
	for k := 0; k < 2; k++ {
		q := <-conn.outbox
		who := int(q[off+3]) - 1
		verifrt.Assert((who == 0 || who == 1) && wire[who] < 0, "one query per exchange")
		wire[who] = int(q[off])<<8 | int(q[off+1])
	}
	verifrt.Assert(wire[0] != wire[1], "concurrent exchanges get distinct wire IDs")
	order := []int{0, 1}
	if verifrt.Bool("swapped") {
		order = []int{1, 0}
	}
	for _, who := range order {
		b := []byte{byte(wire[who] >> 8), byte(wire[who]), 0x80, byte(who + 1), 0, 0, 0, 0, 0, 0, 0, 0}
		if isTCP {
			b = append([]byte{0, 12}, b...)
		}
		conn.inbox <- b
	}
	for i := 0; i < 2; i++ {
		r := <-res[i]
		verifrt.Assert(r.err == nil && r.m != nil, "both exchanges are answered")
		verifrt.Assert(r.m.Header.ID == cid[i] && int(r.m.Header.RCode) == i+1, "each gets the reply for its own wire ID, caller's ID restored")
	}
	verifrt.Reach("both-answered")
}

// VerifH_C05_WireIDsNeverReused: "a wire ID is never reused during a connection's life" as seen ON THE WIRE, with an
// exchange in the mix that never gets its query out: exchange A's context is already over when it starts (or ends
// at any later scheduling point), or its Write fails transiently (TCP: the connection stays in service); exchanges B
// and C run concurrently with it, a pre-emption being possible before every lock / channel operation (≤ 1 deviation from round-robin, thorough ≤ 2).
// Every query that does leave carries a wire ID no other query on this connection carries, the server answers each,
// and every exchange that returns a message returns the reply for its own wire ID.
func VerifH_C05_WireIDsNeverReused() {
	verifrt.Unwind(160)
	verifrt.SchedBound(1 + verifrt.Tier)
	verifrt.PreemptSync()
	verifrt.NoTimers()
	verifrt.CtxNoExpiry = true
	conn := newVNetConn()
	isTCP := verifrt.Bool("tcp")
	off := 0
	if isTCP {
		off = 2
	}
	mode := verifrt.Choose("a-fails-by", 2) // 0: context already over, 1: Write fails (TCP only)
	if mode == 1 {
		verifrt.Assume(isTCP)
		conn.failMarker, conn.failOff = 1, 5
	}
	t := &PipelineTransport{opts: PipelineOpts{IsTCP: isTCP}}
	c := newPipelineConn(conn, t)
	c.nextQid = verifrt.IntRange("nextQid", 0, 65000)
	ctxA, cancelA := verifrt.CtxWithCancel(nil)
	if mode == 0 {
		cancelA()
	}
	res := []chan vExRes{make(chan vExRes, 1), make(chan vExRes, 1), make(chan vExRes, 1)}
	go func() { r, err := c.exchange(ctxA, vQuery12(0xA, 1)); res[0] <- vExRes{r, err} }()
	go func() { r, err := c.exchange(context.Background(), vQuery12(0xB, 2)); res[1] <- vExRes{r, err} }()
	go func() { r, err := c.exchange(context.Background(), vQuery12(0xC, 3)); res[2] <- vExRes{r, err} }()
	// the server answers every query it sees, echoing wire ID and marker
	var wire []int
	go func() {
		for {
			var q []byte
			select {
			case q = <-conn.outbox:
			case <-conn.closedCh:
				return
			}
			wire = append(wire, int(q[off])<<8|int(q[off+1]))
			r := []byte{q[off], q[off+1], 0x80, q[off+3], 0, 0, 0, 0, 0, 0, 0, 0}
			if isTCP {
				r = append([]byte{0, 12}, r...)
			}
			conn.inbox <- r
		}
	}()
	rA, rB, rC := <-res[0], <-res[1], <-res[2]
	verifrt.Reach("all-returned")
	if rA.m != nil {
		verifrt.Assert(mode == 0 && rA.err == nil && rA.m.Header.ID == 0xA && rA.m.Header.RCode == 1, "exchange A may still be answered (its query can leave before its context is looked at): then with its own reply")
	}
	verifrt.Assert(rB.err == nil && rB.m != nil && rB.m.Header.ID == 0xB && rB.m.Header.RCode == 2, "exchange B gets the reply to its own query")
	verifrt.Assert(rC.err == nil && rC.m != nil && rC.m.Header.ID == 0xC && rC.m.Header.RCode == 3, "exchange C gets the reply to its own query")
	for i := range wire {
		for j := 0; j < i; j++ {
			verifrt.Assert(wire[i] != wire[j], "no two queries of one connection ever carry the same wire ID")
		}
	}
	_ = cancelA
}

// VerifH_C04_PipelinedLateReply: the scenario of C05_LateReply under the no-mix-up property: a reply that arrives
// together with (or after) its exchange's cancellation must never be handed to a LATER exchange on the transport —
// that exchange would return another query's answer under its own ID.
func VerifH_C04_PipelinedLateReply() { VerifH_C05_LateReply() }


// VerifH_C04_WireIDsAreNeverReissued: on a multiplexed connection the wire ID is the ONLY thing that pairs a reply with
// its query (nothing compares questions), so "never mixed up" rests on an ID being issued once per connection: the
// allocator and the retirement step from any valid state (the step harnesses of C05, registered under the no-mix-up
// property as well): fresh monotone IDs, refusal instead of wrapping, the counter never moves backwards, the connection is
// retired when the space is used up and drained.
func VerifH_C04_WireIDsAreNeverReissued() {
	if verifrt.Bool("step.delete") {
		VerifH_C05_deleteQueueC()
	} else {
		VerifH_C05_addQueueC()
	}
}
