package transport

import (
	"context"
	"net"

	"github.com/IrineSistiana/mosproxy/internal/dnsmsg"
	"github.com/IrineSistiana/mosproxy/internal/verifrt"
	"github.com/quic-go/quic-go"
)

// vHostileReply: whatever a hostile upstream may put where a DNS message is expected: a header with arbitrary flag
// octets, one section count set to 1 (or none) so that each of the decoder's section loops is entered, followed by
// nBody arbitrary octets. wireID is placed in the ID field unless the solver prefers a foreign ID.
func vHostileReply(tag string, wireID uint16, nBody int, anyID bool) []byte {
	b := make([]byte, 12)
	id := wireID
	if anyID && verifrt.Bool(tag+".other-id") {
		id = verifrt.U16(tag + ".id")
	}
	b[0], b[1] = byte(id>>8), byte(id)
	b[2], b[3] = verifrt.Byte(tag+".f0"), verifrt.Byte(tag+".f1")
	if sec := verifrt.Choose(tag+".sec", 5); sec < 4 {
		b[5+2*sec] = 1
	}
	return append(b, verifrt.BytesN(tag+".body", nBody)...)
}

// vCut: the message cut anywhere (also inside the header): datagrams and HTTP bodies have no length field to lie.
func vCut(tag string, b []byte) []byte { return b[:verifrt.Choose(tag+".cut", len(b)+1)] }

func vBodyLen() int {
	if verifrt.Thorough() {
		return 4
	}
	return 2
}

// VerifH_C01_UpstreamReply_S5: arbitrary octets arriving where an upstream reply is expected, on every transport.
// Nothing panics or reads out of range; the exchange ends with a message or an error (never hangs although the
// caller has no deadline); the message, when there is one, decoded from what the server sent and carries the
// caller's ID; and the transport still serves the next exchange from a healthy server.
//
//	shard 0  pipelined UDP: an undecodable / foreign datagram is dropped, the genuine reply that follows is delivered
//	shard 1  pipelined TCP/DoT: a frame with a lying length prefix in two segments, then FIN
//	shard 2  one-at-a-time TCP/DoT: the same, then a second exchange on a fresh connection
//	shard 3  DoQ stream: the same on a stream
//	shard 4  DoH: arbitrary 200-body
func VerifH_C01_UpstreamReply_S5() {
	verifrt.Unwind(80)
	verifrt.SchedBound(0) // the input space is the subject here; schedules are explored by C05/C06/C14
	verifrt.CtxNoExpiry = true
	cid := verifrt.U16("cid")
	switch verifrt.Shard() {
	case 0:
		conn := newVNetConn()
		t := &PipelineTransport{opts: PipelineOpts{IsTCP: false}}
		c := newPipelineConn(conn, t)
		res := make(chan vExRes, 1)
		go func() { r, err := c.exchange(context.Background(), vQuery12(cid, 1)); res <- vExRes{r, err} }()
		q := <-conn.outbox
		wire := uint16(q[0])<<8 | uint16(q[1])
		g := vCut("g", vHostileReply("g", wire, vBodyLen(), true))
		verifrt.Assume(len(g) > 0) // an empty datagram cannot be told from EOF through net.Conn.Read
		conn.inbox <- g
		conn.inbox <- []byte{byte(wire >> 8), byte(wire), 0x80, 0x05, 0, 0, 0, 0, 0, 0, 0, 0}
		r := <-res
		verifrt.Reach("udp-returned")
		verifrt.Assert(r.err == nil && r.m != nil, "UDP: a hostile datagram does not fail the exchange; the genuine reply is delivered")
		verifrt.Assert(r.m.Header.ID == cid, "caller's ID restored")
		if r.m.Header.RCode != 5 {
			verifrt.Reach("udp-hostile-accepted")
			verifrt.Assert(len(g) >= 12 && uint16(g[0])<<8|uint16(g[1]) == wire, "only a decodable datagram with the exchange's wire ID can stand in for the reply")
		}
		verifrt.Assert(!c.closed, "the UDP socket stays in service")
	case 1:
		conn := newVNetConn()
		t := &PipelineTransport{opts: PipelineOpts{IsTCP: true}}
		c := newPipelineConn(conn, t)
		res := make(chan vExRes, 1)
		go func() { r, err := c.exchange(context.Background(), vQuery12(cid, 1)); res <- vExRes{r, err} }()
		q := <-conn.outbox
		wire := uint16(q[2])<<8 | uint16(q[3])
		vSendHostileFrame(conn, "g", wire, true)
		conn.Close()
		r := <-res
		verifrt.Reach("tcp-returned")
		vCheckStreamOutcome(r, cid)
	case 2:
		first := true
		var conn1 *vNetConn
		t := NewReuseConnTransport(ReuseConnOpts{DialContext: func(ctx context.Context) (net.Conn, error) {
			c := newVNetConn()
			if first {
				first = false
				conn1 = c
				go func() {
					<-c.outbox
					vSendHostileFrame(c, "g", cid, false)
					c.Close()
				}()
			} else {
				go vServePlain(c)
			}
			return c, nil
		}})
		r, err := t.ExchangeContext(context.Background(), vQuery12(cid, 5))
		verifrt.Reach("reuse-returned")
		vCheckStreamOutcome(vExRes{r, err}, cid)
		_ = conn1
		verifrt.Quiesce()
		id2 := verifrt.U16("id2")
		r2, err2 := t.ExchangeContext(context.Background(), vQuery12(id2, 6))
		verifrt.Reach("reuse-second")
		if err2 != nil {
			// the first connection may have been kept (its frame decoded) and is now found closed by the server:
			// a reused connection is retried, so the healthy server must still be reached
			verifrt.Assert(false, "after hostile input the next exchange reaches the healthy server")
		}
		verifrt.Assert(r2 != nil && r2.Header.ID == id2 && r2.Header.RCode == 6, "and gets the reply to its own query")
	case 3:
		qc := newVQuicConn()
		n := 0
		qc.serveFunc = func(c *vNetConn) {
			n++
			if n == 1 {
				<-c.outbox
				vSendHostileFrame(c, "g", 0, false)
				c.Close()
				return
			}
			vServePlain(c)
		}
		t := NewQuicTransport(QuicTransportOpts{DialContext: func(ctx context.Context) (quic.Connection, error) { return qc, nil }})
		r, err := t.ExchangeContext(context.Background(), vQuery12(cid, 5))
		verifrt.Reach("quic-returned")
		vCheckStreamOutcome(vExRes{r, err}, cid)
		verifrt.Quiesce()
		id2 := verifrt.U16("id2")
		r2, err2 := t.ExchangeContext(context.Background(), vQuery12(id2, 6))
		verifrt.Reach("quic-second")
		verifrt.Assert(err2 == nil && r2 != nil, "after hostile input the next exchange is still served")
		verifrt.Assert(r2.Header.ID == id2 && r2.Header.RCode == 6, "and gets the reply to its own query")
	default:
		srv := &vDoHServer{status: 200}
		srv.reply = vCut("g", vHostileReply("g", 0, vBodyLen(), false))
		t := vDoH(srv)
		r, err := t.ExchangeContext(context.Background(), vQuery12(cid, 5))
		verifrt.Reach("doh-returned")
		vCheckStreamOutcome(vExRes{r, err}, cid)
		srv.reply = []byte{0, 0, 0x80, 0x06, 0, 0, 0, 0, 0, 0, 0, 0}
		id2 := verifrt.U16("id2")
		r2, err2 := t.ExchangeContext(context.Background(), vQuery12(id2, 6))
		verifrt.Reach("doh-second")
		verifrt.Assert(err2 == nil && r2 != nil && r2.Header.ID == id2 && r2.Header.RCode == 6, "after a hostile body the next exchange is still served")
	}
}

// vSendHostileFrame pushes a length-prefixed frame whose prefix lies: any declared length 0..20 in front of a
// 12+n octet body (shorter: the decoder sees a truncated message; longer: the stream ends inside the frame), sent
// whole, cut inside the prefix, or cut inside the body.
func vSendHostileFrame(c *vNetConn, tag string, wireID uint16, anyID bool) {
	g := vHostileReply(tag, wireID, vBodyLen(), anyID)
	l := verifrt.IntRange(tag+".declared", 0, 20)
	l = verifrt.Concrete(l)
	f := append([]byte{0, byte(l)}, g...)
	if l < len(g) {
		f = f[:2+l] // (what follows a short frame would be read as the next frame's prefix: the same code path again)
	}
	seg := 0
	if l >= len(g) {
		seg = verifrt.Choose(tag+".seg", 3) // segmentation matters to the frame reader, not to the decoder
	}
	switch seg {
	case 0:
		c.inbox <- f
	case 1:
		c.inbox <- f[:1]
		c.inbox <- f[1:]
	default:
		k := 9
		if k > len(f) {
			k = len(f)
		}
		c.inbox <- f[:k]
		if k < len(f) {
			c.inbox <- f[k:]
		}
	}
}

// vServePlain answers every query on the connection with one unsplit reply echoing ID and marker.
func vServePlain(c *vNetConn) {
	for {
		var q []byte
		select {
		case q = <-c.outbox:
		case <-c.closedCh:
			return
		}
		if len(q) < 14 {
			continue
		}
		c.inbox <- []byte{0, 12, q[2], q[3], 0x80, q[5] & 0xF, 0, 0, 0, 0, 0, 0, 0, 0}
	}
}

func vCheckStreamOutcome(r vExRes, cid uint16) {
	if r.m == nil {
		verifrt.Reach("rejected")
		verifrt.Assert(r.err != nil, "no message implies an error")
		return
	}
	verifrt.Reach("accepted")
	verifrt.Assert(r.err == nil, "a message comes without an error")
	_ = dnsmsg.ReleaseMsg
}
