package transport

import (
	"context"
	"errors"
	"io"
	"net"
	"os"
	"syscall"
	"time"

	"github.com/IrineSistiana/mosproxy/internal/dnsmsg"
	"github.com/IrineSistiana/mosproxy/internal/verifrt"
)

type vAddr struct{}

func (vAddr) Network() string { return "fake" }
func (vAddr) String() string  { return "fake" }

var errVConn = errors.New("fake connection failure")

// vConn is a scripted net.Conn for sequential harnesses: Read hands out the scripted segments one per
// call (then io.EOF), Write records what was written (and may fail when failWrites is set).
type vConn struct {
	reads      [][]byte
	readPos    int
	writes     [][]byte
	closed     int
	failWrites bool
}

func (c *vConn) Read(p []byte) (int, error) {
	if c.closed > 0 {
		return 0, errVConn
	}
	if c.readPos >= len(c.reads) {
		return 0, io.EOF
	}
	n := copy(p, c.reads[c.readPos])
	if n == len(c.reads[c.readPos]) {
		c.readPos++
	} else {
		c.reads[c.readPos] = c.reads[c.readPos][n:]
	}
	return n, nil
}

func (c *vConn) Write(p []byte) (int, error) {
	if c.closed > 0 {
		return 0, errVConn
	}
	if c.failWrites && verifrt.Bool("conn.writefail") {
		return 0, errVConn
	}
	c.writes = append(c.writes, append([]byte(nil), p...))
	return len(p), nil
}

func (c *vConn) Close() error                       { c.closed++; return nil }
func (c *vConn) LocalAddr() net.Addr                { return vAddr{} }
func (c *vConn) RemoteAddr() net.Addr               { return vAddr{} }
func (c *vConn) SetDeadline(t time.Time) error      { return c.dlErr() }
func (c *vConn) SetReadDeadline(t time.Time) error  { return c.dlErr() }
func (c *vConn) SetWriteDeadline(t time.Time) error { return c.dlErr() }
func (c *vConn) dlErr() error {
	if c.closed > 0 {
		return errVConn
	}
	return nil
}

// vPipelineConn builds a pipelineConn in an arbitrary state satisfying the representation invariant:
// 0 <= nextQid <= 65536, reserved >= 0, every registered ID < nextQid. The waiter table holds up to two
// explicit entries (arbitrary distinct IDs) – by symmetry they stand for any other waiters.
func vPipelineConn(isTCP bool, conn net.Conn) (c *pipelineConn, k1, k2 uint16, ch1, ch2 chan *dnsmsg.Msg, has1, has2 bool) {
	ctx, cancel := context.WithCancelCause(context.Background())
	t := &PipelineTransport{opts: PipelineOpts{IsTCP: isTCP}}
	c = &pipelineConn{c: conn, t: t, ctx: ctx, cancelCause: cancel, queue: make(map[uint32]chan *dnsmsg.Msg)}
	c.nextQid = verifrt.IntRange("nextQid", 0, 65536)
	c.reserved = verifrt.IntRange("reserved", 0, 65536)
	k1, k2 = verifrt.U16("k1"), verifrt.U16("k2")
	has1, has2 = verifrt.Bool("has1"), verifrt.Bool("has2")
	ch1, ch2 = make(chan *dnsmsg.Msg, 1), make(chan *dnsmsg.Msg, 1)
	if has1 {
		verifrt.Assume(int(k1) < c.nextQid)
		c.queue[uint32(k1)] = ch1
	}
	if has2 {
		verifrt.Assume(int(k2) < c.nextQid && (!has1 || k2 != k1))
		c.queue[uint32(k2)] = ch2
	}
	return
}

// vReplyBytes: a minimal decodable DNS message (header only) with the given ID and arbitrary flags.
func vReplyBytes(tag string, id uint16) []byte {
	b := make([]byte, 12)
	b[0], b[1] = byte(id>>8), byte(id)
	b[2], b[3] = verifrt.Byte(tag+".f0"), verifrt.Byte(tag+".f1")
	return b
}

// vNetConn is the channel-based fake for scheduler (mechanism B) scenarios: Read blocks until the scripted
// server pushes a segment (or the connection is closed), Write hands the bytes to the server side.
type vNetConn struct {
	inbox    chan []byte
	outbox   chan []byte
	closedCh chan struct{}
	closed   bool
	nWrites  int
	// ghost: queries written but not yet completely answered, and whether a partial/failed read happened
	outstanding int
	dirty       bool
	pend        []byte
	consumed    int
	checkClean  bool
	violated    bool
	// I/O deadline: when deadlines is set, every SetDeadline arms a timer that may fire at any later
	// scheduling point; a blocked or later Read then fails with a timeout error (net.Error, Timeout() == true)
	deadlines bool
	dl        chan struct{} // closed when the current deadline has struck
	dlFired   bool
	dlGen     int
	// the peer reset the connection while it was idle: the next Write fails (EPIPE) although the blocked Read has
	// not been woken yet; the Write after that finds the reset delivered to the reader as well
	rst       bool
	rstWrites int
	rstCh     chan struct{} // closed when the reset is delivered to the reader
	// the peer closed its side (FIN) while our side is still open: reads hit end-of-stream once the data is drained
	fin chan struct{}
	fd  int
	// failMarker: the Write of the query carrying this marker octet fails without harming the connection
	failMarker byte
	failOff    int // offset of the marker octet in what is written (3 for datagrams, 5 behind a length prefix)
	// pastDeadlines: a deadline that is not in the future when it is set (SetReadDeadline(time.Now()), the idiom for
	// waking a blocked reader) strikes at once — deterministically, unlike the future deadlines armed by `deadlines`.
	// Only meaningful under a harness-controlled (concrete) clock.
	pastDeadlines bool
	// clocked: deadlines are kept as instants and strike when the harness-controlled clock has reached them and the
	// harness calls Tick() (quantitative time: "no data for the idle time-out"), instead of "at any scheduling point"
	clocked bool
	dlAt    time.Time
	// Close takes time (e.g. a TLS close_notify to a stalled peer): other goroutines run while it is in progress
	slowClose bool
}

type vTimeoutErr struct{}

func (vTimeoutErr) Error() string   { return "i/o timeout" }

// like the *net.OpError a real socket returns when its deadline strikes: errors.Is(err, os.ErrDeadlineExceeded) holds
func (vTimeoutErr) Unwrap() error { return os.ErrDeadlineExceeded }
func (vTimeoutErr) Timeout() bool   { return true }
func (vTimeoutErr) Temporary() bool { return true }

func newVNetConn() *vNetConn {
	return &vNetConn{inbox: make(chan []byte, 8), outbox: make(chan []byte, 8), closedCh: make(chan struct{}), rstCh: make(chan struct{}), dl: make(chan struct{}), fin: make(chan struct{})}
}

func (c *vNetConn) Read(p []byte) (int, error) {
	if len(c.pend) == 0 {
		select {
		case b := <-c.inbox:
			c.pend = b
		case <-c.closedCh:
			return 0, errVConn
		case <-c.rstCh:
			return 0, errVConn
		case <-c.fin:
			return 0, io.EOF
		case <-c.dl: // closed when the deadline in force strikes (also while this Read is already blocked)
			return 0, vTimeoutErr{}
		}
	}
	n := copy(p, c.pend)
	c.pend = c.pend[n:]
	c.consumed += n
	return n, nil
}

func (c *vNetConn) Write(p []byte) (int, error) {
	if c.closed {
		return 0, errVConn
	}
	if c.rst {
		c.rstWrites++
		if c.rstWrites == 2 {
			// by now the reset has reached the reader too; under any fair scheduler the reader gets to run (and its
			// owner closes the connection) before this writer can come back a third time
			close(c.rstCh)
			<-c.closedCh
		}
		return 0, errVConn
	}
	verifrt.Yield() // a Write in progress: other goroutines may run before the bytes are actually taken
	if c.failMarker != 0 && len(p) > c.failOff && p[c.failOff] == c.failMarker {
		return 0, errVConn // a transient send failure (ENOBUFS, EMSGSIZE, …): nothing left the host, the socket stays usable
	}
	// one-at-a-time discipline (C06): every earlier query's 14-octet reply has been consumed completely
	if c.checkClean && c.consumed != 14*c.nWrites {
		c.violated = true
	}
	c.nWrites++
	c.outbox <- append([]byte(nil), p...)
	return len(p), nil
}

func (c *vNetConn) Close() error {
	if c.slowClose && !c.closed {
		verifrt.Yield()
	}
	if !c.closed {
		c.closed = true
		close(c.closedCh)
	}
	return nil
}
func (c *vNetConn) LocalAddr() net.Addr  { return vAddr{} }
func (c *vNetConn) RemoteAddr() net.Addr { return vAddr{} }
func (c *vNetConn) SetDeadline(t time.Time) error {
	if c.closed {
		return errVConn
	}
	// a new deadline replaces the previous one: a timer armed for the old one no longer counts, and a deadline that has
	// struck is forgotten
	c.dlGen++
	if c.dlFired {
		c.dl = make(chan struct{})
		c.dlFired = false
	}
	if c.clocked {
		c.dlAt = t
		if !t.IsZero() && !t.After(time.Now()) {
			c.dlFired = true
			close(c.dl)
		}
		return nil
	}
	if t.IsZero() {
		return nil
	}
	if c.pastDeadlines && !t.After(time.Now()) {
		c.dlFired = true
		close(c.dl) // wakes a reader that is already blocked, like a real socket
		return nil
	}
	if c.deadlines {
		d, g := c.dl, c.dlGen
		go func() { // the deadline strikes whenever this goroutine is scheduled
			if c.dlGen == g && !c.dlFired {
				c.dlFired = true
				close(d)
			}
		}()
	}
	return nil
}
func (c *vNetConn) SetReadDeadline(t time.Time) error  { return c.SetDeadline(t) }
func (c *vNetConn) SetWriteDeadline(t time.Time) error { return c.SetDeadline(t) }

// Tick: the harness has advanced its clock: a deadline in force whose instant has been reached strikes now.
func (c *vNetConn) Tick() {
	if c.clocked && !c.closed && !c.dlFired && !c.dlAt.IsZero() && !c.dlAt.After(time.Now()) {
		c.dlFired = true
		close(c.dl)
	}
}

// PeerClose: the server closes its side of the connection (FIN); our side stays open until somebody closes it.
func (c *vNetConn) PeerClose() { close(c.fin) }

// ---- the descriptor side of the fake: like a *net.TCPConn it implements syscall.Conn, so code that probes the raw
// socket (non-blocking 1-byte read to see whether the peer has gone) runs against the fake's state. syscall.Read on a
// fake descriptor is modelled by VerifModel_syscall_Read (a package-level default model picked up by the engine).

var vFDs []*vNetConn

func (c *vNetConn) SyscallConn() (syscall.RawConn, error) {
	if c.fd == 0 {
		vFDs = append(vFDs, c)
		c.fd = 1000 + len(vFDs)
	}
	return &vRawConn{c}, nil
}

type vRawConn struct{ c *vNetConn }

func (r *vRawConn) Control(f func(fd uintptr)) error {
	if r.c.closed {
		return errVConn
	}
	f(uintptr(r.c.fd))
	return nil
}
func (r *vRawConn) Read(f func(fd uintptr) bool) error {
	if r.c.closed {
		return errVConn
	}
	f(uintptr(r.c.fd)) // (a callback that reports "not ready" would make the real RawConn wait; the probes never do)
	return nil
}
func (r *vRawConn) Write(f func(fd uintptr) bool) error { return r.Read(f) }

// VerifModel_syscall_Read: non-blocking read on a fake descriptor: buffered data, else 0 / nil at end-of-stream (the peer
// sent FIN), else EAGAIN.
func VerifModel_syscall_Read(fd int, p []byte) (int, error) {
	i := fd - 1001
	if i < 0 || i >= len(vFDs) {
		return -1, syscall.EBADF
	}
	c := vFDs[i]
	if c.closed {
		return -1, syscall.EBADF
	}
	if len(c.pend) == 0 {
		select {
		case b := <-c.inbox:
			c.pend = b
		default:
		}
	}
	if len(c.pend) > 0 {
		n := copy(p, c.pend)
		c.pend = c.pend[n:]
		c.consumed += n
		return n, nil
	}
	select {
	case <-c.fin:
		return 0, nil
	default:
	}
	return -1, syscall.EAGAIN
}
