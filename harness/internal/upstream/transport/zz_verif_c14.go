package transport

import (
	"context"
	"net"
	"net/http"
	"time"

	"github.com/IrineSistiana/mosproxy/internal/dnsmsg"
	"github.com/IrineSistiana/mosproxy/internal/verifrt"
	"github.com/quic-go/quic-go"
)

// ---- fake QUIC connection / stream (only the methods the transport uses are implemented)

type vQuicStream struct {
	quic.Stream
	c       *vNetConn
	cancels int
	closes  int
}

func (s *vQuicStream) Write(p []byte) (int, error) { return s.c.Write(p) }
func (s *vQuicStream) Read(p []byte) (int, error)  { return s.c.Read(p) }
func (s *vQuicStream) Close() error                { s.closes++; return nil }
func (s *vQuicStream) CancelRead(quic.StreamErrorCode) {
	s.cancels++
	s.c.Close()
}
func (s *vQuicStream) CancelWrite(quic.StreamErrorCode) { s.cancels++ }

type vQuicConn struct {
	quic.Connection
	ctx       context.Context
	cancel    context.CancelFunc
	streams   []*vQuicStream
	failOpen  bool
	noStreams bool // the peer's concurrent-stream allowance is used up (and stays so: its streams are never answered)
	closed    int
	serveFunc func(c *vNetConn)
}

func newVQuicConn() *vQuicConn {
	ctx, cancel := verifrt.CtxWithCancel(nil)
	return &vQuicConn{ctx: ctx, cancel: cancel}
}

// OpenStream never blocks: with the allowance used up it fails at once ("too many open streams").
func (c *vQuicConn) OpenStream() (quic.Stream, error) {
	if c.closed > 0 || c.noStreams || (c.failOpen && verifrt.Bool("quic.openfail")) {
		return nil, errVConn
	}
	nc := newVNetConn()
	if c.serveFunc != nil {
		go c.serveFunc(nc)
	}
	s := &vQuicStream{c: nc}
	c.streams = append(c.streams, s)
	return s, nil
}

// OpenStreamSync blocks until a stream can be opened, the given context ends or the connection dies (quic-go).
func (c *vQuicConn) OpenStreamSync(ctx context.Context) (quic.Stream, error) {
	if !c.noStreams {
		return c.OpenStream()
	}
	select {
	case <-ctx.Done():
		return nil, ctx.Err()
	case <-c.ctx.Done():
		return nil, errVConn
	}
}
func (c *vQuicConn) Context() context.Context { return c.ctx }
func (c *vQuicConn) CloseWithError(quic.ApplicationErrorCode, string) error {
	c.closed++
	c.cancel()
	return nil
}
func (c *vQuicConn) LocalAddr() net.Addr  { return vAddr{} }
func (c *vQuicConn) RemoteAddr() net.Addr { return vAddr{} }

func vQuery12(id uint16, marker byte) []byte {
	m := make([]byte, 12)
	m[0], m[1] = byte(id>>8), byte(id)
	m[3] = marker
	return m
}

// VerifH_C14_RetryBudgetReuse: one-at-a-time TCP transport against connections that all fail: the number
// of attempts is bounded; a failure on a freshly dialled connection is returned, not retried.
func VerifH_C14_RetryBudgetReuse() {
	verifrt.Unwind(80)
	verifrt.SchedBound(0)
	dials := 0
	t := NewReuseConnTransport(ReuseConnOpts{DialContext: func(ctx context.Context) (net.Conn, error) {
		dials++
		c := newVNetConn()
		go func() { <-c.outbox; c.Close() }() // server accepts the query and closes the connection
		return c, nil
	}})
	// k idle (stale) connections are in the pool: the server closes each as soon as it is used
	k := verifrt.Choose("stale", 9)
	var stale []*vNetConn
	for i := 0; i < k; i++ {
		c := newVNetConn()
		cc := c
		go func() { <-cc.outbox; cc.Close() }()
		rc := newReusableConn(c, 0)
		t.conns[rc] = struct{}{}
		t.idleConns[rc] = struct{}{}
		stale = append(stale, c)
	}
	r, err := t.ExchangeContext(context.Background(), vQuery12(7, 1))
	verifrt.Reach("returned")
	verifrt.Assert(r == nil && err != nil, "all connections fail: an error is returned")
	used := 0
	for _, c := range stale {
		used += c.nWrites
	}
	verifrt.Assert(used <= 7, "at most 7 attempts on reused connections")
	verifrt.Assert(dials <= 1, "a failure on a freshly dialled connection is reported, not retried")
	if k <= 6 {
		verifrt.Assert(dials == 1, "after the stale connections a fresh one is tried")
	}
}

// VerifH_C14_StaleThenHealthy: a stale pooled connection fails, the healthy server is reached on a fresh
// connection and the call returns that reply.
func VerifH_C14_StaleThenHealthy() {
	verifrt.Unwind(80)
	verifrt.SchedBound(1 + verifrt.Tier) // thorough: one more deviation from the default schedule
	t := NewReuseConnTransport(ReuseConnOpts{DialContext: func(ctx context.Context) (net.Conn, error) {
		c := newVNetConn()
		go vServe(c)
		return c, nil
	}})
	k := 1 + verifrt.Choose("stale", 3)
	for i := 0; i < k; i++ {
		c := newVNetConn()
		cc := c
		if verifrt.Bool("stale.closedAlready") {
			cc.Close()
		} else {
			go func() { <-cc.outbox; cc.Close() }()
		}
		rc := newReusableConn(c, 0)
		t.conns[rc] = struct{}{}
		t.idleConns[rc] = struct{}{}
	}
	id := verifrt.U16("id")
	r, err := t.ExchangeContext(context.Background(), vQuery12(id, 5))
	verifrt.Reach("returned")
	verifrt.Assert(err == nil && r != nil, "a healthy server is reached after stale pooled connections")
	verifrt.Assert(r.Header.ID == id && r.Header.RCode == 5, "and the reply is the one to this query")
}

// VerifH_C14_CallerDeadline: whatever the server does (never completes the dial, stays silent), the call
// returns once the caller's context is done – the calling goroutine is never blocked forever.
func VerifH_C14_CallerDeadline_S3() {
	verifrt.Unwind(80)
	verifrt.SchedBound(2 + verifrt.Tier) // thorough: one more deviation from the default schedule
	never := make(chan struct{})
	// 0: dial never completes, 1: connects and stays silent, 2 (QUIC): connects, but the peer's stream allowance is used up
	mode := verifrt.Choose("server", 3)
	ctx, cancel := verifrt.CtxWithCancel(nil)
	go cancel() // the deadline strikes at some point
	var tr Transport
	switch verifrt.Shard() {
	case 0:
		tr = NewReuseConnTransport(ReuseConnOpts{DialContext: func(dctx context.Context) (net.Conn, error) {
			if mode == 0 {
				select {
				case <-never:
				case <-dctx.Done():
				}
				return nil, errVConn
			}
			return newVNetConn(), nil
		}})
	case 1:
		tr = NewPipelineTransport(PipelineOpts{IsTCP: verifrt.Bool("tcp"), DialContext: func(dctx context.Context) (net.Conn, error) {
			if mode == 0 {
				select {
				case <-never:
				case <-dctx.Done():
				}
				return nil, errVConn
			}
			return newVNetConn(), nil
		}})
	default:
		tr = NewQuicTransport(QuicTransportOpts{DialContext: func(dctx context.Context) (quic.Connection, error) {
			if mode == 0 {
				select {
				case <-never:
				case <-dctx.Done():
				}
				return nil, errVConn
			}
			qc := newVQuicConn()
			qc.noStreams = mode == 2
			return qc, nil
		}})
	}
	r, err := tr.ExchangeContext(ctx, vQuery12(1, 1))
	verifrt.Reach("returned")
	verifrt.Assert(r == nil && err != nil, "a silent server yields an error when the caller's context ends")
}

// VerifH_C14_ConnDeathWakesWaiters: when a pipelined connection dies every exchange waiting on it is
// released at once (it does not wait for its own deadline).
func VerifH_C14_ConnDeathWakesWaiters() {
	verifrt.Unwind(80)
	verifrt.SchedBound(1 + verifrt.Tier) // thorough: one more deviation from the default schedule
	conn := newVNetConn()
	isTCP := verifrt.Bool("tcp")
	t := &PipelineTransport{opts: PipelineOpts{IsTCP: isTCP}}
	c := newPipelineConn(conn, t)
	res := make(chan error, 2)
	go func() { _, err := c.exchange(context.Background(), vQuery12(1, 1)); res <- err }()
	go func() { _, err := c.exchange(context.Background(), vQuery12(2, 2)); res <- err }()
	<-conn.outbox
	<-conn.outbox
	if isTCP && verifrt.Bool("garbage") {
		conn.inbox <- []byte{0, 3, 1, 2, 3} // a frame that cannot be decoded (on UDP a bad datagram is just dropped)
	} else {
		conn.Close() // reset / FIN
	}
	e1 := <-res
	e2 := <-res
	verifrt.Reach("released")
	verifrt.Assert(e1 != nil && e2 != nil, "both waiters fail promptly when the connection dies")
}

// ---- DoH

type vRoundTripper struct{ calls int }

func (rt *vRoundTripper) RoundTrip(*http.Request) (*http.Response, error) {
	rt.calls++
	return nil, errVConn
}

type vCloser struct{ n int }

func (c *vCloser) Close() error { c.n++; return nil }

var _ = dnsmsg.NewMsg

// VerifH_C14_JoinedDial: two exchanges share one pending dial that never completes; each has its own
// deadline. Both must return when their own context ends (the one that joined the dial as well).
func VerifH_C14_JoinedDial_S3() {
	verifrt.Unwind(80)
	verifrt.SchedBound(2 + verifrt.Tier) // thorough: one more deviation from the default schedule
	never := make(chan struct{})
	stall := func(dctx context.Context) {
		select {
		case <-never:
		case <-dctx.Done():
		}
	}
	var tr Transport
	switch verifrt.Shard() {
	case 0:
		tr = NewQuicTransport(QuicTransportOpts{DialContext: func(dctx context.Context) (quic.Connection, error) {
			stall(dctx)
			return nil, errVConn
		}})
	case 1:
		tr = NewPipelineTransport(PipelineOpts{IsTCP: true, MaxConcurrentQuery: 4, DialContext: func(dctx context.Context) (net.Conn, error) {
			stall(dctx)
			return nil, errVConn
		}})
	default:
		tr = NewReuseConnTransport(ReuseConnOpts{DialContext: func(dctx context.Context) (net.Conn, error) {
			stall(dctx)
			return nil, errVConn
		}})
	}
	verifrt.CtxNoExpiry = true // only the callers' own deadlines strike in this scenario
	ctx1, cancel1 := verifrt.CtxWithCancel(nil)
	ctx2, cancel2 := verifrt.CtxWithCancel(nil)
	res := make(chan error, 2)
	go func() { _, err := tr.ExchangeContext(ctx1, vQuery12(1, 1)); res <- err }()
	go func() { _, err := tr.ExchangeContext(ctx2, vQuery12(2, 2)); res <- err }()
	verifrt.Quiesce() // both are now waiting for the dial
	cancel1()
	cancel2()
	e1 := <-res
	e2 := <-res
	verifrt.Reach("both-returned")
	verifrt.Assert(e1 != nil && e2 != nil, "both exchanges return an error once their own context ends")
}

// VerifH_C14_StaleWriteFirst: a pooled pipelined TCP connection is reset by the server while idle, and the next
// query's Write notices it before the connection's read loop does (so the connection does not look closed yet).
// A healthy server is reachable: the exchange must still be retried and succeed, on a fresh connection.
func VerifH_C14_StaleWriteFirst() {
	verifrt.Unwind(80)
	verifrt.SchedBound(1 + verifrt.Tier) // thorough: one more deviation from the default schedule
	var conns []*vNetConn
	t := NewPipelineTransport(PipelineOpts{IsTCP: true, DialContext: func(ctx context.Context) (net.Conn, error) {
		c := newVNetConn()
		conns = append(conns, c)
		go vServe(c)
		return c, nil
	}})
	r, err := t.ExchangeContext(context.Background(), vQuery12(1, 4))
	verifrt.Assert(err == nil && r.Header.ID == 1 && r.Header.RCode == 4 && len(conns) == 1, "warm-up exchange on the first connection")
	conns[0].rst = true // RST while the connection sits idle in the pool
	r, err = t.ExchangeContext(context.Background(), vQuery12(2, 6))
	verifrt.Reach("returned")
	verifrt.Assert(err == nil && r != nil, "a stale pooled connection is survived: the query is retried while a healthy server is reachable")
	verifrt.Assert(r.Header.ID == 2 && r.Header.RCode == 6, "and answered with the reply to this query")
	verifrt.Assert(len(conns) == 2, "on a fresh connection")
}

// VerifH_C14_ParkedDialThenStale: exchange A gives up while its dial is still running; the dial completes anyway and
// the connection is parked in the idle pool without ever having carried a query. The server drops it while it sits
// there. Exchange B picks it up: like any other stale pooled connection it must be survived — B is retried on a
// fresh connection and answered.
func VerifH_C14_ParkedDialThenStale() {
	verifrt.Unwind(80)
	verifrt.SchedBound(1 + verifrt.Tier) // thorough: one more deviation from the default schedule
	var conns []*vNetConn
	gate := make(chan struct{})
	t := NewReuseConnTransport(ReuseConnOpts{DialContext: func(ctx context.Context) (net.Conn, error) {
		if len(conns) == 0 {
			<-gate // the first dial is slow
		}
		c := newVNetConn()
		conns = append(conns, c)
		go vServe(c)
		return c, nil
	}})
	ctxA, cancelA := verifrt.CtxWithCancel(nil)
	resA := make(chan vExRes, 1)
	go func() { r, err := t.ExchangeContext(ctxA, vQuery12(1, 1)); resA <- vExRes{r, err} }()
	verifrt.Quiesce()
	cancelA()
	rA := <-resA
	verifrt.Assert(rA.m == nil && rA.err != nil, "A gives up while dialling")
	close(gate)
	verifrt.Quiesce()
	verifrt.Assert(len(conns) == 1, "the abandoned dial completed")
	conns[0].Close() // the server drops the idle connection
	verifrt.Quiesce()
	r, err := t.ExchangeContext(context.Background(), vQuery12(2, 6))
	verifrt.Reach("returned")
	verifrt.Assert(err == nil && r != nil && r.Header.ID == 2 && r.Header.RCode == 6, "a stale pooled connection is survived while a healthy server is reachable")
}

// VerifH_C14_WornOutConnectionReplaced: a pipelined connection that has handed out all but its last k wire IDs
// (k = 1..2) keeps serving a healthy server: the exchanges that use up the last IDs return their replies (the one that
// empties the waiter table retires the connection — it must not get stuck doing so), and the exchanges after them are
// served on a fresh connection, every one returning without any deadline. UDP and TCP.
func VerifH_C14_WornOutConnectionReplaced() {
	verifrt.Unwind(120)
	verifrt.SchedBound(1 + verifrt.Tier) // thorough: one more deviation from the default schedule
	verifrt.NoTimers()
	verifrt.CtxNoExpiry = true
	verifrt.Expect("retired")
	var conns []*vNetConn
	isTCP := verifrt.Bool("tcp")
	t := NewPipelineTransport(PipelineOpts{IsTCP: isTCP, DialContext: func(ctx context.Context) (net.Conn, error) {
		c := newVNetConn()
		conns = append(conns, c)
		go vEchoServer(c, isTCP)
		return c, nil
	}})
	pc, _, err := t.pool.Get(context.Background())
	verifrt.Assert(err == nil && len(conns) == 1, "first connection dialled")
	c0 := pc.(*pipelineConn)
	k := 1 + verifrt.Choose("ids-left", 2)
	c0.m.Lock()
	c0.nextQid = 65536 - k
	c0.reserved = 0
	c0.m.Unlock()
	t.pool.Release(c0)
	for i := 0; i < k+2; i++ {
		id := uint16(0x1000 + i)
		r, err := t.ExchangeContext(context.Background(), vQuery12(id, byte(i+1)))
		verifrt.Assert(err == nil && r != nil, "a healthy server is reachable: every exchange succeeds, before, at and after the end of the connection's ID space")
		verifrt.Assert(r.Header.ID == id && int(r.Header.RCode) == i+1, "with the reply to its own query")
		if i == k-1 {
			verifrt.Quiesce()
			if conns[0].closed {
				verifrt.Reach("retired")
			}
		}
	}
	verifrt.Reach("all-served")
	verifrt.Assert(len(conns) == 2 && conns[0].closed, "the worn-out connection was retired (closed) and replaced by exactly one fresh connection")
	st := c0.Status()
	verifrt.Assert(st.Closed, "and reports itself closed to the pool")
}

// vEchoServer answers every query on the fake connection with a header-only reply echoing wire ID and marker.
func vEchoServer(c *vNetConn, isTCP bool) {
	for {
		var q []byte
		select {
		case q = <-c.outbox:
		case <-c.closedCh:
			return
		}
		off := 0
		if isTCP {
			off = 2
		}
		if len(q) < off+12 {
			continue
		}
		r := []byte{q[off], q[off+1], 0x80, q[off+3] & 0xF, 0, 0, 0, 0, 0, 0, 0, 0}
		if isTCP {
			r = append([]byte{0, 12}, r...)
		}
		c.inbox <- r
	}
}

// VerifH_C14_SilentPooledConnection: "when a connection dies, every exchange waiting on it fails or is retried promptly
// instead of waiting out its deadline". A pooled pipelined connection goes silent without FIN/RST (the peer keeps
// reading, never answers again); the only way to notice is the idle read time-out: nothing RECEIVED for 10 s. Under a
// harness-controlled clock with deadlines kept as instants: the last reply arrived at t=0; at t=6 s and again at t=9 s
// exchanges (no caller deadline) are written to the silent connection; at t=10 s nothing has been received for the
// idle time-out, whatever was SENT meanwhile: the connection is given up, the waiting exchanges are retried on a fresh
// connection to the healthy server and succeed — they are not left waiting.
func VerifH_C14_SilentPooledConnection() {
	verifrt.Unwind(160)
	verifrt.SchedBound(1 + verifrt.Tier) // thorough: one more deviation from the default schedule
	verifrt.NoTimers()
	verifrt.CtxNoExpiry = true
	verifrt.Expect("retried")
	base := time.Unix(1700000000, 0)
	offset := time.Duration(0)
	verifrt.Redirect("time.Now", func() time.Time { return base.Add(offset) })
	isTCP := verifrt.Bool("tcp")
	var conns []*vNetConn
	tr := NewPipelineTransport(PipelineOpts{IsTCP: isTCP, IdleTimeout: 10 * time.Second, DialContext: func(ctx context.Context) (net.Conn, error) {
		c := newVNetConn()
		c.clocked = true
		first := len(conns) == 0
		conns = append(conns, c)
		go func() {
			answered := 0
			for {
				var q []byte
				select {
				case q = <-c.outbox:
				case <-c.closedCh:
					return
				}
				if first && answered >= 1 {
					continue // the first connection's server reads on but never answers again
				}
				answered++
				off := 0
				if isTCP {
					off = 2
				}
				r := []byte{q[off], q[off+1], 0x80, q[off+3] & 0xF, 0, 0, 0, 0, 0, 0, 0, 0}
				if isTCP {
					r = append([]byte{0, 12}, r...)
				}
				c.inbox <- r
			}
		}()
		return c, nil
	}})
	r0, err0 := tr.ExchangeContext(context.Background(), vQuery12(1, 1))
	verifrt.Assert(err0 == nil && r0 != nil && r0.Header.RCode == 1, "first exchange answered (at t = 0)")
	verifrt.Quiesce()
	type exRes struct {
		m   *dnsmsg.Msg
		err error
	}
	resA, resB := make(chan exRes, 1), make(chan exRes, 1)
	offset = 6 * time.Second
	go func() { m, err := tr.ExchangeContext(context.Background(), vQuery12(2, 2)); resA <- exRes{m, err} }()
	verifrt.Quiesce()
	offset = 9 * time.Second
	go func() { m, err := tr.ExchangeContext(context.Background(), vQuery12(3, 3)); resB <- exRes{m, err} }()
	verifrt.Quiesce()
	verifrt.Assert(len(conns) == 1 && conns[0].nWrites == 3, "both queries went out on the pooled connection, which stays silent")
	offset = 10 * time.Second
	for _, c := range conns {
		c.Tick()
	}
	verifrt.Quiesce()
	a, b := <-resA, <-resB
	verifrt.Reach("retried")
	verifrt.Assert(a.err == nil && a.m != nil && a.m.Header.ID == 2 && a.m.Header.RCode == 2, "10 s without receiving anything: the silent connection is given up and the waiting exchange succeeds on a fresh one")
	verifrt.Assert(b.err == nil && b.m != nil && b.m.Header.ID == 3 && b.m.Header.RCode == 3, "and so does the other")
	verifrt.Assert(conns[0].closed && len(conns) == 2, "the silent connection was closed and replaced")
}
