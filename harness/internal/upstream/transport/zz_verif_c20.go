package transport

import (
	"context"
	"net"

	"github.com/IrineSistiana/mosproxy/internal/verifrt"
	"github.com/quic-go/quic-go"
)

// VerifH_C20_WorkerOutlivesCaller: when the caller's context ends first, the worker goroutines of the
// one-at-a-time TCP and QUIC transports keep running; they must not touch the (recycled) query buffer the
// caller has released, and the caller's query bytes are never modified.
func VerifH_C20_WorkerOutlivesCaller_S2() {
	verifrt.Unwind(80)
	verifrt.SchedBound(3)
	var tr Transport
	if verifrt.Shard() == 0 {
		tr = NewReuseConnTransport(ReuseConnOpts{DialContext: func(ctx context.Context) (net.Conn, error) {
			c := newVNetConn()
			go vServe(c)
			return c, nil
		}})
	} else {
		tr = NewQuicTransport(QuicTransportOpts{DialContext: func(ctx context.Context) (quic.Connection, error) {
			c := newVQuicConn()
			c.serveFunc = vServe
			return c, nil
		}})
	}
	ctx, cancel := verifrt.CtxWithCancel(nil)
	go cancel()
	q := vQuery12(verifrt.U16("id"), 3)
	orig := append([]byte(nil), q...)
	r, err := tr.ExchangeContext(ctx, q)
	verifrt.Assert(verifrt.EqBytes(q, orig), "a transport never modifies the caller's query")
	if err == nil {
		verifrt.Assert(r.Header.ID == uint16(orig[0])<<8|uint16(orig[1]), "caller's ID restored")
	}
	// another request recycles the released buffers while the abandoned worker may still be running
	q2 := vQuery12(9, 4)
	tr.ExchangeContext(context.Background(), q2)
	verifrt.Quiesce()
	verifrt.Reach("quiet")
}
