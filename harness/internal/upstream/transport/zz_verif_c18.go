package transport

import (
	"context"
	"net"

	"github.com/IrineSistiana/mosproxy/internal/verifrt"
	"github.com/quic-go/quic-go"
)

// VerifH_C18_DoHClose: closing a DoH transport terminates and closes the extra closer exactly once.
func VerifH_C18_DoHClose() {
	cl := &vCloser{}
	var u *DoHTransport
	if verifrt.Bool("withCloser") {
		u = &DoHTransport{rt: &vRoundTripper{}, closer: cl}
	} else {
		u = &DoHTransport{rt: &vRoundTripper{}}
	}
	hasCloser := u.closer != nil
	err := u.Close()
	verifrt.Reach("closed")
	verifrt.Assert(err == nil, "close succeeds")
	if hasCloser {
		verifrt.Assert(cl.n == 1, "the underlying closer is closed exactly once")
	}
}

// VerifH_C18_ReuseClose: Close is idempotent, closes every tracked connection, later exchanges fail.
func VerifH_C18_ReuseClose() {
	verifrt.Unwind(60)
	verifrt.SchedBound(1 + verifrt.Tier) // thorough: one more deviation from the default schedule
	var conns []*vNetConn
	t := NewReuseConnTransport(ReuseConnOpts{DialContext: func(ctx context.Context) (net.Conn, error) {
		c := newVNetConn()
		conns = append(conns, c)
		go vServe(c)
		return c, nil
	}})
	n := verifrt.Choose("warm", 3)
	for i := 0; i < n; i++ {
		_, err := t.ExchangeContext(context.Background(), vQuery12(uint16(i), 1))
		verifrt.Assert(err == nil, "warm-up exchange succeeds")
	}
	verifrt.Assert(t.Close() == nil, "close returns")
	verifrt.Assert(t.Close() == nil, "close is idempotent")
	verifrt.Reach("closed")
	for _, c := range conns {
		verifrt.Assert(c.closed, "no upstream connection stays open after Close")
	}
	r, err := t.ExchangeContext(context.Background(), vQuery12(9, 1))
	verifrt.Assert(r == nil && err != nil, "exchanges after Close fail")
}

// VerifH_C18_ReuseCloseDuringDial: a connection whose dial completes after Close is closed, the waiting
// exchange fails, Close does not deadlock.
func VerifH_C18_ReuseCloseDuringDial() {
	verifrt.Unwind(60)
	verifrt.SchedBound(3 + verifrt.Tier) // thorough: one more deviation from the default schedule
	var conns []*vNetConn
	gate := make(chan struct{})
	t := NewReuseConnTransport(ReuseConnOpts{DialContext: func(ctx context.Context) (net.Conn, error) {
		select {
		case <-gate: // the dial completes only when the harness says so
		case <-ctx.Done():
			return nil, errVConn
		}
		c := newVNetConn()
		conns = append(conns, c)
		go vServe(c)
		return c, nil
	}})
	done := make(chan error, 1)
	go func() { _, err := t.ExchangeContext(context.Background(), vQuery12(1, 1)); done <- err }()
	go func() { close(gate) }()
	t.Close()
	err := <-done
	verifrt.Reach("returned")
	for _, c := range conns {
		if err != nil {
			verifrt.Assert(c.closed, "a connection dialled around Close is not left open")
		}
	}
	_, err2 := t.ExchangeContext(context.Background(), vQuery12(2, 1))
	verifrt.Assert(err2 != nil, "closed transport refuses")
	for _, c := range conns {
		verifrt.Assert(c.closed, "no connection survives Close")
	}
}

// VerifH_C18_QuicClose: same for the QUIC transport.
func VerifH_C18_QuicClose() {
	verifrt.Unwind(60)
	verifrt.SchedBound(3 + verifrt.Tier) // thorough: one more deviation from the default schedule
	var qcs []*vQuicConn
	gate := make(chan struct{})
	t := NewQuicTransport(QuicTransportOpts{DialContext: func(ctx context.Context) (quic.Connection, error) {
		select {
		case <-gate:
		case <-ctx.Done():
			return nil, errVConn
		}
		c := newVQuicConn()
		c.serveFunc = vServe
		qcs = append(qcs, c)
		return c, nil
	}})
	ctx, cancel := verifrt.CtxWithCancel(nil)
	done := make(chan error, 1)
	go func() { _, err := t.ExchangeContext(ctx, vQuery12(1, 1)); done <- err }()
	go func() { close(gate) }()
	verifrt.Assert(t.Close() == nil && t.Close() == nil, "close returns and is idempotent")
	go cancel() // the waiting caller's own deadline
	<-done
	verifrt.Reach("returned")
	_, err2 := t.ExchangeContext(context.Background(), vQuery12(2, 1))
	verifrt.Assert(err2 == ErrClosedTransport, "closed transport refuses")
	for _, c := range qcs {
		verifrt.Assert(c.closed > 0, "a QUIC connection dialled around Close is closed")
	}
}

// VerifH_C18_PipelineClose: pool-backed transport.
func VerifH_C18_PipelineClose() {
	verifrt.Unwind(60)
	verifrt.SchedBound(1 + verifrt.Tier) // thorough: one more deviation from the default schedule
	var conns []*vNetConn
	t := NewPipelineTransport(PipelineOpts{IsTCP: true, DialContext: func(ctx context.Context) (net.Conn, error) {
		c := newVNetConn()
		conns = append(conns, c)
		go vServe(c)
		return c, nil
	}})
	if verifrt.Bool("warm") {
		r, err := t.ExchangeContext(context.Background(), vQuery12(3, 4))
		verifrt.Assert(err == nil && r.Header.ID == 3 && r.Header.RCode == 4, "warm-up exchange")
	}
	verifrt.Assert(t.Close() == nil, "close returns")
	t.Close()
	verifrt.Reach("closed")
	for _, c := range conns {
		verifrt.Assert(c.closed, "no upstream connection stays open after Close")
	}
	_, err := t.ExchangeContext(context.Background(), vQuery12(9, 1))
	verifrt.Assert(err != nil, "exchanges after Close fail")
}

// VerifH_C18_StatusNeverLies: connpool forgets (without closing) a connection whose Status().Closed is true, so
// from ANY state of a pipelined connection satisfying the representation invariant, "Closed" must be reported
// only when the socket really has been closed – otherwise the pool loses track of a live socket and Close()
// cannot reach it any more.
func VerifH_C18_StatusNeverLies() {
	conn := &vConn{}
	c, _, _, _, _, _, _ := vPipelineConn(verifrt.Bool("tcp"), conn)
	if verifrt.Bool("closed") {
		c.closeWithErr(nil)
	}
	st := c.Status()
	verifrt.Reach("status")
	verifrt.Assert(!st.Closed || conn.closed > 0, "a connection reported closed to the pool has really been closed")
	verifrt.Assert(st.Closed || conn.closed == 0, "a closed connection is reported closed")
}

// VerifH_C18_PipelineEoLClose: the real pool with a connection that hands out its last wire ID while that exchange
// is still unanswered; a second exchange moves on to a fresh connection; then the transport is closed. Both
// sockets must be closed and the unanswered exchange must end.
func VerifH_C18_PipelineEoLClose() {
	verifrt.Unwind(80)
	verifrt.SchedBound(1 + verifrt.Tier) // thorough: one more deviation from the default schedule
	var conns []*vNetConn
	t := NewPipelineTransport(PipelineOpts{IsTCP: true, DialContext: func(ctx context.Context) (net.Conn, error) {
		c := newVNetConn()
		conns = append(conns, c)
		if len(conns) > 1 {
			go vServe(c) // only later connections have an answering server
		}
		return c, nil
	}})
	pc, _, err := t.pool.Get(context.Background()) // (the pool's own API: no dependence on the transport's private helpers)
	verifrt.Assert(err == nil && len(conns) == 1, "first connection dialled")
	c0 := pc.(*pipelineConn)
	// the connection has already carried 65535 (thorough: any number up to that) exchanges
	c0.m.Lock()
	c0.nextQid = 65535
	c0.reserved = 0
	c0.m.Unlock()
	t.pool.Release(c0)
	resA := make(chan vExRes, 1)
	go func() { r, err := t.ExchangeContext(context.Background(), vQuery12(0x1111, 1)); resA <- vExRes{r, err} }()
	<-conns[0].outbox // A's query is on the wire with the last ID; the server stays silent
	verifrt.Assert(c0.nextQid == 65536, "the last wire ID was handed out")
	rB, errB := t.ExchangeContext(context.Background(), vQuery12(0x2222, 2))
	verifrt.Assert(errB == nil && rB.Header.ID == 0x2222 && rB.Header.RCode == 2, "exchange B is served on a fresh connection")
	verifrt.Assert(len(conns) == 2, "B did not reuse the exhausted connection")
	verifrt.Assert(t.Close() == nil, "close returns")
	verifrt.Reach("closed")
	for _, c := range conns {
		verifrt.Assert(c.closed, "no upstream connection stays open after Close (also one that ran out of IDs with a query in flight)")
	}
	rA := <-resA
	verifrt.Reach("A-ended")
	verifrt.Assert(rA.m == nil && rA.err != nil, "the unanswered exchange ends with an error when the transport is closed")
}

// VerifH_C18_ReuseCloseSlowConnClose: Close() is in the middle of closing a tracked connection (which takes time)
// when another exchange's dial completes. Whatever the dial goroutine looks at, the transport counts as closed from
// the moment Close() started: the late connection is closed, nothing is served over it, nobody hangs.
func VerifH_C18_ReuseCloseSlowConnClose() {
	verifrt.Unwind(80)
	verifrt.SchedBound(3 + verifrt.Tier) // thorough: one more deviation from the default schedule
	var conns []*vNetConn
	gate := make(chan struct{})
	t := NewReuseConnTransport(ReuseConnOpts{DialContext: func(ctx context.Context) (net.Conn, error) {
		if len(conns) >= 1 {
			select {
			case <-gate: // the second dial completes only when the harness says so
			case <-ctx.Done():
				return nil, errVConn
			}
		}
		c := newVNetConn()
		c.slowClose = true
		conns = append(conns, c)
		if len(conns) > 1 {
			go vServe(c) // the late connection has a healthy server behind it
		}
		return c, nil
	}})
	// exchange A occupies connection 1 (its server stays silent), exchange B has to dial
	doneA, doneB := make(chan vExRes, 1), make(chan vExRes, 1)
	go func() { r, err := t.ExchangeContext(context.Background(), vQuery12(1, 1)); doneA <- vExRes{r, err} }()
	verifrt.Quiesce()
	verifrt.Assert(len(conns) == 1, "A is in flight on the first connection")
	go func() { r, err := t.ExchangeContext(context.Background(), vQuery12(2, 2)); doneB <- vExRes{r, err} }()
	verifrt.Quiesce()
	go func() { close(gate) }()
	verifrt.Assert(t.Close() == nil, "close returns")
	verifrt.Quiesce()
	verifrt.Reach("closed")
	rA, rB := <-doneA, <-doneB
	verifrt.Assert(rA.m == nil && rA.err != nil, "the in-flight exchange fails")
	verifrt.Assert(rB.m == nil && rB.err != nil, "an exchange whose dial completes around Close fails instead of being served on a closed transport")
	for _, c := range conns {
		verifrt.Assert(c.closed, "no connection stays open after Close, including one whose dial completed while Close was in progress")
		verifrt.Assert(c == conns[0] || c.nWrites == 0, "nothing is sent over a connection that joined a closed transport")
	}
}

// VerifH_C18_PipelineAbandonedThenClose: an exchange on a healthy pipelined connection is abandoned by its caller (its
// context ends; the server was just slow), then the transport is closed: the connection – still perfectly alive –
// must be closed by Close() like every other one.
func VerifH_C18_PipelineAbandonedThenClose() {
	verifrt.Unwind(80)
	verifrt.SchedBound(1 + verifrt.Tier) // thorough: one more deviation from the default schedule
	var conns []*vNetConn
	isTCP := verifrt.Bool("tcp")
	t := NewPipelineTransport(PipelineOpts{IsTCP: isTCP, DialContext: func(ctx context.Context) (net.Conn, error) {
		c := newVNetConn() // nobody answers on it
		conns = append(conns, c)
		return c, nil
	}})
	ctx, cancel := verifrt.CtxWithCancel(nil)
	res := make(chan vExRes, 1)
	go func() { r, err := t.ExchangeContext(ctx, vQuery12(1, 1)); res <- vExRes{r, err} }()
	verifrt.Quiesce()
	verifrt.Assert(len(conns) == 1, "the query is on the wire")
	cancel()
	rr := <-res
	verifrt.Assert(rr.m == nil && rr.err != nil, "the abandoned exchange returns its context error")
	verifrt.Quiesce()
	verifrt.Assert(t.Close() == nil, "close returns")
	verifrt.Quiesce()
	verifrt.Reach("closed")
	for _, c := range conns {
		verifrt.Assert(c.closed, "no upstream connection stays open after Close, also one whose last exchange was abandoned")
	}
}

// VerifH_C18_PeerClosedIdleConnection: "leaves no upstream connection of the proxy open". A pooled one-at-a-time
// connection is closed BY THE SERVER while it sits idle (FIN; our side is still open). The next exchange succeeds (on a
// fresh connection, whatever way the dead one is noticed: by the failed exchange, or by probing the socket — the fake
// exposes a descriptor like a real TCP connection does). Then the transport is closed: every connection that was ever
// dialled, including the one the server had abandoned, is closed on our side too.
func VerifH_C18_PeerClosedIdleConnection() {
	verifrt.Unwind(120)
	verifrt.SchedBound(1 + verifrt.Tier) // thorough: one more deviation from the default schedule
	verifrt.NoTimers()
	verifrt.CtxNoExpiry = true
	var conns []*vNetConn
	t := NewReuseConnTransport(ReuseConnOpts{DialContext: func(ctx context.Context) (net.Conn, error) {
		c := newVNetConn()
		conns = append(conns, c)
		go vServePlain(c)
		return c, nil
	}})
	r1, err1 := t.ExchangeContext(context.Background(), vQuery12(1, 1))
	verifrt.Assert(err1 == nil && r1 != nil && r1.Header.RCode == 1, "first exchange answered")
	verifrt.Quiesce()
	verifrt.Assert(len(conns) == 1 && len(t.idleConns) == 1, "its connection is pooled")
	conns[0].PeerClose() // the server goes away while the connection is idle
	r2, err2 := t.ExchangeContext(context.Background(), vQuery12(2, 2))
	verifrt.Reach("second-returned")
	verifrt.Assert(err2 == nil && r2 != nil && r2.Header.ID == 2 && r2.Header.RCode == 2, "a healthy server is reachable: the exchange succeeds on a fresh connection")
	verifrt.Quiesce()
	verifrt.Assert(t.Close() == nil, "close returns")
	verifrt.Quiesce()
	verifrt.Reach("closed")
	verifrt.Assert(len(conns) == 2, "exactly one replacement connection was dialled")
	for _, c := range conns {
		verifrt.Assert(c.closed, "no upstream connection stays open after Close, also one the server had closed while it was idle")
	}
}

// VerifH_C18_IdleTimerVersusQueryThenClose: "returns promptly without … deadlocking". A pooled one-at-a-time connection
// whose idle timer may fire at ANY point (timers on) while the next exchange is picking it up, a pre-emption possible
// before every lock operation and after every unlock (≤ 2 deviations), then Close(): whatever the interleaving of the
// timer's close path and the pick-up path, nobody ends up waiting for a lock for ever (the engine reports a goroutine
// that can never run again as a deadlock), the exchange returns (served on the pooled or on a fresh connection),
// Close() returns, and every connection is closed afterwards.
func VerifH_C18_IdleTimerVersusQueryThenClose() {
	verifrt.Expect("exchange-returned,closed")
	verifrt.Unwind(120)
	verifrt.SchedBound(2 + verifrt.Tier) // thorough: one more deviation from the default schedule
	verifrt.PreemptSync()
	verifrt.CtxNoExpiry = true
	var conns []*vNetConn
	t := NewReuseConnTransport(ReuseConnOpts{DialContext: func(ctx context.Context) (net.Conn, error) {
		c := newVNetConn()
		conns = append(conns, c)
		go vServePlain(c)
		return c, nil
	}})
	// an earlier exchange leaves a pooled idle connection behind, its idle timer armed (the connection is set up by the
	// transport's own dial path, with whatever bookkeeping that attaches to it)
	r0, err0 := t.ExchangeContext(context.Background(), vQuery12(1, 1))
	// (the timer model may fire the idle timer between two adjacent statements of the dial path, which fails the warm-up:
	// not a schedule of interest here)
	verifrt.Assume(err0 == nil && r0 != nil && r0.Header.RCode == 1)
	verifrt.Quiesce()
	r, err := t.ExchangeContext(context.Background(), vQuery12(7, 3))
	verifrt.Reach("exchange-returned")
	if err == nil {
		verifrt.Assert(r != nil && r.Header.ID == 7 && r.Header.RCode == 3, "served with the reply to its own query")
	}
	verifrt.Assert(t.Close() == nil, "close returns")
	verifrt.Quiesce()
	verifrt.Reach("closed")
	for _, c := range conns {
		verifrt.Assert(c.closed, "no upstream connection stays open after Close")
	}
}
