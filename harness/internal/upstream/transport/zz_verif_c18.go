package transport

import (
	"context"
	"net"

	"github.com/IrineSistiana/mosproxy/internal/verifrt"
	"github.com/quic-go/quic-go"
)

// VerifH_C18_DoHClose: closing a DoH transport terminates and closes the extra closer exactly once.
func VerifH_C18_DoHClose() {
	cl := &vCloser{}
	var u *DoHTransport
	if verifrt.Bool("withCloser") {
		u = &DoHTransport{rt: &vRoundTripper{}, closer: cl}
	} else {
		u = &DoHTransport{rt: &vRoundTripper{}}
	}
	hasCloser := u.closer != nil
	err := u.Close()
	verifrt.Reach("closed")
	verifrt.Assert(err == nil, "close succeeds")
	if hasCloser {
		verifrt.Assert(cl.n == 1, "the underlying closer is closed exactly once")
	}
}

// VerifH_C18_ReuseClose: Close is idempotent, closes every tracked connection, later exchanges fail.
func VerifH_C18_ReuseClose() {
	verifrt.Unwind(60)
	verifrt.SchedBound(1)
	var conns []*vNetConn
	t := NewReuseConnTransport(ReuseConnOpts{DialContext: func(ctx context.Context) (net.Conn, error) {
		c := newVNetConn()
		conns = append(conns, c)
		go vServe(c)
		return c, nil
	}})
	n := verifrt.Choose("warm", 3)
	for i := 0; i < n; i++ {
		_, err := t.ExchangeContext(context.Background(), vQuery12(uint16(i), 1))
		verifrt.Assert(err == nil, "warm-up exchange succeeds")
	}
	verifrt.Assert(t.Close() == nil, "close returns")
	verifrt.Assert(t.Close() == nil, "close is idempotent")
	verifrt.Reach("closed")
	for _, c := range conns {
		verifrt.Assert(c.closed, "no upstream connection stays open after Close")
	}
	r, err := t.ExchangeContext(context.Background(), vQuery12(9, 1))
	verifrt.Assert(r == nil && err != nil, "exchanges after Close fail")
}

// VerifH_C18_ReuseCloseDuringDial: a connection whose dial completes after Close is closed, the waiting
// exchange fails, Close does not deadlock.
func VerifH_C18_ReuseCloseDuringDial() {
	verifrt.Unwind(60)
	verifrt.SchedBound(3)
	var conns []*vNetConn
	gate := make(chan struct{})
	t := NewReuseConnTransport(ReuseConnOpts{DialContext: func(ctx context.Context) (net.Conn, error) {
		select {
		case <-gate: // the dial completes only when the harness says so
		case <-ctx.Done():
			return nil, errVConn
		}
		c := newVNetConn()
		conns = append(conns, c)
		go vServe(c)
		return c, nil
	}})
	done := make(chan error, 1)
	go func() { _, err := t.ExchangeContext(context.Background(), vQuery12(1, 1)); done <- err }()
	go func() { close(gate) }()
	t.Close()
	err := <-done
	verifrt.Reach("returned")
	for _, c := range conns {
		if err != nil {
			verifrt.Assert(c.closed, "a connection dialled around Close is not left open")
		}
	}
	_, err2 := t.ExchangeContext(context.Background(), vQuery12(2, 1))
	verifrt.Assert(err2 != nil, "closed transport refuses")
	for _, c := range conns {
		verifrt.Assert(c.closed, "no connection survives Close")
	}
}

// VerifH_C18_QuicClose: same for the QUIC transport.
func VerifH_C18_QuicClose() {
	verifrt.Unwind(60)
	verifrt.SchedBound(3)
	var qcs []*vQuicConn
	gate := make(chan struct{})
	t := NewQuicTransport(QuicTransportOpts{DialContext: func(ctx context.Context) (quic.Connection, error) {
		select {
		case <-gate:
		case <-ctx.Done():
			return nil, errVConn
		}
		c := newVQuicConn()
		c.serveFunc = vServe
		qcs = append(qcs, c)
		return c, nil
	}})
	ctx, cancel := verifrt.CtxWithCancel(nil)
	done := make(chan error, 1)
	go func() { _, err := t.ExchangeContext(ctx, vQuery12(1, 1)); done <- err }()
	go func() { close(gate) }()
	verifrt.Assert(t.Close() == nil && t.Close() == nil, "close returns and is idempotent")
	go cancel() // the waiting caller's own deadline
	<-done
	verifrt.Reach("returned")
	_, err2 := t.ExchangeContext(context.Background(), vQuery12(2, 1))
	verifrt.Assert(err2 == ErrClosedTransport, "closed transport refuses")
	for _, c := range qcs {
		verifrt.Assert(c.closed > 0, "a QUIC connection dialled around Close is closed")
	}
}

// VerifH_C18_PipelineClose: pool-backed transport.
func VerifH_C18_PipelineClose() {
	verifrt.Unwind(60)
	verifrt.SchedBound(1)
	var conns []*vNetConn
	t := NewPipelineTransport(PipelineOpts{IsTCP: true, DialContext: func(ctx context.Context) (net.Conn, error) {
		c := newVNetConn()
		conns = append(conns, c)
		go vServe(c)
		return c, nil
	}})
	if verifrt.Bool("warm") {
		r, err := t.ExchangeContext(context.Background(), vQuery12(3, 4))
		verifrt.Assert(err == nil && r.Header.ID == 3 && r.Header.RCode == 4, "warm-up exchange")
	}
	verifrt.Assert(t.Close() == nil, "close returns")
	t.Close()
	verifrt.Reach("closed")
	for _, c := range conns {
		verifrt.Assert(c.closed, "no upstream connection stays open after Close")
	}
	_, err := t.ExchangeContext(context.Background(), vQuery12(9, 1))
	verifrt.Assert(err != nil, "exchanges after Close fail")
}
