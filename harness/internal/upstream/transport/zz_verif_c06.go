package transport

import (
	"context"
	"net"
	"time"

	"github.com/IrineSistiana/mosproxy/internal/dnsmsg"
	"github.com/IrineSistiana/mosproxy/internal/verifrt"
)

func vReusable(tag string) (*reusableConn, *vConn) {
	fc := &vConn{}
	rc := &reusableConn{c: fc, idleTimeout: time.Second}
	rc.serving = verifrt.Bool(tag + ".serving")
	rc.closed = verifrt.Bool(tag + ".closed")
	rc.idleTimer = time.AfterFunc(time.Second, rc.closeIfIdle)
	if rc.serving || rc.closed {
		rc.idleTimer.Stop() // invariant: the idle timer is armed only while idle and open
	}
	if rc.closed {
		fc.closed = 1
	}
	return rc, fc
}

// VerifH_C06_ConnSteps: every step of the connection state machine from an arbitrary valid state keeps
// "serving XOR idle-with-timer XOR closed" and closes the socket exactly when it should.
func VerifH_C06_ConnSteps() {
	rc, fc := vReusable("rc")
	s0, c0 := rc.serving, rc.closed
	switch verifrt.Choose("step", 4) {
	case 0: // exitIdle is only called on connections taken from the idle set (not serving)
		verifrt.Assume(!s0)
		closed := rc.exitIdle()
		verifrt.Reach("exitIdle")
		if c0 {
			verifrt.Assert(closed && !rc.serving, "a closed connection is reported closed and not taken")
		} else {
			verifrt.Assert(!closed && rc.serving, "an open idle connection becomes serving")
			verifrt.Assert(!verifrt.TimerPending(rc.idleTimer), "idle timer stopped while serving")
		}
	case 1: // enterIdle is only called by the worker that owns a serving connection
		verifrt.Assume(s0 && !c0)
		rc.enterIdle()
		verifrt.Reach("enterIdle")
		verifrt.Assert(!rc.serving && !rc.closed, "back to idle")
		verifrt.Assert(verifrt.TimerPending(rc.idleTimer), "idle timer armed while idle")
	case 2: // idle timer fires
		rc.closeIfIdle()
		verifrt.Reach("closeIfIdle")
		if s0 {
			verifrt.Assert(rc.closed == c0 && fc.closed == boolInt(c0), "the idle timer never closes a serving connection")
		} else {
			verifrt.Assert(rc.closed && fc.closed >= 1, "an idle connection is closed by its timer")
		}
	default:
		rc.close()
		rc.close()
		verifrt.Reach("close")
		verifrt.Assert(rc.closed && fc.closed >= 1, "close closes")
		verifrt.Assert(!verifrt.TimerPending(rc.idleTimer), "no timer left after close")
	}
	verifrt.Assert(!(rc.serving && verifrt.TimerPending(rc.idleTimer)), "never serving with an armed idle timer")
	verifrt.Assert(c0 == false || rc.closed, "closed is monotone")
}

func boolInt(b bool) int {
	if b {
		return 1
	}
	return 0
}

// VerifH_C06_Release: what the worker does with the connection when its exchange ends.
func VerifH_C06_Release() {
	t := NewReuseConnTransport(ReuseConnOpts{DialContext: func(ctx context.Context) (net.Conn, error) { return nil, errVConn }})
	fc := &vConn{}
	rc := newReusableConn(fc, time.Second)
	rc.exitIdle()
	t.conns[rc] = struct{}{}
	failed := verifrt.Bool("failed")
	if verifrt.Bool("transport.closed") {
		t.Close()
	}
	wasClosed := t.closed
	var err error
	if failed {
		err = errVConn
	}
	t.releaseConn(rc, err)
	verifrt.Reach("released")
	_, idle := t.idleConns[rc]
	_, tracked := t.conns[rc]
	switch {
	case failed:
		verifrt.Assert(!idle, "a connection whose exchange failed is never offered for reuse")
		verifrt.Assert(rc.closed && fc.closed >= 1, "a failed connection is closed")
		verifrt.Assert(wasClosed || !tracked, "and forgotten")
	case wasClosed:
		verifrt.Assert(!idle && rc.closed && fc.closed >= 1, "after Close nothing is pooled; the connection is closed")
	default:
		verifrt.Assert(idle && tracked && !rc.closed && !rc.serving, "a cleanly finished connection becomes idle")
	}
	c2, gerr := t.getIdleConn()
	if wasClosed {
		verifrt.Assert(gerr == ErrClosedTransport && c2 == nil, "closed transport hands out nothing")
	} else if failed {
		verifrt.Assert(c2 == nil, "nothing to reuse")
	} else {
		verifrt.Assert(c2 == rc && rc.serving, "the idle connection is handed out exactly once")
		c3, _ := t.getIdleConn()
		verifrt.Assert(c3 == nil, "not handed out twice")
	}
}

// vServe is the scripted TCP server of one fake connection: exactly one reply per query, echoing the
// query's ID and marker, possibly split into two segments, after an arbitrary delay (scheduling).
func vServe(c *vNetConn) {
	for {
		var q []byte
		select {
		case q = <-c.outbox:
		case <-c.closedCh:
			return
		}
		c.outstanding++
		if len(q) < 14 {
			continue
		}
		r := make([]byte, 14)
		r[0], r[1] = 0, 12
		r[2], r[3] = q[2], q[3] // ID
		r[4] = 0x80             // QR
		r[5] = q[4+1] & 0xF     // marker travels in the rcode bits
		if verifrt.Bool("server.split") {
			c.inbox <- r[:5]
			c.inbox <- r[5:]
		} else {
			c.inbox <- r
		}
	}
}

// VerifH_C06_CancelThenReuse: exchange 1 may be cancelled at any scheduling point; exchange 2 follows.
// A connection must never carry two outstanding queries, and exchange 2 must get the reply to its own query.
func VerifH_C06_CancelThenReuse() {
	verifrt.Unwind(80)
	verifrt.SchedBound(4 + verifrt.Tier) // thorough: one more deviation from the default schedule
	var conns []*vNetConn
	t := NewReuseConnTransport(ReuseConnOpts{DialContext: func(ctx context.Context) (net.Conn, error) {
		c := newVNetConn()
		c.checkClean = true
		conns = append(conns, c)
		go vServe(c)
		return c, nil
	}})
	mk := func(id uint16, marker byte) []byte {
		m := make([]byte, 12)
		m[0], m[1] = byte(id>>8), byte(id)
		m[3] = marker
		return m
	}
	id1, id2 := verifrt.U16("id1"), verifrt.U16("id2")
	ctx1, cancel1 := verifrt.CtxWithCancel(nil)
	if verifrt.Bool("cancel1") {
		go cancel1()
	}
	r1, err1 := t.ExchangeContext(ctx1, mk(id1, 1))
	if err1 == nil {
		verifrt.Reach("ex1-ok")
		verifrt.Assert(r1.Header.ID == id1 && r1.Header.RCode == 1, "exchange 1 got the reply to its own query")
	} else {
		verifrt.Reach("ex1-failed")
	}
	r2, err2 := t.ExchangeContext(context.Background(), mk(id2, 2))
	if err2 == nil {
		verifrt.Reach("ex2-ok")
		verifrt.Assert(r2.Header.ID == id2 && r2.Header.RCode == 2, "exchange 2 got the reply to its own query, not a stale one")
	} else {
		// only a response deadline striking on exchange 2 itself can make it fail against a healthy server
		anyDl := false
		for _, c := range conns {
			anyDl = anyDl || c.deadlines
		}
		verifrt.Assert(anyDl, "with a healthy server and no deadline the second exchange succeeds")
	}
	for _, c := range conns {
		verifrt.Assert(!c.violated, "a connection never carries a second query before the previous reply was consumed")
	}
}

// VerifH_C06_TimeoutThenReuse: the response deadline of exchange 1 may strike at any scheduling point
// (before the reply, between its two segments, after it); exchange 2 follows. A connection whose exchange
// timed out still has (part of) a reply in flight and must never be reused.
func VerifH_C06_TimeoutThenReuse() {
	verifrt.Unwind(80)
	verifrt.SchedBound(2 + verifrt.Tier) // thorough: one more deviation from the default schedule
	var conns []*vNetConn
	t := NewReuseConnTransport(ReuseConnOpts{DialContext: func(ctx context.Context) (net.Conn, error) {
		c := newVNetConn()
		c.checkClean = true
		c.deadlines = len(conns) == 0 // only the first connection's deadline may strike
		conns = append(conns, c)
		go vServe(c)
		return c, nil
	}})
	mk := func(id uint16, marker byte) []byte {
		m := make([]byte, 12)
		m[0], m[1] = byte(id>>8), byte(id)
		m[3] = marker
		return m
	}
	id1, id2 := verifrt.U16("id1"), verifrt.U16("id2")
	r1, err1 := t.ExchangeContext(context.Background(), mk(id1, 1))
	if err1 == nil {
		verifrt.Reach("ex1-ok")
		verifrt.Assert(r1.Header.ID == id1 && r1.Header.RCode == 1, "exchange 1 got the reply to its own query")
	} else {
		verifrt.Reach("ex1-timed-out")
	}
	verifrt.Quiesce()
	r2, err2 := t.ExchangeContext(context.Background(), mk(id2, 2))
	if err2 == nil {
		verifrt.Reach("ex2-ok")
		verifrt.Assert(r2.Header.ID == id2 && r2.Header.RCode == 2, "exchange 2 got the reply to its own query, not a stale one")
	}
	for _, c := range conns {
		verifrt.Assert(!c.violated, "a connection never carries a second query before the previous reply was consumed")
	}
}

// VerifH_C06_ConcurrentExchanges: two exchanges at the same time on a transport that has ONE idle connection pooled
// (left by an earlier exchange). Pre-emption is possible before every lock / channel operation (≤ 2 deviations from
// round-robin): the idle connection is handed to at most one of them (the other dials), no connection ever carries
// two outstanding queries, and against the healthy server both get the reply to their own query.
func VerifH_C06_ConcurrentExchanges() {
	verifrt.Unwind(120)
	verifrt.SchedBound(2 + verifrt.Tier) // thorough: one more deviation from the default schedule
	verifrt.PreemptSync()
	verifrt.NoTimers() // idle time-outs (seconds) do not strike during the scenario; C06_ConnSteps covers them
	verifrt.CtxNoExpiry = true
	var conns []*vNetConn
	t := NewReuseConnTransport(ReuseConnOpts{DialContext: func(ctx context.Context) (net.Conn, error) {
		c := newVNetConn()
		c.checkClean = true
		conns = append(conns, c)
		go vServePlain(c)
		return c, nil
	}})
	r0, err0 := t.ExchangeContext(context.Background(), vQuery12(9, 3))
	verifrt.Assert(err0 == nil && r0 != nil && r0.Header.RCode == 3, "warm-up exchange answered")
	verifrt.Quiesce()
	verifrt.Assert(len(t.idleConns) == 1, "its connection is pooled")
	id := []uint16{verifrt.U16("id1"), verifrt.U16("id2")}
	type exRes struct {
		i   int
		m   *dnsmsg.Msg
		err error
	}
	res := make(chan exRes, 2)
	for i := 0; i < 2; i++ {
		i := i
		go func() {
			m, err := t.ExchangeContext(context.Background(), vQuery12(id[i], byte(i+1)))
			res <- exRes{i, m, err}
		}()
	}
	for k := 0; k < 2; k++ {
		r := <-res
		verifrt.Assert(r.err == nil && r.m != nil, "healthy server, no deadline: the exchange succeeds")
		verifrt.Assert(r.m.Header.ID == id[r.i] && int(r.m.Header.RCode) == r.i+1, "and gets the reply to its own query")
	}
	verifrt.Reach("both-answered")
	verifrt.Assert(len(conns) <= 2, "at most one extra connection is dialled")
	for _, c := range conns {
		verifrt.Assert(!c.violated, "a connection never carries a second query before the previous reply was consumed")
	}
}

// vAbandonedThenLateReply: the caller of exchange 1 gives up while the (healthy but slow) server still owes the
// reply; the reply arrives later on the same connection if that is still open; exchange 2 follows, before or after
// the late reply (≤ 2 scheduling deviations). Under a harness-controlled clock the connection fake honours the
// "wake the reader" idiom SetReadDeadline(time.Now()) exactly (the read fails at once with a time-out that
// errors.Is(…, os.ErrDeadlineExceeded), as on a real socket). One-at-a-time connections do not look at IDs or
// questions, so the ONLY thing that pairs replies with queries is that a connection with a reply owed is never
// offered to anyone else: exchange 2 must get the reply to its own query (or fail), never exchange 1's.
func vAbandonedThenLateReply() {
	verifrt.Unwind(120)
	verifrt.SchedBound(2 + verifrt.Tier) // thorough: one more deviation from the default schedule
	verifrt.NoTimers()
	verifrt.CtxNoExpiry = true
	base := time.Unix(1700000000, 0)
	verifrt.Redirect("time.Now", func() time.Time { return base })
	late := make(chan struct{})
	var conns []*vNetConn
	t := NewReuseConnTransport(ReuseConnOpts{DialContext: func(ctx context.Context) (net.Conn, error) {
		c := newVNetConn()
		c.pastDeadlines = true
		c.checkClean = true
		first := len(conns) == 0
		conns = append(conns, c)
		go func() {
			held := first
			for {
				var q []byte
				select {
				case q = <-c.outbox:
				case <-c.closedCh:
					return
				}
				if len(q) < 14 {
					continue
				}
				if held {
					held = false
					select {
					case <-late: // the slow answer to the first query of the first connection
					case <-c.closedCh:
						return
					}
				}
				c.inbox <- []byte{0, 12, q[2], q[3], 0x80, q[5] & 0xF, 0, 0, 0, 0, 0, 0, 0, 0}
			}
		}()
		return c, nil
	}})
	ctx1, cancel1 := verifrt.CtxWithCancel(nil)
	res1 := make(chan vExRes, 1)
	go func() { r, err := t.ExchangeContext(ctx1, vQuery12(0x1111, 1)); res1 <- vExRes{r, err} }()
	verifrt.Quiesce() // query 1 is on the wire, nobody answers yet
	cancel1()
	r1 := <-res1
	verifrt.Assert(r1.m == nil && r1.err != nil, "the abandoned exchange returns its context error")
	verifrt.Quiesce()
	verifrt.Reach("abandoned")
	go func() { close(late) }() // the late reply arrives whenever this goroutine is scheduled
	id2 := verifrt.U16("id2")
	r2, err2 := t.ExchangeContext(context.Background(), vQuery12(id2, 2))
	verifrt.Reach("second-returned")
	if err2 == nil {
		verifrt.Reach("second-answered")
		verifrt.Assert(r2.Header.RCode == 2 && r2.Header.ID == id2, "exchange 2 gets the reply to its own query, never the late reply to the abandoned one")
	}
	for _, c := range conns {
		verifrt.Assert(!c.violated, "a connection never carries a second query before the previous reply was consumed")
	}
}

// VerifH_C06_AbandonedThenLateReply: see vAbandonedThenLateReply.
func VerifH_C06_AbandonedThenLateReply() { vAbandonedThenLateReply() }

// VerifH_C04_AbandonedThenLateReply: the same scenario under the no-mix-up property: on transports that demultiplex by
// connection, handing a connection with a reply owed to the next query gives that query another query's answer.
func VerifH_C04_AbandonedThenLateReply() { vAbandonedThenLateReply() }

// VerifH_C06_FailedConnNeverHandedOver: "offered for reuse only after the complete reply … has been consumed without
// error" — by ANY route, not only through the idle pool. Exchange A runs on connection 1, whose server is slow; exchange
// B starts meanwhile, finds nothing idle and waits for its own (slow) dial. A's response deadline strikes (its reply is
// still owed and arrives later on the open connection); then B's dial completes. Whatever shortcuts exist between a
// finishing exchange and a waiting one: B's query never goes out on the connection that still owes A's reply, and B
// gets the reply to its own query (≤ 2 scheduling deviations).
func VerifH_C06_FailedConnNeverHandedOver() {
	verifrt.Expect("b-returned")
	verifrt.Unwind(160)
	verifrt.SchedBound(2 + verifrt.Tier)
	verifrt.NoTimers()
	verifrt.CtxNoExpiry = true
	base := time.Unix(1700000000, 0)
	offset := time.Duration(0)
	verifrt.Redirect("time.Now", func() time.Time { return base.Add(offset) })
	late, gate := make(chan struct{}), make(chan struct{})
	var conns []*vNetConn
	t := NewReuseConnTransport(ReuseConnOpts{DialContext: func(ctx context.Context) (net.Conn, error) {
		first := len(conns) == 0
		if !first {
			select {
			case <-gate: // the second dial is slow
			case <-ctx.Done():
				return nil, errVConn
			}
		}
		c := newVNetConn()
		c.checkClean = true
		c.clocked = true // deadlines are instants on the harness clock
		conns = append(conns, c)
		go func() {
			held := first
			for {
				var q []byte
				select {
				case q = <-c.outbox:
				case <-c.closedCh:
					return
				}
				if len(q) < 14 {
					continue
				}
				if held {
					held = false
					select {
					case <-late:
					case <-c.closedCh:
						return
					}
				}
				c.inbox <- []byte{0, 12, q[2], q[3], 0x80, q[5] & 0xF, 0, 0, 0, 0, 0, 0, 0, 0}
			}
		}()
		return c, nil
	}})
	resA, resB := make(chan vExRes, 1), make(chan vExRes, 1)
	go func() { r, err := t.ExchangeContext(context.Background(), vQuery12(0xA, 1)); resA <- vExRes{r, err} }()
	verifrt.Quiesce() // A's query is on connection 1, the server is slow
	go func() { r, err := t.ExchangeContext(context.Background(), vQuery12(0xB, 2)); resB <- vExRes{r, err} }()
	verifrt.Quiesce() // B waits for its dial
	offset = 7 * time.Second // the 6 s response time-out of exchange A is over
	conns[0].Tick()
	a := <-resA
	verifrt.Reach("a-returned")
	verifrt.Assert(a.m == nil && a.err != nil, "exchange A fails on its response time-out")
	verifrt.Quiesce()
	go func() { close(late) }()
	go func() { close(gate) }()
	b := <-resB
	verifrt.Reach("b-returned")
	if b.err == nil {
		verifrt.Assert(b.m.Header.ID == 0xB && b.m.Header.RCode == 2, "exchange B gets the reply to its own query")
	}
	for _, c := range conns {
		verifrt.Assert(!c.violated, "a connection never carries a second query before the previous reply was consumed")
	}
}
