package transport

import (
	"context"
	"encoding/base64"
	"io"
	"net/http"
	"net/url"

	"github.com/IrineSistiana/mosproxy/internal/verifrt"
)

// vDoHServer is the RoundTripper behind a DoHTransport in the scheduler scenarios.
type vDoHServer struct {
	silent  bool
	status  int
	reply   []byte
	ctx     context.Context // context of the request in flight (net/http keeps it inside the Request)
	queries []string
	calls   int
	ended   int
}

type vRespBody struct {
	data []byte
	pos  int
}

func (b *vRespBody) Read(p []byte) (int, error) {
	if b.pos >= len(b.data) {
		return 0, io.EOF
	}
	n := copy(p, b.data[b.pos:])
	b.pos += n
	return n, nil
}
func (b *vRespBody) Close() error { return nil }

func (s *vDoHServer) RoundTrip(req *http.Request) (*http.Response, error) {
	s.calls++
	// net/http serialises the URL whenever it gets to it: right away, or only after a stalled dial / handshake
	early := verifrt.Bool("doh.serialise-early")
	if early {
		s.queries = append(s.queries, string([]byte(req.URL.RawQuery)))
	}
	if s.silent {
		<-s.ctx.Done() // the server never answers: net/http gives up when the request's context ends
		if !early {
			s.queries = append(s.queries, string([]byte(req.URL.RawQuery)))
		}
		s.ended++
		return nil, errVConn
	}
	if !early {
		s.queries = append(s.queries, string([]byte(req.URL.RawQuery)))
	}
	s.ended++
	return &http.Response{StatusCode: s.status, Body: &vRespBody{data: s.reply}}, nil
}

func vDoH(s *vDoHServer) *DoHTransport {
	verifrt.Redirect("(*net/http.Request).WithContext", func(r *http.Request, ctx context.Context) *http.Request {
		s.ctx = ctx
		r2 := *r
		return &r2
	})
	u := &url.URL{Scheme: "https", Host: "dns.example", Path: "/dns-query"}
	return &DoHTransport{rt: s, urlTemplate: u, reqTemplate: &http.Request{Method: "GET", URL: u, Host: u.Host, Header: http.Header{}}}
}

// VerifH_C14_DoHCallerDeadline: a DoH server that never answers: the exchange returns as soon as the caller's
// context ends (at any scheduling point), with an error; the background request is bounded by its own timeout and
// ends too (no goroutine is left blocked), and the caller's query bytes are untouched.
func VerifH_C14_DoHCallerDeadline() { vDoHAbandoned() }

// VerifH_C20_DoHAbandonedRequest: the same scenario under the ownership ghosts: the background request outlives the
// caller; whatever it still reads (the URL query string is an unsafe view of a byte buffer) must not have been given
// back to the pool by the caller's return path.
func VerifH_C20_DoHAbandonedRequest() { vDoHAbandoned() }

func vDoHAbandoned() {
	verifrt.Unwind(80)
	verifrt.SchedBound(2 + verifrt.Tier) // thorough: one more deviation from the default schedule
	srv := &vDoHServer{silent: true}
	t := vDoH(srv)
	ctx, cancel := verifrt.CtxWithCancel(nil)
	go cancel()
	q := vQuery12(0x1234, 1)
	orig := append([]byte(nil), q...)
	r, err := t.ExchangeContext(ctx, q)
	verifrt.Reach("returned")
	verifrt.Assert(r == nil && err != nil, "a silent server yields an error once the caller's context ends")
	verifrt.Assert(verifrt.EqBytes(q, orig), "the caller's query is not modified")
	verifrt.Quiesce()
	verifrt.LetDeadlinesPass() // the background request runs under its own (6 s) timeout: let it strike
	verifrt.Quiesce()
	verifrt.Assert(srv.calls == 1 && srv.ended == 1, "the background request is bounded by its own timeout: nothing stays blocked for ever")
}

// VerifH_C20_DoHPrivateCopy: the query goes out as GET ?dns=<base64url of a private copy with DNS ID 0>, the
// caller's bytes are untouched, the reply comes back with the caller's ID restored; HTTP errors and undecodable
// bodies are errors.
func VerifH_C20_DoHPrivateCopy() {
	verifrt.Unwind(200)
	verifrt.SchedBound(1 + verifrt.Tier) // thorough: one more deviation from the default schedule
	verifrt.CtxNoExpiry = true
	id := verifrt.U16("id")
	srv := &vDoHServer{status: 200, reply: []byte{0, 0, 0x80, 0x03, 0, 0, 0, 0, 0, 0, 0, 0}}
	mode := verifrt.Choose("server", 3)
	switch mode {
	case 1:
		srv.status = 502
	case 2:
		srv.reply = srv.reply[:7] // not a DNS message
	}
	t := vDoH(srv)
	q := vQuery12(id, 5)
	q[4] = verifrt.Byte("q4")
	orig := append([]byte(nil), q...)
	r, err := t.ExchangeContext(context.Background(), q)
	verifrt.Reach("returned")
	verifrt.Assert(verifrt.EqBytes(q, orig), "the caller's query is not modified (the ID is zeroed in a private copy)")
	verifrt.Assert(srv.calls == 1 && len(srv.queries) == 1, "exactly one HTTP request")
	wire := append([]byte(nil), orig...)
	wire[0], wire[1] = 0, 0
	want := "dns=" + base64.RawURLEncoding.EncodeToString(wire)
	verifrt.Assert(verifrt.EqBytes([]byte(srv.queries[0]), []byte(want)), "the request carries the query with DNS ID 0, base64url without padding")
	if mode == 0 {
		verifrt.Reach("answered")
		verifrt.Assert(err == nil && r != nil && r.Header.ID == id && r.Header.RCode == 3, "the reply is returned with the caller's ID restored")
	} else {
		verifrt.Assert(r == nil && err != nil, "an HTTP error status or an undecodable body is an error")
	}
}
