package domainmatcher

import (
	"github.com/IrineSistiana/mosproxy/internal/verifrt"
)

// label-length shapes (wire order: leftmost label first)
var vShapes = [][]int{{1}, {1, 1}, {2}, {1, 1, 1}, {2, 1}}

func vLabels(tag string, shape []int) [][]byte {
	var ls [][]byte
	for _, l := range shape {
		ls = append(ls, verifrt.BytesN(tag, l))
	}
	return ls
}

func vWire(labels [][]byte) []byte {
	var n []byte
	for _, l := range labels {
		n = append(n, byte(len(l)))
		n = append(n, l...)
	}
	return n
}

// refSuffix: e is a suffix of q on a label boundary (or equal).
func refSuffix(e, q [][]byte) bool {
	if len(e) > len(q) {
		return false
	}
	ok := true
	for i := 1; i <= len(e); i++ {
		ok = verifrt.And(ok, verifrt.EqBytes(e[len(e)-i], q[len(q)-i]))
	}
	return ok
}

func refEqual(e, q [][]byte) bool {
	return len(e) == len(q) && refSuffix(e, q)
}

var vPerms3 = [][]int{{0, 1, 2}, {0, 2, 1}, {1, 0, 2}, {1, 2, 0}, {2, 0, 1}, {2, 1, 0}}

// VerifH_C11_DomainSet: the trie + full matcher agree with the set semantics for every load order.
func VerifH_C11_DomainSet_S10() {
	verifrt.Unwind(40)
	sh := verifrt.Shard()
	nsh := 3
	if verifrt.Thorough() {
		nsh = 5
	}
	type entry struct {
		full   bool
		labels [][]byte
	}
	var es []entry
	es = append(es, entry{false, vLabels("e0", vShapes[sh%5%nsh])})
	es = append(es, entry{sh/5 == 1, vLabels("e1", vShapes[verifrt.Choose("e1.shape", nsh)])})
	es = append(es, entry{verifrt.Bool("e2.full"), vLabels("e2", vShapes[verifrt.Choose("e2.shape", 2)])})
	q := vLabels("q", vShapes[verifrt.Choose("q.shape", nsh)])
	want := false
	for _, e := range es {
		if e.full {
			want = verifrt.Or(want, refEqual(e.labels, q))
		} else {
			want = verifrt.Or(want, refSuffix(e.labels, q))
		}
	}
	perm := vPerms3[verifrt.Choose("perm", 6)]
	m := NewMixMatcher()
	for _, i := range perm {
		e := es[i]
		if e.full {
			m.full.Add(vWire(e.labels))
		} else {
			m.domain.Add(e.labels)
		}
	}
	got := m.full.Match(vWire(q)) || m.domain.Match(vWire(q))
	verifrt.Reach("matched")
	verifrt.Assert(got == want, "matcher result equals the set semantics (full: equal; domain: label suffix) in every load order")
}

// VerifH_C11_LongLabel: labels of 24 and 25 octets use the two different child maps.
func VerifH_C11_LongLabel() {
	verifrt.Unwind(60)
	n := 24 + verifrt.Choose("len", 2)
	e := [][]byte{verifrt.BytesN("e", n), verifrt.BytesN("tld", 1)}
	q := [][]byte{verifrt.BytesN("q0", 1), verifrt.BytesN("q", n), verifrt.BytesN("qtld", 1)}
	m := NewDomainMatcher()
	m.Add(e)
	got := m.Match(vWire(q))
	verifrt.Reach("matched")
	verifrt.Assert(got == refSuffix(e, q), "long labels match by label suffix")
}

// VerifH_C11_RootEntry: the root entry matches everything, before or after other entries.
func VerifH_C11_RootEntry() {
	verifrt.Unwind(40)
	q := vLabels("q", vShapes[verifrt.Choose("q.shape", 3)])
	m := NewDomainMatcher()
	first := verifrt.Bool("rootfirst")
	if first {
		m.Add(nil)
	}
	m.Add(vLabels("e", vShapes[verifrt.Choose("e.shape", 2)]))
	if !first {
		m.Add(nil)
	}
	verifrt.Reach("root")
	verifrt.Assert(m.Match(vWire(q)), "the root entry matches every name")
}
