package domainmatcher

import (
	"io"

	"github.com/IrineSistiana/mosproxy/internal/verifrt"
)

var vEOF = io.EOF

// label-length shapes (wire order: leftmost label first)
var vShapes = [][]int{{1}, {1, 1}, {2}, {1, 1, 1}, {2, 1}}

func vLabels(tag string, shape []int) [][]byte {
	var ls [][]byte
	for _, l := range shape {
		ls = append(ls, verifrt.BytesN(tag, l))
	}
	return ls
}

func vWire(labels [][]byte) []byte {
	var n []byte
	for _, l := range labels {
		n = append(n, byte(len(l)))
		n = append(n, l...)
	}
	return n
}

// refSuffix: e is a suffix of q on a label boundary (or equal).
func refSuffix(e, q [][]byte) bool {
	if len(e) > len(q) {
		return false
	}
	ok := true
	for i := 1; i <= len(e); i++ {
		ok = verifrt.And(ok, verifrt.EqBytes(e[len(e)-i], q[len(q)-i]))
	}
	return ok
}

func refEqual(e, q [][]byte) bool {
	return len(e) == len(q) && refSuffix(e, q)
}

var vPerms3 = [][]int{{0, 1, 2}, {0, 2, 1}, {1, 0, 2}, {1, 2, 0}, {2, 0, 1}, {2, 1, 0}}

// VerifH_C11_DomainSet: the trie + full matcher agree with the set semantics for every load order.
func VerifH_C11_DomainSet_S10() {
	verifrt.Unwind(40)
	sh := verifrt.Shard()
	nsh := 3
	if verifrt.Thorough() {
		nsh = 5
	}
	type entry struct {
		full   bool
		labels [][]byte
	}
	var es []entry
	es = append(es, entry{false, vLabels("e0", vShapes[sh%5%nsh])})
	es = append(es, entry{sh/5 == 1, vLabels("e1", vShapes[verifrt.Choose("e1.shape", nsh)])})
	es = append(es, entry{verifrt.Bool("e2.full"), vLabels("e2", vShapes[verifrt.Choose("e2.shape", 2)])})
	q := vLabels("q", vShapes[verifrt.Choose("q.shape", nsh)])
	want := false
	for _, e := range es {
		if e.full {
			want = verifrt.Or(want, refEqual(e.labels, q))
		} else {
			want = verifrt.Or(want, refSuffix(e.labels, q))
		}
	}
	perm := vPerms3[verifrt.Choose("perm", 6)]
	m := NewMixMatcher()
	for _, i := range perm {
		e := es[i]
		if e.full {
			m.full.Add(vWire(e.labels))
		} else {
			m.domain.Add(e.labels)
		}
	}
	got := m.full.Match(vWire(q)) || m.domain.Match(vWire(q))
	verifrt.Reach("matched")
	verifrt.Assert(got == want, "matcher result equals the set semantics (full: equal; domain: label suffix) in every load order")
}

// VerifH_C11_LongLabel: labels of 24 and 25 octets use the two different child maps.
func VerifH_C11_LongLabel() {
	verifrt.Unwind(60)
	n := 24 + verifrt.Choose("len", 2)
	e := [][]byte{verifrt.BytesN("e", n), verifrt.BytesN("tld", 1)}
	q := [][]byte{verifrt.BytesN("q0", 1), verifrt.BytesN("q", n), verifrt.BytesN("qtld", 1)}
	m := NewDomainMatcher()
	m.Add(e)
	got := m.Match(vWire(q))
	verifrt.Reach("matched")
	verifrt.Assert(got == refSuffix(e, q), "long labels match by label suffix")
}

// VerifH_C11_RootEntry: the root entry matches everything, before or after other entries.
func VerifH_C11_RootEntry() {
	verifrt.Unwind(40)
	q := vLabels("q", vShapes[verifrt.Choose("q.shape", 3)])
	m := NewDomainMatcher()
	first := verifrt.Bool("rootfirst")
	if first {
		m.Add(nil)
	}
	m.Add(vLabels("e", vShapes[verifrt.Choose("e.shape", 2)]))
	if !first {
		m.Add(nil)
	}
	verifrt.Reach("root")
	verifrt.Assert(m.Match(vWire(q)), "the root entry matches every name")
}

func vLower(b []byte) []byte {
	o := make([]byte, len(b))
	for i, c := range b {
		o[i] = byte(verifrt.Ite('A' <= c && c <= 'Z', int(c)+32, int(c)))
	}
	return o
}

// VerifH_C11_AddText: the textual rule syntax: optional "domain:" / "full:" prefix, case-insensitive
// entries, FQDN dot optional; a domain entry matches itself and its sub-domains, a full entry only itself.
func VerifH_C11_AddText() {
	verifrt.Unwind(60)
	kind := verifrt.Choose("kind", 3) // 0 bare, 1 domain:, 2 full:
	l1 := verifrt.BytesN("l1", 1+verifrt.Choose("l1.len", 2))
	l2 := verifrt.BytesN("l2", 1)
	for _, c := range append(append([]byte(nil), l1...), l2...) {
		verifrt.Assume(c != '.' && c != ':')
	}
	rule := []byte([]string{"", "domain:", "full:"}[kind])
	rule = append(rule, l1...)
	rule = append(rule, '.')
	rule = append(rule, l2...)
	if verifrt.Bool("fqdn") {
		rule = append(rule, '.')
	}
	m := NewMixMatcher()
	err := m.Add(rule)
	verifrt.Assert(err == nil, "a well-formed rule is accepted")
	verifrt.Reach("added")
	e := [][]byte{vLower(l1), vLower(l2)}
	verifrt.Assert(m.Match(vWire(e)), "an entry matches its own lower-cased name")
	sub := [][]byte{verifrt.BytesN("sub", 1), e[0], e[1]}
	verifrt.Assert(m.Match(vWire(sub)) == (kind != 2), "sub-domains match domain entries only")
	other := [][]byte{e[0], verifrt.BytesN("otld", 1)}
	if !verifrt.EqBytes(other[1], e[1]) {
		verifrt.Assert(!m.Match(vWire(other)), "a different TLD does not match")
	}
	verifrt.Assert(!m.Match(vWire([][]byte{e[1]})), "the parent domain alone does not match")
}

// VerifH_C11_AddBadType: an unknown rule type is an error, not silently ignored.
func VerifH_C11_AddBadType() {
	m := NewMixMatcher()
	t := verifrt.BytesN("t", 3)
	for _, c := range t {
		verifrt.Assume(c != ':')
	}
	rule := append(append([]byte(nil), t...), []byte(":a.b")...)
	err := m.Add(rule)
	verifrt.Reach("bad")
	verifrt.Assert(err != nil, "unknown rule type rejected")
	verifrt.Assert(m.Len() == 0, "nothing added")
}

type vReader struct {
	data []byte
	pos  int
}

func (r *vReader) Read(p []byte) (int, error) {
	if r.pos >= len(r.data) {
		return 0, vEOF
	}
	n := copy(p, r.data[r.pos:])
	r.pos += n
	return n, nil
}

// VerifH_C11_LoaderLines: '#' comments and blank lines are ignored, surrounding white space is trimmed,
// every remaining line is an entry.
func VerifH_C11_LoaderLines() {
	verifrt.Unwind(300)
	a, b := verifrt.Byte("a"), verifrt.Byte("b")
	verifrt.Assume('a' <= a && a <= 'z' && 'a' <= b && b <= 'z' && a != b)
	var text []byte
	text = append(text, "# leading comment\n"...)
	text = append(text, "\n"...)
	text = append(text, "  "...)
	text = append(text, a)
	text = append(text, ".x   # trailing comment full:zz.x\n"...)
	text = append(text, "\t\n"...)
	text = append(text, "#"...)
	text = append(text, b)
	text = append(text, ".x\n"...)
	text = append(text, "full:"...)
	text = append(text, b)
	text = append(text, ".y"...) // last line without newline
	m := NewMixMatcher()
	err := LoadMixMatcherFromReader(m, &vReader{data: text})
	verifrt.Assert(err == nil, "a well-formed file loads")
	verifrt.Reach("loaded")
	verifrt.Assert(m.Len() == 2, "two entries: comments and blank lines are not entries")
	verifrt.Assert(m.Match(vWire([][]byte{{a}, {'x'}})), "entry before a trailing comment is loaded (trimmed)")
	verifrt.Assert(m.Match(vWire([][]byte{{'w'}, {a}, {'x'}})), "bare entries are domain entries")
	verifrt.Assert(!m.Match(vWire([][]byte{{b}, {'x'}})), "a commented-out entry is ignored")
	verifrt.Assert(!m.Match(vWire([][]byte{{'z', 'z'}, {'x'}})), "text after '#' is ignored")
	verifrt.Assert(m.Match(vWire([][]byte{{b}, {'y'}})) && !m.Match(vWire([][]byte{{'w'}, {b}, {'y'}})), "the last line (no newline) is a full: entry")
}

func vTextRule(kind int, labels [][]byte) []byte {
	rule := []byte([]string{"", "domain:", "full:"}[kind])
	for i, l := range labels {
		if i > 0 {
			rule = append(rule, '.')
		}
		rule = append(rule, l...)
	}
	return rule
}

func vLabelsEq(a, b [][]byte) bool {
	if len(a) != len(b) {
		return false
	}
	ok := true
	for i := range a {
		ok = verifrt.And(ok, verifrt.EqBytes(a[i], b[i]))
	}
	return ok
}

// vRuleMatches: declarative meaning of one text rule for a probe name (both as label lists, lower case).
func vRuleMatches(kind int, rule, probe [][]byte) bool {
	if kind == 2 {
		return vLabelsEq(rule, probe)
	}
	if len(probe) < len(rule) {
		return false
	}
	return vLabelsEq(rule, probe[len(probe)-len(rule):])
}

// VerifH_C11_TextSetOrder: two text entries of any kinds (bare / domain: / full:) whose names may be equal, related
// (parent / child) or unrelated, loaded in either order into one MixMatcher: a probe name matches iff at least one
// of the entries matches it on its own — whatever the order, and whatever the other entry is.
func VerifH_C11_TextSetOrder() {
	verifrt.Unwind(80)
	lab := func(tag string) []byte {
		b := verifrt.BytesN(tag, 1)
		verifrt.Assume(b[0] >= 'a' && b[0] <= 'c') // three letters are enough to be equal or different
		return b
	}
	tld := []byte{'t'}
	ka, kb := verifrt.Choose("kindA", 3), verifrt.Choose("kindB", 3)
	ra := [][]byte{lab("a1"), tld}
	rb := [][]byte{lab("b1"), tld}
	if verifrt.Bool("b.three-labels") {
		rb = [][]byte{lab("b0"), rb[0], tld}
	}
	m := NewMixMatcher()
	first, second := vTextRule(ka, ra), vTextRule(kb, rb)
	if verifrt.Bool("b-first") {
		first, second = second, first
	}
	verifrt.Assert(m.Add(first) == nil && m.Add(second) == nil, "well-formed entries are accepted")
	verifrt.Reach("loaded")
	probe := [][]byte{lab("p1"), tld}
	switch verifrt.Choose("probe.labels", 3) {
	case 1:
		probe = [][]byte{lab("p0"), probe[0], tld}
	case 2:
		probe = [][]byte{lab("pp"), lab("p0"), probe[0], tld}
	}
	want := verifrt.Or(vRuleMatches(ka, ra, probe), vRuleMatches(kb, rb, probe))
	verifrt.Assert(m.Match(vWire(probe)) == want, "the set matches exactly the union of its entries, independent of load order")
}

// VerifH_C11_RegexpVerbatim: the regular-expression engine is outside the encoding, but what is handed to it is not:
// for a "regexp:" entry the expression is compiled exactly as written (regexp syntax is case-sensitive: \D is not
// \d), and an entry the engine rejects is an error, not silently dropped.
func VerifH_C11_RegexpVerbatim() {
	var got []string
	fail := verifrt.Bool("compile-fails")
	verifrt.Redirect("(*github.com/IrineSistiana/mosproxy/internal/domain_matcher.RegexpMatcher).Add", func(m *RegexpMatcher, exp string) error {
		got = append(got, exp)
		if fail {
			return vEOF
		}
		return nil
	})
	exp := verifrt.BytesN("exp", 1+verifrt.Choose("exp.len", 3))
	rule := append([]byte("regexp:"), exp...)
	m := NewMixMatcher()
	err := m.Add(rule)
	verifrt.Reach("added")
	verifrt.Assert(len(got) == 1 && verifrt.EqBytes([]byte(got[0]), exp), "the expression reaches the regexp engine octet for octet as written")
	verifrt.Assert((err != nil) == fail, "an expression the engine rejects is reported, a good one accepted")
}

// VerifH_C11_DeepNames: matching is by label suffix at EVERY depth a name can have, not only for the 2-3 labels of
// everyday names: a `domain:` entry of d labels (d = 1..20, thorough 1..60 — reverse-mapping names under ip6.arpa
// have 34) against a query that is the entry itself or has 1..2 more labels in front, with one label of the query
// (any position) an arbitrary octet: the matcher agrees with the suffix-on-label-boundary reference. A second,
// shallow entry is loaded before or after the deep one (the result may not depend on it unless it matches itself).
func VerifH_C11_DeepNames() {
	verifrt.Unwind(400)
	maxDepth := 20
	if verifrt.Thorough() {
		maxDepth = 60
	}
	d := 1 + verifrt.Choose("depth", maxDepth)
	var e [][]byte
	for i := 0; i < d; i++ {
		e = append(e, []byte{byte('a' + i%26)})
	}
	extra := verifrt.Choose("extra", 3)
	var q [][]byte
	for i := 0; i < extra; i++ {
		q = append(q, []byte{'x'})
	}
	for i := 0; i < d; i++ {
		q = append(q, []byte{e[i][0]})
	}
	j := verifrt.Choose("perturbed", len(q))
	q[j] = verifrt.BytesN("ql", 1)
	other := [][]byte{{'z'}, {'z'}}
	m := NewDomainMatcher()
	otherFirst := verifrt.Bool("other-first")
	if otherFirst {
		m.Add(other)
	}
	m.Add(e)
	if !otherFirst {
		m.Add(other)
	}
	got := m.Match(vWire(q))
	verifrt.Reach("matched")
	verifrt.Assert(got == verifrt.Or(refSuffix(e, q), refSuffix(other, q)), "deep names match by label suffix exactly like shallow ones")
}
