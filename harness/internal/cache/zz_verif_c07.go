package cache

import (
	"time"

	"github.com/IrineSistiana/mosproxy/internal/pool"
	"github.com/IrineSistiana/mosproxy/internal/verifrt"
)

// VerifH_C07_GetRecheck: the backend hands Get an entry in ANY state – live for the requested key, recycled
// for another key, released (no value), or locked by a concurrent release – and Get returns a value only
// when the entry really is the live entry of that key, and then a private copy of it.
func VerifH_C07_GetRecheck() {
	verifrt.Unwind(40)
	c := &MemoryCache{}
	k := verifrt.BytesN("k", 2)
	ek := verifrt.BytesN("entry.k", 2)
	e := newCacheEntry()
	hasV := verifrt.Bool("entry.hasvalue")
	e.k = string(ek)
	if hasV {
		v := pool.GetBuf(3)
		copy(v, verifrt.BytesN("entry.v", 3))
		e.v = v
	}
	stored := time.Now()
	e.storedTime = stored
	e.expireTime = stored.Add(time.Second)
	// the backend's lookup is by the requested key, but the entry object it returns may have been recycled
	c.backend.Set(string(k), e, time.Second)
	locked := verifrt.Bool("entry.being-released")
	if locked {
		e.l.Lock()
	}
	v, st, _ := c.Get(k)
	verifrt.Reach("looked-up")
	same := verifrt.EqBytes(k, ek)
	if v != nil {
		verifrt.Reach("hit")
		verifrt.Assert(same, "a recycled entry (now holding another key) is never served")
		verifrt.Assert(hasV && !locked, "a released or locked entry is never served")
		verifrt.Assert(verifrt.EqBytes(v, e.v), "the stored value is returned unchanged")
		verifrt.Assert(!verifrt.SameArray(v, e.v), "the caller gets a private copy, not the entry's own buffer")
		verifrt.Assert(st.Equal(stored), "with its stored time")
	} else if same && hasV && !locked {
		verifrt.Assert(false, "the live entry of the requested key is a hit")
	}
}
