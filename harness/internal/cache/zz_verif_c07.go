package cache

import (
	"time"

	"github.com/IrineSistiana/mosproxy/internal/pool"
	"github.com/IrineSistiana/mosproxy/internal/verifrt"
)

// VerifH_C07_GetRecheck: the backend hands Get an entry in ANY state – live for the requested key, recycled
// for another key, released (no value), or locked by a concurrent release – and Get returns a value only
// when the entry really is the live entry of that key, and then a private copy of it.
func VerifH_C07_GetRecheck() {
	verifrt.Unwind(40)
	c := &MemoryCache{}
	k := verifrt.BytesN("k", 2)
	ek := verifrt.BytesN("entry.k", 2)
	e := newCacheEntry()
	hasV := verifrt.Bool("entry.hasvalue")
	e.k = string(ek)
	if hasV {
		v := pool.GetBuf(3)
		copy(v, verifrt.BytesN("entry.v", 3))
		e.v = v
	}
	stored := time.Now()
	e.storedTime = stored
	e.expireTime = stored.Add(time.Second)
	// the backend's lookup is by the requested key, but the entry object it returns may have been recycled
	c.backend.Set(string(k), e, time.Second)
	locked := verifrt.Bool("entry.being-released")
	if locked {
		e.l.Lock()
	}
	v, st, _ := c.Get(k)
	verifrt.Reach("looked-up")
	same := verifrt.EqBytes(k, ek)
	if v != nil {
		verifrt.Reach("hit")
		verifrt.Assert(same, "a recycled entry (now holding another key) is never served")
		verifrt.Assert(hasV && !locked, "a released or locked entry is never served")
		verifrt.Assert(verifrt.EqBytes(v, e.v), "the stored value is returned unchanged")
		verifrt.Assert(!verifrt.SameArray(v, e.v), "the caller gets a private copy, not the entry's own buffer")
		verifrt.Assert(st.Equal(stored), "with its stored time")
	} else if same && hasV && !locked {
		verifrt.Assert(false, "the live entry of the requested key is a hit")
	}
}

// VerifH_C07_RedisAsyncStoreOwnsKey: the Redis write is asynchronous; the caller (cacheCtl.Store) releases its key
// and value buffers as soon as AsyncStore returns and the next request's key reuses that memory. The queued SET must
// therefore carry its OWN copy of the key and of the value: whatever happens to the caller's buffers afterwards,
// the operation still says "store this value under this key" — never another request's key.
func VerifH_C07_RedisAsyncStoreOwnsKey() {
	verifrt.Unwind(60)
	c := &RedisCache{setOpChan: make(chan redisSetOp, 2)}
	c.connected.Store(true)
	n := 3 + verifrt.Choose("keylen", 2)
	k := pool.GetBuf(n)
	copy(k, verifrt.BytesN("key", n))
	v := pool.GetBuf(3)
	copy(v, verifrt.BytesN("value", 3))
	wantK, wantV := append([]byte(nil), k...), append([]byte(nil), v...)
	nx := verifrt.Bool("nx")
	stored := time.Now()
	c.AsyncStore(k, stored, stored.Add(30*time.Second), v, nx)
	// the caller is done with its buffers; the next request builds another key in the recycled memory
	pool.ReleaseBuf(k)
	pool.ReleaseBuf(v)
	k2 := pool.GetBuf(n)
	for i := range k2 {
		k2[i] = 0xEE
	}
	v2 := pool.GetBuf(3)
	v2[0], v2[1], v2[2] = 0xDD, 0xDD, 0xDD
	select {
	case op := <-c.setOpChan:
		verifrt.Reach("queued")
		verifrt.Assert(verifrt.EqBytes(op.k, wantK), "the queued SET still names the key it was issued for")
		verifrt.Assert(len(op.v) == 16+3 && verifrt.EqBytes(op.v[16:], wantV), "the queued SET still carries the value it was issued with")
		verifrt.Assert(op.nx == nx && op.ttlMs > 10, "write mode and lifetime as requested")
	default:
		verifrt.Reach("not-queued") // lifetime already (almost) over: nothing to write
	}
}
