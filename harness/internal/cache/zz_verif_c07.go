package cache

import (
	"time"

	"github.com/IrineSistiana/mosproxy/internal/pool"
	"github.com/IrineSistiana/mosproxy/internal/verifrt"
)

// VerifH_C07_GetRecheck: the backend hands Get an entry in ANY state – live for the requested key, recycled
// for another key, released (no value), or locked by a concurrent release – and Get returns a value only
// when the entry really is the live entry of that key, and then a private copy of it.
func VerifH_C07_GetRecheck() {
	verifrt.Unwind(40)
	c := &MemoryCache{}
	k := verifrt.BytesN("k", 2)
	ek := verifrt.BytesN("entry.k", 2)
	e := newCacheEntry()
	hasV := verifrt.Bool("entry.hasvalue")
	e.k = string(ek)
	if hasV {
		v := pool.GetBuf(3)
		copy(v, verifrt.BytesN("entry.v", 3))
		e.v = v
	}
	stored := time.Now()
	e.storedTime = stored
	e.expireTime = stored.Add(time.Second)
	// the backend's lookup is by the requested key, but the entry object it returns may have been recycled
	c.backend.Set(string(k), e, time.Second)
	locked := verifrt.Bool("entry.being-released")
	if locked {
		e.l.Lock()
	}
	v, st, _ := c.Get(k)
	verifrt.Reach("looked-up")
	same := verifrt.EqBytes(k, ek)
	if v != nil {
		verifrt.Reach("hit")
		verifrt.Assert(same, "a recycled entry (now holding another key) is never served")
		verifrt.Assert(hasV && !locked, "a released or locked entry is never served")
		verifrt.Assert(verifrt.EqBytes(v, e.v), "the stored value is returned unchanged")
		verifrt.Assert(!verifrt.SameArray(v, e.v), "the caller gets a private copy, not the entry's own buffer")
		verifrt.Assert(st.Equal(stored), "with its stored time")
	} else if same && hasV && !locked {
		verifrt.Assert(false, "the live entry of the requested key is a hit")
	}
}

// VerifH_C07_RedisAsyncStoreOwnsKey: the Redis write is asynchronous; the caller (cacheCtl.Store) releases its key
// and value buffers as soon as AsyncStore returns and the next request's key reuses that memory. The queued SET must
// therefore carry its OWN copy of the key and of the value: whatever happens to the caller's buffers afterwards,
// the operation still says "store this value under this key" — never another request's key.
func VerifH_C07_RedisAsyncStoreOwnsKey() {
	verifrt.Unwind(60)
	c := &RedisCache{setOpChan: make(chan redisSetOp, 2)}
	c.connected.Store(true)
	n := 3 + verifrt.Choose("keylen", 2)
	k := pool.GetBuf(n)
	copy(k, verifrt.BytesN("key", n))
	v := pool.GetBuf(3)
	copy(v, verifrt.BytesN("value", 3))
	wantK, wantV := append([]byte(nil), k...), append([]byte(nil), v...)
	nx := verifrt.Bool("nx")
	stored := time.Now()
	c.AsyncStore(k, stored, stored.Add(30*time.Second), v, nx)
	// the caller is done with its buffers; the next request builds another key in the recycled memory
	pool.ReleaseBuf(k)
	pool.ReleaseBuf(v)
	k2 := pool.GetBuf(n)
	for i := range k2 {
		k2[i] = 0xEE
	}
	v2 := pool.GetBuf(3)
	v2[0], v2[1], v2[2] = 0xDD, 0xDD, 0xDD
	select {
	case op := <-c.setOpChan:
		verifrt.Reach("queued")
		verifrt.Assert(verifrt.EqBytes(op.k, wantK), "the queued SET still names the key it was issued for")
		verifrt.Assert(len(op.v) == 16+3 && verifrt.EqBytes(op.v[16:], wantV), "the queued SET still carries the value it was issued with")
		verifrt.Assert(op.nx == nx && op.ttlMs > 10, "write mode and lifetime as requested")
	default:
		verifrt.Reach("not-queued") // lifetime already (almost) over: nothing to write
	}
}

// VerifH_C07_GetVersusRelease: "unchanged … under concurrent stores, lookups and evictions". A lookup of key k races
// with what the cache library's maintenance does when it evicts / replaces / expires that very entry: the deletion
// listener releases the entry (its value buffer goes back to the pool, the entry object is recycled) and the next
// store reuses both for ANOTHER key. A pre-emption is possible before every lock operation and right after every
// unlock (≤ 2 deviations). The lookup returns nothing, or exactly the value stored under k — it never reads the value
// buffer after the entry's lock was given up (ownership ghost), and never returns the other key's bytes.
func VerifH_C07_GetVersusRelease() {
	verifrt.Unwind(60)
	verifrt.SchedBound(2 + verifrt.Tier) // thorough: one more deviation from the default schedule
	verifrt.PreemptSync()
	verifrt.NoTimers()
	c := &MemoryCache{}
	k, k2 := []byte{1, 'a'}, []byte{1, 'b'}
	want := verifrt.BytesN("v", 3)
	now := time.Now()
	c.Store(k, now, now.Add(time.Minute), want, false)
	e, ok := c.backend.Get(string(k))
	verifrt.Assert(ok && e != nil, "stored")
	type res struct{ v pool.Buffer }
	got := make(chan res, 1)
	go func() {
		v, _, _ := c.Get(k)
		got <- res{v}
	}()
	go func() {
		releaseEntry(e)                                                   // eviction of k's entry
		c.Store(k2, now, now.Add(time.Minute), []byte{0xEE, 0xEE, 0xEE}, false) // recycles entry object and buffer
	}()
	r := <-got
	verifrt.Quiesce()
	verifrt.Reach("looked-up")
	if r.v != nil {
		verifrt.Reach("hit")
		verifrt.Assert(verifrt.EqBytes(r.v, want), "a hit carries exactly the value stored under the requested key")
	}
}

// VerifH_C08_MemoryStoreLifetime: the memory backend is also filled with entries that are NOT fresh: an entry found in
// the shared (Redis) cache is promoted with its ORIGINAL stored and expire instants. Whatever those are (stored at any
// earlier instant, expire at any instant), the time-to-live handed to the cache library ends at the entry's expire
// instant — counted from now, not from when it was first stored: expire − t_after <= ttl <= expire − t_before.
func VerifH_C08_MemoryStoreLifetime() {
	verifrt.IntegerSolver()
	verifrt.Unwind(40)
	c := &MemoryCache{}
	stored := time.Now() // when the answer was fetched (possibly by another instance, long ago)
	life := time.Duration(verifrt.U32("life.s")) * time.Second
	expire := stored.Add(life)
	tA := time.Now() // the promotion happens at some later instant
	c.Store([]byte{1, 'a'}, stored, expire, []byte{1, 2, 3}, verifrt.Bool("nx"))
	tB := time.Now()
	verifrt.Reach("stored")
	verifrt.Assert(verifrt.Ghost("otter.sets") == 1, "handed to the backend once")
	ttl := verifrt.GhostDuration("otter.lastttl")
	verifrt.Assert(ttl <= expire.Sub(tA) && ttl >= expire.Sub(tB), "the backend keeps the entry until its expire instant, however old the entry already is")
}
