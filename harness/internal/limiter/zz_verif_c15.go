package limiter

import (
	"net/netip"
	"time"

	"github.com/IrineSistiana/mosproxy/internal/verifrt"
	"github.com/puzpuzpuz/xsync/v3"
	"golang.org/x/time/rate"
)

// VerifH_C15_Defaults: omitted / out-of-range options get the documented defaults, valid ones are kept.
func VerifH_C15_Defaults() {
	o := ClientLimiterOpts{Limit: 5, Burst: verifrt.Int("burst"), V4Mask: verifrt.Int("v4"), V6Mask: verifrt.Int("v6")}
	in := o
	o.setDefault()
	verifrt.Reach("defaults")
	if in.V4Mask >= 1 && in.V4Mask <= 32 {
		verifrt.Assert(o.V4Mask == in.V4Mask, "configured IPv4 mask kept")
	} else {
		verifrt.Assert(o.V4Mask == 24, "default IPv4 mask is /24")
	}
	if in.V6Mask >= 1 && in.V6Mask <= 128 {
		verifrt.Assert(o.V6Mask == in.V6Mask, "configured IPv6 mask kept")
	} else {
		verifrt.Assert(o.V6Mask == 48, "default IPv6 mask is /48")
	}
	if in.Burst > 0 {
		verifrt.Assert(o.Burst == in.Burst, "configured burst kept")
	} else {
		verifrt.Assert(o.Burst == 5, "default burst is the rate")
	}
}

func vAddr4(tag string) (netip.Addr, uint32) {
	b := verifrt.BytesN(tag, 4)
	u := uint32(b[0])<<24 | uint32(b[1])<<16 | uint32(b[2])<<8 | uint32(b[3])
	return netip.AddrFrom4([4]byte{b[0], b[1], b[2], b[3]}), u
}

func vAddr6(tag string) (netip.Addr, uint64, uint64) {
	b := verifrt.BytesN(tag, 16)
	var a [16]byte
	copy(a[:], b)
	var hi, lo uint64
	for i := 0; i < 8; i++ {
		hi = hi<<8 | uint64(b[i])
		lo = lo<<8 | uint64(b[8+i])
	}
	return netip.AddrFrom16(a), hi, lo
}

func vLimiter() *ClientLimiter {
	o := ClientLimiterOpts{Limit: 5, Burst: 5, V4Mask: verifrt.IntRange("v4mask", 1, 32), V6Mask: verifrt.IntRange("v6mask", 1, 128)}
	return &ClientLimiter{opts: o, m: xsync.NewMapOf[netip.Addr, *e]()}
}

// VerifH_C15_MaskV4: two IPv4 clients (plain or v4-mapped) share a bucket key iff they are in the same /V4Mask.
func VerifH_C15_MaskV4() {
	cl := vLimiter()
	a, ua := vAddr4("a")
	b, ub := vAddr4("b")
	if verifrt.Bool("a.mapped") {
		a = netip.AddrFrom16(a.As16())
	}
	sh := uint(32 - cl.opts.V4Mask)
	same := ua>>sh == ub>>sh
	ka, kb := cl.mask(a), cl.mask(b)
	verifrt.Reach("masked")
	verifrt.Assert(ka.IsValid() && kb.IsValid(), "IPv4 clients get a valid bucket key")
	verifrt.Assert((ka == kb) == same, "same key iff same IPv4 subnet")
}

// VerifH_C15_MaskV6: two IPv6 clients share a key iff they are in the same /V6Mask; v4 and v6 never share.
func VerifH_C15_MaskV6() {
	cl := vLimiter()
	a, ah, al := vAddr6("a")
	b, bh, bl := vAddr6("b")
	verifrt.Assume(!a.Is4In6() && !b.Is4In6())
	m := cl.opts.V6Mask
	var same bool
	if m <= 64 {
		sh := uint(64 - m)
		same = ah>>sh == bh>>sh
	} else {
		sh := uint(128 - m)
		same = ah == bh && al>>sh == bl>>sh
	}
	ka, kb := cl.mask(a), cl.mask(b)
	verifrt.Reach("masked")
	verifrt.Assert(ka.IsValid() && kb.IsValid(), "IPv6 clients get a valid bucket key")
	verifrt.Assert((ka == kb) == same, "same key iff same IPv6 subnet")
	c4, _ := vAddr4("c")
	verifrt.Assert(cl.mask(c4) != ka, "IPv4 and IPv6 clients never share a bucket")
}

// VerifH_C15_DefaultConfigIsolation: with omitted masks, clients of different /24 (v4) get different buckets
// (this is the end-to-end face of the defaults).
func VerifH_C15_DefaultConfigIsolation() {
	o := ClientLimiterOpts{Limit: 5}
	o.setDefault()
	cl := &ClientLimiter{opts: o, m: xsync.NewMapOf[netip.Addr, *e]()}
	a, ua := vAddr4("a")
	b, ub := vAddr4("b")
	now := time.Time{}
	cl.AllowN(a, now, 1)
	cl.AllowN(b, now, 1)
	verifrt.Reach("charged")
	if ua>>8 == ub>>8 {
		verifrt.Assert(cl.m.Size() == 1, "same /24: one bucket")
	} else {
		verifrt.Assert(cl.m.Size() == 2, "different /24: separate buckets")
	}
	a6, ah, _ := vAddr6("a6")
	b6, bh, _ := vAddr6("b6")
	verifrt.Assume(!a6.Is4In6() && !b6.Is4In6())
	before := cl.m.Size()
	cl.AllowN(a6, now, 1)
	cl.AllowN(b6, now, 1)
	if ah>>16 == bh>>16 {
		verifrt.Assert(cl.m.Size() == before+1, "same /48: one bucket")
	} else {
		verifrt.Assert(cl.m.Size() == before+2, "different /48: separate buckets")
	}
}

// VerifH_C15_GcKeepsActiveBuckets: the collector only forgets IDLE buckets. A client seen at instant t1 whose
// bucket is collected before t1 + entryTtl would get a fresh full burst: the admitted total over that window would
// exceed burst + rate x window. For every pair of clock readings (request, collection) less than the TTL apart, and
// any other bucket in the table, the bucket object is still the same afterwards.
func VerifH_C15_GcKeepsActiveBuckets() {
	cl := vLimiter()
	a, _ := vAddr4("a")
	other, _ := vAddr4("b")
	t0 := time.Now()
	cl.AllowN(other, t0, 1) // another client, seen earlier
	t1 := time.Now()
	cl.AllowN(a, t1, 1)
	before, ok1 := cl.m.Load(cl.mask(a))
	verifrt.Assert(ok1 && before != nil, "the request created / used the bucket of its subnet")
	cl.gc()
	t3 := time.Now() // not earlier than the instant gc looked at the clock
	after, ok2 := cl.m.Load(cl.mask(a))
	verifrt.Reach("collected")
	if t3.Sub(t1) < entryTtl {
		verifrt.Reach("active")
		verifrt.Assert(ok2 && after == before, "a bucket used less than the idle TTL ago survives collection (same bucket, same tokens)")
	}
}

type vBucketCall struct {
	l   *rate.Limiter
	now time.Time
	n   int
}

// VerifH_C15_Delegation: the client limiter IS one x/time/rate token bucket per subnet, nothing more: every bucket is
// created with exactly the configured rate and burst, a request is charged to the bucket of its own subnet only
// (same subnet ⇒ same bucket object, different subnet ⇒ a different one), with the caller's instant and cost
// unchanged, and the bucket's verdict is returned as is. Together with the documented contract of rate.Limiter
// (admitted cost over any window ≤ burst + rate × window) this is the per-subnet bound and the isolation.
func VerifH_C15_Delegation() {
	var made []*rate.Limiter
	var calls []vBucketCall
	verifrt.Redirect("golang.org/x/time/rate.NewLimiter", func(r rate.Limit, b int) *rate.Limiter {
		verifrt.Assert(r == 5 && b == 7, "buckets are created with the configured rate and burst")
		l := new(rate.Limiter)
		made = append(made, l)
		return l
	})
	verdicts := []bool{verifrt.Bool("v0"), verifrt.Bool("v1"), verifrt.Bool("v2")}
	verifrt.Redirect("(*golang.org/x/time/rate.Limiter).AllowN", func(l *rate.Limiter, now time.Time, n int) bool {
		calls = append(calls, vBucketCall{l, now, n})
		return verdicts[len(calls)-1]
	})
	o := ClientLimiterOpts{Limit: 5, Burst: 7, V4Mask: verifrt.IntRange("v4mask", 1, 32), V6Mask: 48}
	cl := &ClientLimiter{opts: o, m: xsync.NewMapOf[netip.Addr, *e]()}
	a, ua := vAddr4("a")
	b, ub := vAddr4("b")
	t := []time.Time{time.Now(), time.Now(), time.Now()}
	n := []int{verifrt.IntRange("n0", 1, 100), verifrt.IntRange("n1", 1, 100), verifrt.IntRange("n2", 1, 100)}
	got := []bool{cl.AllowN(a, t[0], n[0]), cl.AllowN(b, t[1], n[1]), cl.AllowN(a, t[2], n[2])}
	verifrt.Reach("charged")
	verifrt.Assert(len(calls) == 3, "every request consults exactly one bucket")
	for i := range calls {
		verifrt.Assert(calls[i].now == t[i] && calls[i].n == n[i], "instant and cost are passed through unchanged")
		verifrt.Assert(got[i] == verdicts[i], "the bucket's verdict is the answer")
	}
	verifrt.Assert(calls[0].l == calls[2].l, "the same client is charged to the same bucket every time")
	shift := uint(32 - o.V4Mask)
	same := ua>>shift == ub>>shift
	verifrt.Assert((calls[1].l == calls[0].l) == same, "another client shares the bucket exactly when it is in the same subnet")
	if same {
		verifrt.Assert(len(made) == 1, "one bucket per subnet")
	} else {
		verifrt.Assert(len(made) == 2, "one bucket per subnet")
	}
}

// VerifH_C15_CrowdedTableIsolation: isolation must not depend on how many OTHER subnets the table currently tracks.
// The table holds any number (0 .. 2^31) of entries of other subnets (a symbolic size, seen by the code through
// Size()); two clients arrive: each is charged to a bucket created with the configured rate and burst, the two share
// a bucket exactly when they are in the same subnet, and the bucket found under the client's own subnet key afterwards
// is the one that was charged — a fresh subnet never lands in somebody else's bucket, however crowded the table is.
func VerifH_C15_CrowdedTableIsolation() {
	var calls []*rate.Limiter
	verifrt.Redirect("(*golang.org/x/time/rate.Limiter).AllowN", func(l *rate.Limiter, now time.Time, n int) bool {
		calls = append(calls, l)
		return verifrt.Bool("verdict")
	})
	o := ClientLimiterOpts{Limit: 5, Burst: 7, V4Mask: 24, V6Mask: 48}
	cl := &ClientLimiter{opts: o, m: xsync.NewMapOf[netip.Addr, *e]()}
	others := verifrt.IntRange("others", 0, 1<<31)
	verifrt.MapExtraSize(cl.m, others)
	a, ua := vAddr4("a")
	b, ub := vAddr4("b")
	now := time.Now()
	cl.AllowN(a, now, 1)
	cl.AllowN(b, now, 1)
	verifrt.Reach("charged")
	verifrt.Assert(len(calls) == 2, "every request consults exactly one bucket")
	same := ua>>8 == ub>>8
	verifrt.Assert((calls[0] == calls[1]) == same, "two clients share a bucket exactly when they are in the same subnet, however many other subnets are tracked")
	ea, oka := cl.m.Load(cl.mask(a))
	eb, okb := cl.m.Load(cl.mask(b))
	verifrt.Assert(oka && okb && ea.l == calls[0] && eb.l == calls[1], "each client's bucket is the one kept under its own subnet key")
}

// VerifH_C15_RacingFirstQueries: the budget of a subnet is ONE bucket also when its first queries arrive at the same
// time on different threads (UDP read threads, per-connection goroutines): two (thorough three) concurrent AllowN
// calls for addresses of one so far unknown /24, a pre-emption possible before every operation of the bucket table and
// every lock operation (≤ 2 deviations): all of them are charged to the same token bucket, and that bucket is the one
// kept in the table afterwards.
func VerifH_C15_RacingFirstQueries() {
	verifrt.Unwind(80)
	verifrt.SchedBound(2 + verifrt.Tier) // thorough: one more deviation from the default schedule
	verifrt.PreemptSync()
	verifrt.NoTimers()
	var calls []*rate.Limiter
	verifrt.Redirect("(*golang.org/x/time/rate.Limiter).AllowN", func(l *rate.Limiter, now time.Time, n int) bool {
		calls = append(calls, l)
		return true
	})
	o := ClientLimiterOpts{Limit: 5, Burst: 7, V4Mask: 24, V6Mask: 48}
	cl := &ClientLimiter{opts: o, m: xsync.NewMapOf[netip.Addr, *e]()}
	n := 2 + verifrt.Tier
	now := time.Now()
	done := make(chan struct{}, n)
	for i := 0; i < n; i++ {
		host := byte(10 + i)
		go func() {
			cl.AllowN(netip.AddrFrom4([4]byte{192, 0, 2, host}), now, 1)
			done <- struct{}{}
		}()
	}
	for i := 0; i < n; i++ {
		<-done
	}
	verifrt.Reach("charged")
	verifrt.Assert(len(calls) == n, "every request consults exactly one bucket")
	for i := 1; i < n; i++ {
		verifrt.Assert(calls[i] == calls[0], "concurrent first queries of one subnet are charged to one and the same bucket")
	}
	kept, ok := cl.m.Load(netip.AddrFrom4([4]byte{192, 0, 2, 0}))
	verifrt.Assert(ok && kept.l == calls[0], "which is the bucket the table keeps for that subnet")
}
