package dnsmsg

import "github.com/IrineSistiana/mosproxy/internal/verifrt"

// VerifH_C11_ParseReadable: the textual-name parser used by the domain-set loader never panics and
// produces a valid wire name for every input text.
func VerifH_C11_ParseReadable() {
	n := 5
	if verifrt.Thorough() {
		n = 7
	}
	verifrt.Unwind(n + 4)
	s := verifrt.Bytes("s", n)
	var b NameBuilder
	err := b.ParseReadable(s)
	if err != nil {
		verifrt.Reach("rejected")
		return
	}
	verifrt.Reach("ok")
	sc := NewNameScanner(b.Data())
	for sc.Scan() {
	}
	verifrt.Assert(sc.Err() == nil, "parsed name is a valid wire name")
}
