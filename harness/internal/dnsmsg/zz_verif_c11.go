package dnsmsg

import "github.com/IrineSistiana/mosproxy/internal/verifrt"

// VerifH_C11_ParseReadable: the textual-name parser used by the domain-set loader never panics and
// produces a valid wire name for every input text.
func VerifH_C11_ParseReadable() {
	n := 5
	if verifrt.Thorough() {
		n = 7
	}
	verifrt.Unwind(n + 4)
	s := verifrt.Bytes("s", n)
	var b NameBuilder
	err := b.ParseReadable(s)
	if err != nil {
		verifrt.Reach("rejected")
		return
	}
	verifrt.Reach("ok")
	sc := NewNameScanner(b.Data())
	for sc.Scan() {
	}
	verifrt.Assert(sc.Err() == nil, "parsed name is a valid wire name")
}

func refEscape(dst []byte, b byte) []byte {
	switch {
	case ('a' <= b && b <= 'z') || ('A' <= b && b <= 'Z') || ('0' <= b && b <= '9') || b == '-':
		return append(dst, b)
	case b == '.':
		return append(dst, '\\', '.')
	case b == '\\':
		return append(dst, '\\', '\\')
	}
	return append(dst, '\\', '0'+b/100, '0'+b/10%10, '0'+b%10)
}

// VerifH_C11_ToReadable: the text form handed to regexp entries is the documented escaping:
// letters/digits/hyphen verbatim, '.' and '\' backslash-escaped, any other octet as \DDD, labels
// joined by '.', no trailing dot, root = ".".
func VerifH_C11_ToReadable() {
	verifrt.Unwind(40)
	shape := vShapes[verifrt.Choose("shape", 5)]
	n := vName("n", shape)
	got, err := ToReadable(n)
	verifrt.Assert(err == nil, "valid wire name converts")
	var want []byte
	if len(shape) == 0 {
		want = []byte{'.'}
	}
	off := 0
	for i, l := range shape {
		if i > 0 {
			want = append(want, '.')
		}
		off++
		for j := 0; j < l; j++ {
			want = refEscape(want, n[off])
			off++
		}
	}
	verifrt.Reach("converted")
	verifrt.Assert(len(got) == len(want), "text length as documented (\\DDD is 4 octets)")
	verifrt.Assert(verifrt.EqBytes(got, want), "text form equals the documented escaping")
}
