package dnsmsg

import (
	"github.com/IrineSistiana/mosproxy/internal/pool"
	"github.com/IrineSistiana/mosproxy/internal/verifrt"
)

// Loop invariant of NameBuilder.unpack (variables as in the source):
//
//	0 <= currOff, 0 <= ptr <= 10, 0 <= len(name) <= 254,
//	ptr == 0  =>  currOff >= off          (no pointer followed yet: still inside this name)
//	ptr  > 0  =>  off < newOff <= len(msg) (the cursor after the first pointer is fixed and in range)
//
// Variant: (10 - ptr) * 70000 + (65535 - currOff) strictly decreases unless a pointer is followed, in which
// case ptr increases; with the hop limit this bounds the number of iterations.
func vNameInv(off, lenMsg, currOff, newOff, ptr, nameLen int) bool {
	return currOff >= 0 && ptr >= 0 && ptr <= 10 && nameLen >= 0 && nameLen <= 254 &&
		(ptr != 0 || currOff >= off) &&
		(ptr == 0 || (newOff > off && newOff <= lenMsg))
}

const vUnpackFn = "(*github.com/IrineSistiana/mosproxy/internal/dnsmsg.NameBuilder).unpack"

// VerifH_C01_NameLoopBase: the invariant holds when the loop is first reached, for every buffer of up
// to 65535 octets and every start offset.
func VerifH_C01_NameLoopBase() {
	verifrt.SymbolicMemory()
	msg := verifrt.BytesUF("msg", 65535)
	off := verifrt.IntRange("off", 0, 65535)
	verifrt.Assume(off <= len(msg))
	var n NameBuilder
	st := verifrt.LoopEnter(vUnpackFn, "currOff", &n, msg, off)
	verifrt.Assert(st == 0, "the loop is reached")
	verifrt.Reach("at-header")
	verifrt.Assert(vNameInv(off, len(msg), verifrt.LoopPhiInt("currOff"), verifrt.LoopPhiInt("newOff"), verifrt.LoopPhiInt("ptr"), verifrt.LoopPhiInt("name")),
		"invariant established on entry")
}

// VerifH_C01_NameLoopStep: from ANY loop state satisfying the invariant (any buffer up to 65535 octets, any
// offsets, any number of pointers followed so far, any amount of name collected) one iteration never panics,
// never reads outside the buffer, re-establishes the invariant and makes progress; and when the function
// returns successfully the cursor it reports is inside the buffer and past the start.
func VerifH_C01_NameLoopStep() {
	verifrt.SymbolicMemory()
	msg := verifrt.BytesUF("msg", 65535)
	off := verifrt.IntRange("off", 0, 65535)
	verifrt.Assume(off <= len(msg))
	var n NameBuilder
	st := verifrt.LoopEnter(vUnpackFn, "currOff", &n, msg, off)
	verifrt.Assume(st == 0)
	// havoc the loop state
	currOff := verifrt.IntRange("currOff", 0, 70000)
	newOff := verifrt.IntRange("newOff", 0, 70000)
	ptr := verifrt.IntRange("ptr", 0, 10)
	nameLen := verifrt.IntRange("nameLen", 0, 254)
	verifrt.Assume(vNameInv(off, len(msg), currOff, newOff, ptr, nameLen))
	verifrt.LoopSetInt("currOff", currOff)
	verifrt.LoopSetInt("newOff", newOff)
	verifrt.LoopSetInt("ptr", ptr)
	verifrt.LoopSetInt("name", nameLen)
	if verifrt.LoopNext() == 0 {
		verifrt.Reach("iterated")
		c2, n2, p2, l2 := verifrt.LoopPhiInt("currOff"), verifrt.LoopPhiInt("newOff"), verifrt.LoopPhiInt("ptr"), verifrt.LoopPhiInt("name")
		verifrt.Assert(vNameInv(off, len(msg), c2, n2, p2, l2), "invariant preserved by one iteration")
		before := (10-ptr)*70000 + (70000 - currOff)
		after := (10-p2)*70000 + (70000 - c2)
		verifrt.Assert(after < before, "every iteration makes progress (label consumed or pointer budget used): the loop terminates")
		return
	}
	if verifrt.LoopRetIsNil(1) {
		verifrt.Reach("returned-ok")
		r := verifrt.LoopRetInt(0)
		verifrt.Assert(r > off && r <= len(msg), "on success the returned cursor is past the start and inside the buffer")
		verifrt.Assert(int(n.l) <= 254, "collected name fits the builder")
	} else {
		verifrt.Reach("returned-err")
	}
}

// ---- record decoders on buffers of any length, with unpackName replaced by its verified contract

// vNameContract is what VerifH_C01_NameLoop* (all lengths) and VerifH_C01_unpackName (exhaustively, small
// buffers) establish about unpackName: it fails, or returns a fresh name of <= 254 octets and a cursor with
// off < off' <= len(msg).
var vNameAdv []int // octets consumed by each successful (stubbed) name decode, in call order

func vNameContract(msg []byte, off int) (Name, int, error) {
	verifrt.Assert(off >= 0 && off <= len(msg), "unpackName is only called with a cursor inside the buffer")
	if verifrt.Bool("name.fails") {
		return nil, off, errBaseLen
	}
	adv := verifrt.IntRange("name.adv", 1, 255)
	verifrt.Assume(off+adv <= len(msg))
	nl := verifrt.IntRange("name.len", 0, 254)
	vNameAdv = append(vNameAdv, adv)
	return Name(pool.GetBuf(nl)), off + adv, nil
}

// VerifH_C01_RecordAnyLength: unpackResource at any offset of any buffer up to 65535 octets (arbitrary
// content: every type, every lying RDLENGTH): no panic, no out-of-bounds access; on success the cursor is
// inside the buffer and advanced by exactly 10 + RDLENGTH past the owner name.
func VerifH_C01_RecordAnyLength() {
	verifrt.SymbolicMemory()
	verifrt.Unwind(40)
	verifrt.Redirect("github.com/IrineSistiana/mosproxy/internal/dnsmsg.unpackName", vNameContract)
	msg := verifrt.BytesUF("msg", 65535)
	off := verifrt.IntRange("off", 0, 65535)
	verifrt.Assume(off <= len(msg))
	r, off2, err := unpackResource(msg, off)
	if err != nil {
		verifrt.Reach("rejected")
		verifrt.Assert(r == nil, "no record on error")
		return
	}
	verifrt.Reach("ok")
	verifrt.Assert(r != nil && off2 > off && off2 <= len(msg), "cursor advanced and inside the buffer")
	verifrt.Assert(off2-off == vNameAdv[0]+10+int(r.Hdr().Length), "a record is accepted only if exactly RDLENGTH octets of RDATA are consumed (the length field cannot lie)")
}

// VerifH_C01_QuestionAnyLength: same for unpackQuestion.
func VerifH_C01_QuestionAnyLength() {
	verifrt.SymbolicMemory()
	verifrt.Redirect("github.com/IrineSistiana/mosproxy/internal/dnsmsg.unpackName", vNameContract)
	msg := verifrt.BytesUF("msg", 65535)
	off := verifrt.IntRange("off", 0, 65535)
	verifrt.Assume(off <= len(msg))
	q, off2, err := unpackQuestion(msg, off)
	if err != nil {
		verifrt.Reach("rejected")
		return
	}
	verifrt.Reach("ok")
	verifrt.Assert(q != nil && off2 > off && off2 <= len(msg), "cursor advanced and inside the buffer")
}

// ---- the four section loops of Msg.Unpack for ANY section counts (0..65535 each) and any buffer length

// vRecordContract / vQuestionContract: what VerifH_C01_RecordAnyLength / QuestionAnyLength establish about the two
// element decoders at any offset of any buffer: they fail, or return an element and a cursor with off < off' <= len.
func vRecordContract(msg []byte, off int) (Resource, int, error) {
	verifrt.Assert(off >= 0 && off <= len(msg), "unpackResource is only called with a cursor inside the buffer")
	if verifrt.Bool("rec.fails") {
		return nil, off, errBaseLen
	}
	adv := verifrt.IntRange("rec.adv", 11, 65535)
	verifrt.Assume(off+adv <= len(msg))
	return NewRaw(), off + adv, nil
}

func vQuestionContract(msg []byte, off int) (*Question, int, error) {
	verifrt.Assert(off >= 0 && off <= len(msg), "unpackQuestion is only called with a cursor inside the buffer")
	if verifrt.Bool("q.fails") {
		return nil, off, errBaseLen
	}
	adv := verifrt.IntRange("q.adv", 5, 259)
	verifrt.Assume(off+adv <= len(msg))
	return NewQuestion(), off + adv, nil
}

// VerifH_C01_SectionLoopStep: loop k (shard: 0 questions, 1 answers, 2 authorities, 3 additionals) of Msg.Unpack,
// for every buffer of 12..65535 octets and every declared count 0..65535: from ANY loop state satisfying the
// invariant  0 <= i <= count_k  ∧  12 <= off <= len(msg)  one iteration (element decoder replaced by its contract)
// never panics, keeps the invariant and increases i (so the loop ends after at most count_k <= 65535 iterations,
// in fact after at most len(msg)/5 because every element consumes octets); on exit the cursor still satisfies the
// next loop's invariant. The loop is reached with the EARLIER sections empty — their own iterations are the subject
// of the lower shards, and the cursor they leave behind is covered by havocking `off` — and left with the LATER
// sections empty (the function then returns nil at once).
func VerifH_C01_SectionLoopStep_S4() {
	verifrt.SymbolicMemory()
	verifrt.Unwind(40)
	verifrt.Redirect("github.com/IrineSistiana/mosproxy/internal/dnsmsg.unpackResource", vRecordContract)
	verifrt.Redirect("github.com/IrineSistiana/mosproxy/internal/dnsmsg.unpackQuestion", vQuestionContract)
	k := verifrt.Shard()
	msg := verifrt.BytesUF("msg", 65535)
	verifrt.Assume(len(msg) >= 12)
	for j := 0; j < 4; j++ {
		if j != k {
			verifrt.Assume(msg[4+2*j] == 0 && msg[5+2*j] == 0)
		}
	}
	count := int(msg[4+2*k])<<8 | int(msg[5+2*k])
	m := NewMsg()
	phi := []string{"i#0?", "i#1?", "i#2?", "i#3?"}[k]
	st := verifrt.LoopEnter("(*github.com/IrineSistiana/mosproxy/internal/dnsmsg.Msg).Unpack", phi, m, msg)
	if st == 2 {
		// Msg.Unpack no longer consists of four counting loops over `i` (e.g. the sections were moved into a helper): the
		// invariant below was written for that shape and does not apply. The exhaustive harness C01_UnpackMsg (counts 0..2)
		// and the element-decoder contracts still run; this modular step is skipped for this tree, visibly.
		verifrt.Reach("loop-structure-differs")
		return
	}
	verifrt.Assert(st == 0, "the loop header is reached")
	verifrt.Assert(verifrt.LoopPhiInt("i") == 0 && verifrt.LoopPhiInt("off") == 12, "base case: i = 0, cursor right after the header")
	i := verifrt.IntRange("i", 0, 65535)
	off := verifrt.IntRange("off", 0, 70000)
	verifrt.Assume(i <= count && off >= 12 && off <= len(msg))
	verifrt.LoopSetInt("i", i)
	verifrt.LoopSetInt("off", off)
	if verifrt.LoopNext() == 0 {
		verifrt.Reach("iterated")
		i2, off2 := verifrt.LoopPhiInt("i"), verifrt.LoopPhiInt("off")
		verifrt.Assert(i < count, "the body only runs while elements are owed")
		verifrt.Assert(i2 == i+1 && i2 <= count, "i advances by one and stays within the declared count")
		verifrt.Assert(off2 > off && off2 <= len(msg), "the cursor advances and stays inside the buffer")
		return
	}
	if verifrt.LoopRetIsNil(0) {
		verifrt.Reach("section-complete")
		verifrt.Assert(i == count, "the loop is left exactly when the declared number of elements was decoded")
	} else {
		verifrt.Reach("rejected")
	}
}
