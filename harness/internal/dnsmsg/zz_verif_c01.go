package dnsmsg

import "github.com/IrineSistiana/mosproxy/internal/verifrt"

// VerifH_C01_unpackName: unpackName on an arbitrary small buffer never panics, terminates,
// and on success returns a cursor inside the buffer and a valid wire name.
func VerifH_C01_unpackName() {
	n := 8
	if verifrt.Thorough() {
		n = 10
	}
	verifrt.Unwind(140)
	msg := verifrt.Bytes("msg", n)
	off := verifrt.IntRange("off", 0, n)
	verifrt.Assume(off <= len(msg))
	name, off2, err := unpackName(msg, off)
	if err != nil {
		verifrt.Reach("rejected")
		return
	}
	verifrt.Reach("ok")
	verifrt.Assert(off2 > off && off2 <= len(msg), "cursor inside buffer and advanced")
	verifrt.Assert(len(name) <= 254, "name length <= 254")
	sc := NewNameScanner(name)
	for sc.Scan() {
	}
	verifrt.Assert(sc.Err() == nil, "decoded name is a valid wire name")
}
