package dnsmsg

import (
	"github.com/IrineSistiana/mosproxy/internal/pool"
	"github.com/IrineSistiana/mosproxy/internal/verifrt"
)

// VerifH_C01_unpackName: unpackName on an arbitrary small buffer never panics, terminates,
// and on success returns a cursor inside the buffer and a valid wire name.
func VerifH_C01_unpackName() {
	n := 8
	if verifrt.Thorough() {
		n = 10
	}
	verifrt.Unwind(140)
	msg := verifrt.Bytes("msg", n)
	off := verifrt.IntRange("off", 0, n)
	verifrt.Assume(off <= len(msg))
	name, off2, err := unpackName(msg, off)
	if err != nil {
		verifrt.Reach("rejected")
		return
	}
	verifrt.Reach("ok")
	verifrt.Assert(off2 > off && off2 <= len(msg), "cursor inside buffer and advanced")
	verifrt.Assert(len(name) <= 254, "name length <= 254")
	sc := NewNameScanner(name)
	for sc.Scan() {
	}
	verifrt.Assert(sc.Err() == nil, "decoded name is a valid wire name")
}

var vC01Types = []Type{TypeA, TypeAAAA, TypeNS, TypeMX, TypeSOA, TypeSRV, TypeTXT, TypeOPT}

// VerifH_C01_unpackResource: a record header with a fixed owner/type/class/ttl followed by an ARBITRARY
// (lying) RDLENGTH and arbitrary RDATA octets, cut off anywhere: the record decoders never panic, never
// read outside the buffer, and on success leave the cursor inside the buffer.
func VerifH_C01_unpackResource_S8() {
	verifrt.Unwind(160)
	typ := vC01Types[verifrt.Shard()]
	nt := 8
	if verifrt.Thorough() {
		nt = 10
	}
	prefix := []byte{0, byte(typ >> 8), byte(typ), 0, 1, 0, 0, 0, 5}
	tail := verifrt.Bytes("tail", nt) // RDLENGTH (2) + RDATA, possibly truncated
	msg := append(append([]byte(nil), prefix...), tail...)
	if len(tail) >= 1 {
		verifrt.Assume(tail[0] == 0) // RDLENGTH < 256 (larger values only fail the length test earlier)
	}
	r, off, err := unpackResource(msg, 0)
	if err != nil {
		verifrt.Reach("rejected")
		verifrt.Assert(r == nil, "no record on error")
		return
	}
	verifrt.Reach("ok")
	verifrt.Assert(r != nil && off > 10 && off <= len(msg), "cursor advanced and inside the buffer")
	verifrt.Assert(r.Hdr().Type == typ, "record type as on the wire")
	verifrt.Assert(off == 11+int(r.Hdr().Length), "exactly RDLENGTH octets of RDATA are consumed")
}

// VerifH_C01_truncatedHeader: every prefix of a record header / message header is rejected cleanly.
func VerifH_C01_truncatedHeader() {
	verifrt.Unwind(60)
	full := []byte{1, 'a', 0, 0, 1, 0, 1, 0, 0, 0, 9, 0, 4, 1, 2, 3, 4}
	k := verifrt.Choose("k", len(full))
	_, _, err := unpackResource(full[:k], 0)
	verifrt.Assert(err != nil, "a truncated record is rejected")
	verifrt.Reach("rejected")
	hdr := verifrt.Bytes("hdr", 11)
	m := NewMsg()
	verifrt.Assert(m.Unpack(hdr) != nil, "a message shorter than its header is rejected")
}

// VerifH_C01_UnpackMsg: a whole message: fixed ID/flags, arbitrary small section counts and an arbitrary
// short body, cut off anywhere.
func VerifH_C01_UnpackMsg() {
	verifrt.Unwind(200)
	nb := 6
	if verifrt.Thorough() {
		nb = 8
	}
	cnt := verifrt.BytesN("counts", 4)
	for _, c := range cnt {
		verifrt.Assume(c <= 2)
	}
	body := verifrt.Bytes("body", nb)
	msg := []byte{0x12, 0x34, 0x01, 0x00, 0, cnt[0], 0, cnt[1], 0, cnt[2], 0, cnt[3]}
	msg = append(msg, body...)
	m, err := UnpackMsg(msg)
	if err != nil {
		verifrt.Reach("rejected")
		verifrt.Assert(m == nil, "no message on error")
		return
	}
	verifrt.Reach("ok")
	verifrt.Assert(len(m.Questions) == int(cnt[0]) && len(m.Answers) == int(cnt[1]) && len(m.Authorities) == int(cnt[2]) && len(m.Additionals) == int(cnt[3]),
		"an accepted message has exactly the announced number of entries")
	verifrt.Assert(m.ID == 0x1234 && m.RecursionDesired, "header fields")
}

// VerifH_C01_ToReadableHostileName: the longest legal name (254 octets of labels) made of octets that all need the
// 4-character \DDD escape (plus two arbitrary ones): the text form – built for logs and for regular-expression rules –
// fits its buffer and goes back to the pool without a crash. (The pool panics on a buffer whose capacity is not one
// of its size classes, e.g. one that append had to re-allocate.)
func VerifH_C01_ToReadableHostileName() {
	verifrt.Unwind(400)
	last := 57 + verifrt.Choose("last-label", 5) // total 250..254
	n := pool.GetBuf(3*64 + 1 + last)
	off := 0
	for _, l := range []int{63, 63, 63, last} {
		n[off] = byte(l)
		off++
		for i := 0; i < l; i++ {
			n[off] = 1
			off++
		}
	}
	n[1], n[len(n)-1] = verifrt.Byte("first"), verifrt.Byte("last")
	b, err := ToReadable(n)
	verifrt.Assert(err == nil, "a valid name has a text form")
	verifrt.Reach("converted")
	verifrt.Assert(len(b) >= 4*(len(n)-4)-6+3 && len(b) <= 4*(len(n)-4)+3, "every unprintable octet takes 4 characters, labels are joined by dots")
	pool.ReleaseBuf(b)
	pool.ReleaseBuf(n)
	verifrt.Reach("released")
}
