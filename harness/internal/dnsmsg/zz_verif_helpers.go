package dnsmsg

import (
	"github.com/IrineSistiana/mosproxy/internal/pool"
	"github.com/IrineSistiana/mosproxy/internal/verifrt"
)

// label-length shapes of the wire names the harnesses build (contents are arbitrary octets)
var vShapes = [][]int{{}, {1}, {2}, {1, 1}, {3}, {2, 1}, {1, 1, 1}}

// vName builds a wire-format name (no root octet) of the given shape in a pool buffer.
func vName(tag string, shape []int) Name {
	n := 0
	for _, l := range shape {
		n += 1 + l
	}
	b := pool.GetBuf(n)
	off := 0
	for _, l := range shape {
		b[off] = byte(l)
		off++
		for i := 0; i < l; i++ {
			b[off] = verifrt.Byte(tag)
			off++
		}
	}
	return Name(b)
}

func vNameAny(tag string, nshapes int) Name {
	return vName(tag, vShapes[verifrt.Choose(tag+".shape", nshapes)])
}

func vHeader() Header {
	return Header{
		ID:                 verifrt.U16("id"),
		Response:           verifrt.Bool("qr"),
		OpCode:             OpCode(verifrt.U16("opcode") & 0xF),
		Authoritative:      verifrt.Bool("aa"),
		Truncated:          verifrt.Bool("tc"),
		RecursionDesired:   verifrt.Bool("rd"),
		RecursionAvailable: verifrt.Bool("ra"),
		AuthenticData:      verifrt.Bool("ad"),
		CheckingDisabled:   verifrt.Bool("cd"),
		RCode:              RCode(verifrt.U16("rcode") & 0xF),
	}
}

func vQuestion(tag string, nshapes int) *Question {
	q := NewQuestion()
	q.Name = vNameAny(tag+".name", nshapes)
	q.Type = Type(verifrt.U16(tag + ".type"))
	q.Class = Class(verifrt.U16(tag + ".class"))
	return q
}

func vHdr(tag string, typ Type, nshapes int) ResourceHdr {
	return ResourceHdr{
		Name:  vNameAny(tag+".owner", nshapes),
		Type:  typ,
		Class: Class(verifrt.U16(tag + ".class")),
		TTL:   verifrt.U32(tag + ".ttl"),
	}
}

// vResource builds a well-formed resource of kind k:
// 0 A, 1 AAAA, 2 NAME (NS/CNAME/PTR), 3 MX, 4 SOA, 5 SRV, 6 raw (unknown type, or OPT)
func vResource(tag string, k int, ownerShapes, rdShapes, rawMax int) Resource {
	switch k {
	case 0:
		r := NewA()
		r.ResourceHdr = vHdr(tag, TypeA, ownerShapes)
		copy(r.A[:], verifrt.BytesN(tag+".a", 4))
		return r
	case 1:
		r := NewAAAA()
		r.ResourceHdr = vHdr(tag, TypeAAAA, ownerShapes)
		copy(r.AAAA[:], verifrt.BytesN(tag+".aaaa", 16))
		return r
	case 2:
		r := NewNAME()
		t := [3]Type{TypeNS, TypeCNAME, TypePTR}[verifrt.Choose(tag+".nametype", 3)]
		r.ResourceHdr = vHdr(tag, t, ownerShapes)
		r.NameData = vNameAny(tag+".rdname", rdShapes)
		return r
	case 3:
		r := NewMX()
		r.ResourceHdr = vHdr(tag, TypeMX, ownerShapes)
		r.Pref = verifrt.U16(tag + ".pref")
		r.MX = vNameAny(tag+".mx", rdShapes)
		return r
	case 4:
		r := NewSOA()
		r.ResourceHdr = vHdr(tag, TypeSOA, ownerShapes)
		r.NS = vNameAny(tag+".ns", rdShapes)
		r.MBox = vNameAny(tag+".mbox", rdShapes)
		r.Serial = verifrt.U32(tag + ".serial")
		r.Refresh = verifrt.U32(tag + ".refresh")
		r.Retry = verifrt.U32(tag + ".retry")
		r.Expire = verifrt.U32(tag + ".expire")
		r.MinTTL = verifrt.U32(tag + ".minttl")
		return r
	case 5:
		r := NewSRV()
		r.ResourceHdr = vHdr(tag, TypeSRV, ownerShapes)
		r.Priority = verifrt.U16(tag + ".prio")
		r.Weight = verifrt.U16(tag + ".weight")
		r.Port = verifrt.U16(tag + ".port")
		r.Target = vNameAny(tag+".target", rdShapes)
		return r
	default:
		r := NewRaw()
		t := Type(verifrt.U16(tag + ".rawtype"))
		verifrt.Assume(t != TypeA && t != TypeAAAA && t != TypeMX && t != TypeCNAME && t != TypeNS && t != TypePTR && t != TypeSOA && t != TypeSRV)
		r.ResourceHdr = vHdr(tag, t, ownerShapes)
		n := verifrt.Choose(tag+".rawlen", rawMax+1)
		d := pool.GetBuf(n)
		copy(d, verifrt.BytesN(tag+".raw", n))
		r.Data = d
		return r
	}
}

// ---------------------------------------------------------------- independent reference decoder (RFC 1035)

// refName decodes a possibly compressed name at off; returns the uncompressed wire name without the
// root octet, the offset after the name in the record stream, and ok.
func refName(msg []byte, off int) ([]byte, int, bool) {
	var out []byte
	end := -1
	hops := 0
	for {
		if off >= len(msg) {
			return nil, 0, false
		}
		c := int(msg[off])
		switch {
		case c == 0:
			if end < 0 {
				end = off + 1
			}
			return out, end, true
		case c < 64:
			if off+1+c > len(msg) {
				return nil, 0, false
			}
			out = append(out, msg[off:off+1+c]...)
			off += 1 + c
		case c >= 192:
			if off+1 >= len(msg) {
				return nil, 0, false
			}
			if end < 0 {
				end = off + 2
			}
			off = (c-192)<<8 | int(msg[off+1])
			hops++
			if hops > 20 {
				return nil, 0, false
			}
		default:
			return nil, 0, false
		}
	}
}

func refU16(b []byte, off int) uint16 { return uint16(b[off])<<8 | uint16(b[off+1]) }
func refU32(b []byte, off int) uint32 {
	return uint32(b[off])<<24 | uint32(b[off+1])<<16 | uint32(b[off+2])<<8 | uint32(b[off+3])
}

type refRR struct {
	owner []byte
	typ   uint16
	class uint16
	ttl   uint32
	rdOff int
	rdLen int
	next  int
}

func refRecord(msg []byte, off int) (refRR, bool) {
	var r refRR
	var ok bool
	r.owner, off, ok = refName(msg, off)
	if !ok || off+10 > len(msg) {
		return r, false
	}
	r.typ = refU16(msg, off)
	r.class = refU16(msg, off+2)
	r.ttl = refU32(msg, off+4)
	r.rdLen = int(refU16(msg, off+8))
	r.rdOff = off + 10
	r.next = r.rdOff + r.rdLen
	if r.next > len(msg) {
		return r, false
	}
	return r, true
}

// refCheckResource compares one encoded record against the in-memory resource it was produced from.
func refCheckResource(msg []byte, off int, want Resource, what string) int {
	rr, ok := refRecord(msg, off)
	verifrt.Assert(ok, what+": reference decoder accepts the record")
	h := want.Hdr()
	verifrt.Assert(verifrt.EqBytes(rr.owner, h.Name), what+": owner name octet-exact")
	verifrt.Assert(rr.typ == uint16(h.Type) && rr.class == uint16(h.Class) && rr.ttl == h.TTL, what+": type/class/ttl")
	rd := rr.rdOff
	switch w := want.(type) {
	case *A:
		verifrt.Assert(rr.rdLen == 4 && verifrt.EqBytes(msg[rd:rd+4], w.A[:]), what+": A rdata")
	case *AAAA:
		verifrt.Assert(rr.rdLen == 16 && verifrt.EqBytes(msg[rd:rd+16], w.AAAA[:]), what+": AAAA rdata")
	case *NAMEResource:
		n, e, ok := refName(msg, rd)
		verifrt.Assert(ok && e == rr.next && verifrt.EqBytes(n, w.NameData), what+": NAME rdata")
	case *MX:
		verifrt.Assert(rr.rdLen >= 3 && refU16(msg, rd) == w.Pref, what+": MX pref")
		n, e, ok := refName(msg, rd+2)
		verifrt.Assert(ok && e == rr.next && verifrt.EqBytes(n, w.MX), what+": MX name")
	case *SOA:
		n1, e1, ok1 := refName(msg, rd)
		verifrt.Assert(ok1 && verifrt.EqBytes(n1, w.NS), what+": SOA ns")
		n2, e2, ok2 := refName(msg, e1)
		verifrt.Assert(ok2 && verifrt.EqBytes(n2, w.MBox), what+": SOA mbox")
		verifrt.Assert(e2+20 == rr.next, what+": SOA rdlength")
		verifrt.Assert(refU32(msg, e2) == w.Serial && refU32(msg, e2+4) == w.Refresh && refU32(msg, e2+8) == w.Retry &&
			refU32(msg, e2+12) == w.Expire && refU32(msg, e2+16) == w.MinTTL, what+": SOA numbers")
	case *SRV:
		verifrt.Assert(rr.rdLen >= 7 && refU16(msg, rd) == w.Priority && refU16(msg, rd+2) == w.Weight && refU16(msg, rd+4) == w.Port, what+": SRV numbers")
		n, e, ok := refName(msg, rd+6)
		verifrt.Assert(ok && e == rr.next && verifrt.EqBytes(n, w.Target), what+": SRV target")
	case *RawResource:
		verifrt.Assert(rr.rdLen == len(w.Data) && verifrt.EqBytes(msg[rd:rd+rr.rdLen], w.Data), what+": raw rdata byte for byte")
	}
	return rr.next
}

// sameResource: field-wise equality of two in-memory resources (names octet-exact).
func sameResource(a, b Resource, what string) {
	ha, hb := a.Hdr(), b.Hdr()
	verifrt.Assert(verifrt.EqBytes(ha.Name, hb.Name) && ha.Type == hb.Type && ha.Class == hb.Class && ha.TTL == hb.TTL, what+": header fields")
	switch x := a.(type) {
	case *A:
		y, ok := b.(*A)
		verifrt.Assert(ok && x.A == y.A, what+": A")
	case *AAAA:
		y, ok := b.(*AAAA)
		verifrt.Assert(ok && x.AAAA == y.AAAA, what+": AAAA")
	case *NAMEResource:
		y, ok := b.(*NAMEResource)
		verifrt.Assert(ok && verifrt.EqBytes(x.NameData, y.NameData), what+": NAME")
	case *MX:
		y, ok := b.(*MX)
		verifrt.Assert(ok && x.Pref == y.Pref && verifrt.EqBytes(x.MX, y.MX), what+": MX")
	case *SOA:
		y, ok := b.(*SOA)
		verifrt.Assert(ok && verifrt.EqBytes(x.NS, y.NS) && verifrt.EqBytes(x.MBox, y.MBox) && x.Serial == y.Serial &&
			x.Refresh == y.Refresh && x.Retry == y.Retry && x.Expire == y.Expire && x.MinTTL == y.MinTTL, what+": SOA")
	case *SRV:
		y, ok := b.(*SRV)
		verifrt.Assert(ok && x.Priority == y.Priority && x.Weight == y.Weight && x.Port == y.Port && verifrt.EqBytes(x.Target, y.Target), what+": SRV")
	case *RawResource:
		y, ok := b.(*RawResource)
		verifrt.Assert(ok && verifrt.EqBytes(x.Data, y.Data), what+": raw")
	}
}

// VerifModel_bytes_EqualFold: package-level default model (picked up by the engine for every harness of this package)
// of bytes.EqualFold for ASCII operands: equal length and octet-wise equal after folding A-Z. The real function folds
// by Unicode simple case folding over UTF-8, which forks on every symbolic octet; for operands restricted to ASCII the
// two agree exactly. Paths on which an operand has an octet >= 0x80 are cut (assumption, stated in the evidence); the
// pinned tree does not call EqualFold in this package at all.
func VerifModel_bytes_EqualFold(a, b []byte) bool {
	if len(a) != len(b) {
		for _, c := range a {
			verifrt.Assume(c < 0x80)
		}
		for _, c := range b {
			verifrt.Assume(c < 0x80)
		}
		return false
	}
	eq := true
	for i := range a {
		x, y := a[i], b[i]
		verifrt.Assume(x < 0x80 && y < 0x80)
		lx := byte(verifrt.Ite('A' <= x && x <= 'Z', int(x)+32, int(x)))
		ly := byte(verifrt.Ite('A' <= y && y <= 'Z', int(y)+32, int(y)))
		eq = verifrt.And(eq, lx == ly)
	}
	return eq
}
