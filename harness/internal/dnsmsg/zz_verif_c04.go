package dnsmsg

import (
	"github.com/IrineSistiana/mosproxy/internal/pool"
	"github.com/IrineSistiana/mosproxy/internal/verifrt"
)

var vC04Types = []Type{TypeA, TypeAAAA, TypeNS, TypeMX, TypeSOA, TypeSRV, TypeTXT}

// VerifH_C04_DecodeFailureRecycling: a record object that was filled, released and is then picked up again
// (LIFO pool model: exactly the object just released, as it was left) by a decode of ARBITRARY bytes — which may
// fail at any field — never gives a buffer back to the pool twice and never leaves the next owner a reference
// into memory somebody else holds. Double releases and stale references are reported by the ownership ghosts;
// the explicit check at the end draws buffers of every size class that was touched and demands that they are
// pairwise distinct arrays.
func VerifH_C04_DecodeFailureRecycling_S7() {
	verifrt.Unwind(160)
	k := verifrt.Shard()
	typ := vC04Types[k]
	// 1. what every decoded reply does: a well-formed record of this kind lives and is released
	r0 := vResource("r0", k, 2, 3, 2)
	if k == 6 {
		verifrt.Assume(r0.Hdr().Type == TypeTXT)
	}
	ReleaseResource(r0)
	// 2. a record of the same kind arrives with arbitrary (possibly undecodable / truncated) RDATA
	nt := 5
	if verifrt.Thorough() {
		nt = 8
	}
	prefix := []byte{0, byte(typ >> 8), byte(typ), 0, 1, 0, 0, 0, 5}
	tail := verifrt.Bytes("tail", nt)
	msg := append(append([]byte(nil), prefix...), tail...)
	if len(tail) >= 1 {
		verifrt.Assume(tail[0] == 0)
	}
	r, _, err := unpackResource(msg, 0)
	if err != nil {
		verifrt.Reach("rejected")
	} else {
		verifrt.Reach("ok")
		ReleaseResource(r)
	}
	// 3. the next two owners of small buffers get different arrays
	a := pool.GetBuf(2)
	b := pool.GetBuf(2)
	a[0], b[0] = 1, 2
	verifrt.Assert(a[0] == 1, "two live pool buffers never share memory")
	pool.ReleaseBuf(a)
	pool.ReleaseBuf(b)
}

// VerifH_C02_RejectedRecordThenRoundTrip: the codec preserves content only as long as the names it hands out are
// exclusively owned: a record that FAILS to decode (any kind, arbitrary RDATA, cut anywhere) must leave the buffer
// pool consistent — nothing returned twice — or the next accepted message's names overwrite each other and it
// re-encodes to different names. After the rejected record, a valid message with two different names of the same size
// class is decoded, re-encoded and compared (the scenario of C04_DecodeFailureRecycling followed by a round trip).
func VerifH_C02_RejectedRecordThenRoundTrip_S7() {
	verifrt.Expect("accepted,rejected")
	VerifH_C04_DecodeFailureRecycling_S7()
	// question q.<x>, CNAME owner r.<y> -> target t.<z>, all names 2+2 octets: same pool size class
	x, y, z := verifrt.Byte("x"), verifrt.Byte("y"), verifrt.Byte("z")
	wire := []byte{0, 7, 0x81, 0x80, 0, 1, 0, 1, 0, 0, 0, 0,
		1, 'q', 1, x, 0, 0, 5, 0, 1,
		1, 'r', 1, y, 0, 0, 5, 0, 1, 0, 0, 0, 60, 0, 5, 1, 't', 1, z, 0}
	m, err := UnpackMsg(wire)
	verifrt.Assert(err == nil, "a well-formed message is accepted")
	verifrt.Reach("accepted")
	b := pool.GetBuf(m.Len())
	n, err := m.Pack(b, false, 0)
	verifrt.Assert(err == nil && n == m.Len(), "and re-encodes to its advertised length")
	verifrt.Assert(verifrt.EqBytes(b[:n], wire), "to the same octets (no compression, canonical input): names, types, TTL and RDATA intact")
}

// VerifH_C20_DecodeFailureOwnership: the same decode-failure scenario under the ownership property: whatever field a
// hostile record fails at, no buffer is released twice and no two owners share memory (ownership ghosts + explicit check).
func VerifH_C20_DecodeFailureOwnership_S7() { VerifH_C04_DecodeFailureRecycling_S7() }
