package dnsmsg

import (
	"github.com/IrineSistiana/mosproxy/internal/pool"
	"github.com/IrineSistiana/mosproxy/internal/verifrt"
)

// vRoundTrip packs m (no size limit), checks the bytes with the reference decoder, decodes them with
// the real decoder and compares field by field.
func vRoundTrip(m *Msg) {
	comp := verifrt.Bool("compression")
	l := m.Len()
	b := pool.GetBuf(l)
	n, err := m.Pack(b, comp, 0)
	verifrt.Assert(err == nil, "packing a well-formed message succeeds")
	verifrt.Assert(n <= l, "packed size <= Len()")
	if !comp {
		verifrt.Assert(n == l, "uncompressed encoding has exactly the advertised length")
	}
	verifrt.Reach("packed")
	out := b[:n]
	// --- reference decoder over the emitted bytes
	id, bits := m.Header.Pack()
	verifrt.Assert(refU16(out, 0) == id && refU16(out, 2) == bits, "header id/flags")
	verifrt.Assert(id == m.Header.ID && bits == refHeaderBits(m.Header), "flag word laid out as RFC 1035 4.1.1 / RFC 4035 3.1 (independent of the codec's own constants)")
	verifrt.Assert(int(refU16(out, 4)) == len(m.Questions) && int(refU16(out, 6)) == len(m.Answers) &&
		int(refU16(out, 8)) == len(m.Authorities) && int(refU16(out, 10)) == len(m.Additionals), "section counts")
	off := 12
	for _, q := range m.Questions {
		name, e, ok := refName(out, off)
		verifrt.Assert(ok && e+4 <= n, "question decodes (reference)")
		verifrt.Assert(verifrt.EqBytes(name, q.Name), "question name octet-exact (reference)")
		verifrt.Assert(refU16(out, e) == uint16(q.Type) && refU16(out, e+2) == uint16(q.Class), "question type/class (reference)")
		off = e + 4
	}
	for _, r := range m.Answers {
		off = refCheckResource(out, off, r, "answer (reference)")
	}
	for _, r := range m.Authorities {
		off = refCheckResource(out, off, r, "authority (reference)")
	}
	for _, r := range m.Additionals {
		off = refCheckResource(out, off, r, "additional (reference)")
	}
	verifrt.Assert(off == n, "no trailing or missing bytes")
	// --- the proxy's own decoder
	m2 := NewMsg()
	err = m2.Unpack(out)
	verifrt.Assert(err == nil, "own decoder accepts own encoding")
	verifrt.Reach("decoded")
	verifrt.Assert(m2.Header == m.Header, "header fields preserved")
	verifrt.Assert(len(m2.Questions) == len(m.Questions) && len(m2.Answers) == len(m.Answers) &&
		len(m2.Authorities) == len(m.Authorities) && len(m2.Additionals) == len(m.Additionals), "section sizes preserved")
	for i, q := range m.Questions {
		q2 := m2.Questions[i]
		verifrt.Assert(verifrt.EqBytes(q.Name, q2.Name) && q.Type == q2.Type && q.Class == q2.Class, "question preserved")
	}
	for i, r := range m.Answers {
		sameResource(r, m2.Answers[i], "answer")
	}
	for i, r := range m.Authorities {
		sameResource(r, m2.Authorities[i], "authority")
	}
	for i, r := range m.Additionals {
		sameResource(r, m2.Additionals[i], "additional")
	}
}

// VerifH_C02_OneRecord: header + 0/1 question + one record of every kind in any section.
func VerifH_C02_OneRecord_S14() {
	verifrt.Unwind(40)
	sh := verifrt.Shard()
	kind, hasQ := sh%7, sh/7
	m := NewMsg()
	m.Header = vHeader()
	if hasQ == 1 {
		m.Questions = append(m.Questions, vQuestion("q", 4))
	}
	r := vResource("r", kind, 4, 3, 3)
	switch verifrt.Choose("section", 3) {
	case 0:
		m.Answers = append(m.Answers, r)
	case 1:
		m.Authorities = append(m.Authorities, r)
	default:
		m.Additionals = append(m.Additionals, r)
	}
	vRoundTrip(m)
}

// VerifH_C02_TwoNames: question + two name-carrying records: exercises the compression table with
// names whose octets may collide with table keys.
func VerifH_C02_TwoNames_S16() {
	verifrt.Unwind(40)
	sh := verifrt.Shard()
	m := NewMsg()
	m.Header = vHeader()
	q := NewQuestion()
	q.Name = vName("q.name", vShapes[1+sh%4])
	q.Type = Type(verifrt.U16("q.type"))
	q.Class = Class(verifrt.U16("q.class"))
	m.Questions = append(m.Questions, q)
	r1 := NewNAME()
	r1.ResourceHdr = ResourceHdr{Name: vName("r1.owner", vShapes[1+(sh/4)%4]), Type: TypeCNAME, Class: 1, TTL: verifrt.U32("r1.ttl")}
	r1.NameData = vNameAny("r1.rdname", 6)
	m.Answers = append(m.Answers, r1)
	if verifrt.Thorough() {
		r2 := NewMX()
		r2.ResourceHdr = ResourceHdr{Name: vNameAny("r2.owner", 4), Type: TypeMX, Class: 1, TTL: verifrt.U32("r2.ttl")}
		r2.Pref = verifrt.U16("r2.pref")
		r2.MX = vNameAny("r2.mx", 4)
		m.Answers = append(m.Answers, r2)
	}
	vRoundTrip(m)
}

// VerifH_C02_PointerLimit: compression pointers only have 14 bits. A message larger than 16 KiB (stream
// transports) whose names are written around offset 0x3FFF must still round-trip octet-exactly: a big TXT-typed
// record pushes the owner name of the following CNAME to every offset 0x3FF9..0x4003, so that its labels start
// before, at and after the last offset a pointer can express; the CNAME target (any of 6 shapes, arbitrary
// octets) may or may not share a suffix with it.
func VerifH_C02_PointerLimit_S3() {
	verifrt.Unwind(60)
	sh := verifrt.Shard()
	m := NewMsg()
	m.Header = Header{Response: true, RecursionAvailable: true} // fixed: the header is not the subject here
	q := NewQuestion()
	q.Name = vName("q.name", vShapes[1])
	q.Type, q.Class = TypeCNAME, 1
	m.Questions = append(m.Questions, q) // header 12 + question 7 = 19
	start := 0x3FF9 + verifrt.Choose("delta", 11)
	pad := NewRaw()
	pad.Type, pad.Class, pad.TTL = TypeTXT, 1, 1
	pad.Data = pool.GetBuf(start - 19 - 11) // root owner: the record takes 11+len(Data)
	pad.Data[0] = verifrt.Byte("pad.first")
	pad.Data[len(pad.Data)-1] = verifrt.Byte("pad.last")
	m.Answers = append(m.Answers, pad)
	r1 := NewNAME()
	r1.ResourceHdr = ResourceHdr{Name: vName("r1.owner", [][]int{{1, 1}, {2, 1}, {1, 1, 1}}[sh]), Type: TypeCNAME, Class: 1, TTL: verifrt.U32("r1.ttl")}
	r1.NameData = vNameAny("r1.rdname", 6)
	m.Answers = append(m.Answers, r1)
	vRoundTrip(m)
}

// refHeaderBits: the second 16-bit word of the header, from the RFCs:
//
//	QR(15) Opcode(14..11) AA(10) TC(9) RD(8) RA(7) Z(6) AD(5) CD(4) RCODE(3..0)
func refHeaderBits(h Header) uint16 {
	b := (uint16(h.OpCode)&0xF)<<11 | uint16(h.RCode)&0xF
	b |= uint16(verifrt.Ite(h.Response, 0x8000, 0))
	b |= uint16(verifrt.Ite(h.Authoritative, 0x0400, 0))
	b |= uint16(verifrt.Ite(h.Truncated, 0x0200, 0))
	b |= uint16(verifrt.Ite(h.RecursionDesired, 0x0100, 0))
	b |= uint16(verifrt.Ite(h.RecursionAvailable, 0x0080, 0))
	b |= uint16(verifrt.Ite(h.AuthenticData, 0x0020, 0))
	b |= uint16(verifrt.Ite(h.CheckingDisabled, 0x0010, 0))
	return b
}

// VerifH_C02_MaxLengthName: names at the upper end of what the decoder accepts — 253 and 254 octets of labels (254 and
// 255 on the wire), as the owner of a question and of an A record — still round-trip, and Len() still equals the
// uncompressed size (every caller sizes its buffer from Len()).
func VerifH_C02_MaxLengthName() {
	verifrt.Unwind(400)
	last := 60 + verifrt.Choose("last-label", 2) // 63+63+63+60 (+4 length octets) = 253, ..61 = 254
	mk := func(tag string) Name {
		b := pool.GetBuf(3*64 + 1 + last)
		off := 0
		for _, l := range []int{63, 63, 63, last} {
			b[off] = byte(l)
			off++
			for i := 0; i < l; i++ {
				b[off] = 'a'
				off++
			}
		}
		b[1] = verifrt.Byte(tag + ".first")
		b[len(b)-1] = verifrt.Byte(tag + ".last")
		return Name(b)
	}
	m := NewMsg()
	m.Header = Header{Response: true}
	q := NewQuestion()
	q.Name, q.Type, q.Class = mk("q"), TypeA, 1
	m.Questions = append(m.Questions, q)
	a := NewA()
	a.ResourceHdr = ResourceHdr{Name: mk("a"), Type: TypeA, Class: 1, TTL: 5}
	m.Answers = append(m.Answers, a)
	vRoundTrip(m)
}

// VerifH_C02_AdditionalOrder: the additional section keeps its records in order, wherever an OPT record sits among
// them (first, middle, last, absent), with and without a size limit that everything fits into. Pack may also not
// shuffle the message it was given.
func VerifH_C02_AdditionalOrder() {
	verifrt.Unwind(60)
	m := NewMsg()
	m.Header = Header{Response: true}
	q := NewQuestion()
	q.Name, q.Type, q.Class = vName("q.name", vShapes[1]), TypeA, 1
	m.Questions = append(m.Questions, q)
	types := []Type{Type(65280), Type(65281), Type(65282)}
	optAt := verifrt.Choose("opt.position", 4) // 3 = no OPT
	if optAt < 3 {
		types[optAt] = TypeOPT
	}
	for i, t := range types {
		r := NewRaw()
		r.Type, r.Class, r.TTL = t, Class(1200+i), uint32(i)
		r.Data = pool.GetBuf(1)
		r.Data[0] = byte(0x70 + i)
		m.Additionals = append(m.Additionals, r)
	}
	size := []int{0, 4096, 65535}[verifrt.Choose("size", 3)]
	b := pool.GetBuf(m.Len())
	n, err := m.Pack(b, verifrt.Bool("compression"), size)
	verifrt.Assert(err == nil, "packs")
	verifrt.Reach("packed")
	m2 := NewMsg()
	verifrt.Assert(m2.Unpack(b[:n]) == nil, "decodes")
	verifrt.Assert(len(m2.Additionals) == 3 && len(m.Additionals) == 3, "all three additional records are there")
	for i := range types {
		h2, h1 := m2.Additionals[i].Hdr(), m.Additionals[i].Hdr()
		if size == 0 {
			verifrt.Assert(h2.Type == types[i] && h2.TTL == uint32(i), "without a size limit the wire keeps the records in the order given")
			verifrt.Assert(h1.Type == types[i], "and the caller's message is not reordered")
		}
	}
	// (with a size limit the OPT is reserved first and written last, and the pop that does so may move other additional
	// records; C09 only fixes the order of answers and authorities, so nothing is demanded of the order here)
	n3 := 0
	for _, rr := range m2.Additionals {
		if rr.Hdr().Type != TypeOPT {
			verifrt.Assert(rr.Hdr().Class == Class(1200+int(rr.Hdr().TTL)) && rr.(*RawResource).Data[0] == byte(0x70+int(rr.Hdr().TTL)), "each record is intact")
			n3++
		}
	}
	verifrt.Assert(n3 == 3-verifrt.Ite(optAt < 3, 1, 0), "every non-OPT additional record is present once")
}

// VerifH_C20_FailedPackLeavesNoTrace: a compressed Pack that FAILS part-way (buffer too small) must not leave anything
// of its message behind in the pooled compression table: the next Pack – of a message sharing names with the failed
// one, after the failed one was released and its buffers recycled – still round-trips, and no stale unsafe-string
// key of a released name is ever read.
func VerifH_C20_FailedPackLeavesNoTrace() {
	verifrt.Unwind(80)
	mk := func(tag string) *Msg {
		m := NewMsg()
		m.Header = Header{Response: true}
		q := NewQuestion()
		q.Name, q.Type, q.Class = vName(tag+".q", vShapes[3]), TypeA, 1
		m.Questions = append(m.Questions, q)
		a := NewA()
		a.ResourceHdr = ResourceHdr{Name: vName(tag+".a", vShapes[3]), Type: TypeA, Class: 1, TTL: 9}
		m.Answers = append(m.Answers, a)
		return m
	}
	m1 := mk("m1")
	small := pool.GetBuf(12 + verifrt.Choose("room", 20)) // header + part of the records
	_, err := m1.Pack(small, true, 0)
	verifrt.Assert(err != nil, "the first message does not fit")
	verifrt.Reach("first-failed")
	ReleaseMsg(m1)
	pool.ReleaseBuf(small)
	scratch := pool.GetBuf(4) // the released name buffers are handed out again and overwritten
	scratch[0], scratch[1], scratch[2], scratch[3] = 0xEE, 0xEE, 0xEE, 0xEE
	m2 := mk("m2")
	vRoundTrip(m2)
}

// VerifH_C02_CompressedInput: "incoming compression pointers in names and RDATA": a wire message as an upstream sends
// it — question x.y; CNAME owned by a pointer to the question name with target z + pointer to the suffix y; MX owned
// by a pointer INTO the CNAME's RDATA with exchange = pointer to the question name (x, y, z arbitrary octets, arbitrary
// TTLs and preference) — is accepted, decodes to exactly the names an independent decoder sees, and re-encodes (with
// and without compression) to wire data that both decoders read back identically (vRoundTrip).
func VerifH_C02_CompressedInput() {
	verifrt.Unwind(80)
	x, y, z := verifrt.Byte("x"), verifrt.Byte("y"), verifrt.Byte("z")
	t1, t2 := verifrt.BytesN("ttl1", 4), verifrt.BytesN("ttl2", 4)
	pref := verifrt.BytesN("pref", 2)
	wire := []byte{0x12, 0x34, 0x81, 0x80, 0, 1, 0, 2, 0, 0, 0, 0,
		1, x, 1, y, 0, 0, 5, 0, 1, // 12: question x.y CNAME IN
		0xC0, 12, 0, 5, 0, 1, t1[0], t1[1], t1[2], t1[3], 0, 4, 1, z, 0xC0, 14, // 21: CNAME, rdata at 33: z + ->y
		0xC0, 33, 0, 15, 0, 1, t2[0], t2[1], t2[2], t2[3], 0, 4, pref[0], pref[1], 0xC0, 12} // 37: MX owned by z.y, exchange -> x.y
	m := NewMsg()
	err := m.Unpack(wire)
	verifrt.Assert(err == nil, "a message using compression pointers in owner names and RDATA is accepted")
	verifrt.Reach("accepted")
	xy, zy := []byte{1, x, 1, y}, []byte{1, z, 1, y}
	verifrt.Assert(len(m.Questions) == 1 && len(m.Answers) == 2, "sections as sent")
	verifrt.Assert(verifrt.EqBytes(m.Questions[0].Name, xy), "question name")
	c, ok := m.Answers[0].(*NAMEResource)
	verifrt.Assert(ok && verifrt.EqBytes(c.Name, xy) && verifrt.EqBytes(c.NameData, zy), "CNAME owner and target decompressed")
	verifrt.Assert(c.TTL == refU32(t1, 0) && c.Type == TypeCNAME && c.Class == 1, "CNAME header fields")
	mx, ok := m.Answers[1].(*MX)
	verifrt.Assert(ok && verifrt.EqBytes(mx.Name, zy) && verifrt.EqBytes(mx.MX, xy) && mx.Pref == refU16(pref, 0) && mx.TTL == refU32(t2, 0), "MX owner (pointer into RDATA), exchange and numbers")
	vRoundTrip(m)
}

// VerifH_C02_AcceptedRecordRoundTrip: C02 quantifies over "all messages the decoder ACCEPTS" — so the decoder's
// accepting set is part of the property. A wire record of each interpreted type (A, AAAA, NS, MX, SOA, SRV) and of
// TXT/OPT, root owner, a TTL with an arbitrary most significant octet, with ANY declared RDLENGTH 0..255 and up to 8 (thorough 10) arbitrary RDATA octets, cut anywhere:
// whenever the decoder accepts it, (1) what it decoded is what an independent decoder reads from the same octets
// (owner, type, class, TTL, and the RDATA in the type's own format — in particular an interpreted type is never
// accepted with RDATA that is not of that format, e.g. empty), and (2) re-encoding it yields octets the independent
// decoder reads back to the same record.
func VerifH_C02_AcceptedRecordRoundTrip_S8() {
	verifrt.Unwind(160)
	verifrt.Expect("accepted")
	typ := vC01Types[verifrt.Shard()]
	nt := 8
	if verifrt.Thorough() {
		nt = 10
	}
	t0 := verifrt.Byte("ttl.top") // the TTL's most significant octet is arbitrary (values with the top bit set included)
	prefix := []byte{0, byte(typ >> 8), byte(typ), 0, 1, t0, 0, 0, 5}
	tail := verifrt.Bytes("tail", nt) // RDLENGTH (2) + RDATA, possibly truncated
	msg := append(append([]byte(nil), prefix...), tail...)
	if len(tail) >= 1 {
		verifrt.Assume(tail[0] == 0)
	}
	r, off, err := unpackResource(msg, 0)
	if err != nil {
		verifrt.Reach("rejected")
		return
	}
	verifrt.Reach("accepted")
	end := refCheckResource(msg, 0, r, "input (reference)")
	verifrt.Assert(end == off, "the record ends where its RDLENGTH says")
	b := pool.GetBuf(r.packLen())
	n, err := r.pack(b, 0, nil)
	verifrt.Assert(err == nil && n == r.packLen(), "an accepted record re-encodes, to its advertised length")
	end2 := refCheckResource(b[:n], 0, r, "output (reference)")
	verifrt.Assert(end2 == n, "no trailing or missing octets")
}
