package dnsmsg

import (
	"github.com/IrineSistiana/mosproxy/internal/pool"
	"github.com/IrineSistiana/mosproxy/internal/verifrt"
)

var vRdLens = []int{0, 3, 120, 300}

func vRaw(tag string, typ Type, rdlen int, ownerShapes int) *RawResource {
	r := NewRaw()
	r.ResourceHdr = ResourceHdr{Name: vNameAny(tag+".owner", ownerShapes), Type: typ, Class: Class(verifrt.U16(tag + ".class")), TTL: verifrt.U32(tag + ".ttl")}
	d := pool.GetBuf(rdlen)
	if rdlen <= 8 {
		copy(d, verifrt.BytesN(tag+".rd", rdlen))
	} else {
		// long RDATA: arbitrary pool contents, first and last octet explicit
		d[0] = verifrt.Byte(tag + ".rd0")
		d[rdlen-1] = verifrt.Byte(tag + ".rdz")
	}
	r.Data = d
	return r
}

type refRec struct {
	owner []byte
	typ   uint16
	class uint16
	ttl   uint32
	rd    []byte
}

func refEq(e refRec, r Resource) bool {
	h := r.Hdr()
	raw := r.(*RawResource)
	return verifrt.And(verifrt.And(verifrt.EqBytes(e.owner, h.Name), verifrt.EqBytes(e.rd, raw.Data)),
		verifrt.And(e.typ == uint16(h.Type), verifrt.And(e.class == uint16(h.Class), e.ttl == h.TTL)))
}

// refSection decodes cnt records at off with the reference decoder.
func refSection(out []byte, off, cnt int, what string) ([]refRec, int) {
	var recs []refRec
	for i := 0; i < cnt; i++ {
		rr, ok := refRecord(out, off)
		verifrt.Assert(ok, what+": header count matches the records present (reference decoder)")
		recs = append(recs, refRec{rr.owner, rr.typ, rr.class, rr.ttl, out[rr.rdOff:rr.next]})
		off = rr.next
	}
	return recs, off
}

// isSubsequence: every emitted record equals an input record, in the same relative order.
// Input records of one section carry pairwise distinct (concrete) types, so the candidate is unique.
func isSubsequence(em []refRec, in []Resource) bool {
	j := 0
	for _, e := range em {
		t := verifrt.Concrete(int(e.typ))
		found := false
		for j < len(in) {
			if int(in[j].Hdr().Type) == t {
				if !refEq(e, in[j]) {
					return false
				}
				found = true
				j++
				break
			}
			j++
		}
		if !found {
			return false
		}
	}
	return true
}

// vPackLimited: Pack under a size limit and check the truncation contract of C09.
func vPackLimited(m *Msg, hasOpt bool, opt *RawResource) {
	comp := verifrt.Bool("compression")
	size := verifrt.IntRange("size", 0, 65535)
	wasTC := m.Truncated
	nq := len(m.Questions)
	ans := append([]Resource(nil), m.Answers...)
	auth := append([]Resource(nil), m.Authorities...)
	nadd := len(m.Additionals)
	l := m.Len()
	b := pool.GetBuf(l)
	n, err := m.Pack(b, comp, size)
	verifrt.Assert(err == nil, "packing a well-formed message into a Len()-sized buffer succeeds")
	limit := size
	if limit > 0 && limit < 512 {
		limit = 512
	}
	if limit > 0 {
		verifrt.Assert(n <= limit, "encoded size within max(512, limit)")
	}
	out := b[:n]
	cq, can, cns, car := int(refU16(out, 4)), int(refU16(out, 6)), int(refU16(out, 8)), int(refU16(out, 10))
	off := 12
	for i := 0; i < cq; i++ {
		_, e, ok := refName(out, off)
		verifrt.Assert(ok && e+4 <= n, "question count matches questions present")
		off = e + 4
	}
	eAns, off := refSection(out, off, can, "answers")
	eAuth, off := refSection(out, off, cns, "authorities")
	eAdd, off := refSection(out, off, car, "additionals")
	verifrt.Assert(off == n, "the message ends exactly after the counted records")
	verifrt.Reach("decoded")
	omitted := cq < nq || can < len(ans) || cns < len(auth) || car < nadd
	verifrt.Assert(cq <= nq && can <= len(ans) && cns <= len(auth) && car <= nadd, "no section grows")
	tcOut := refU16(out, 2)&headerBitTC != 0
	verifrt.Assert(tcOut == (omitted || wasTC), "TC set iff something was omitted (or it was already set)")
	if nq <= 1 {
		verifrt.Assert(cq == nq, "the question is retained")
	}
	if hasOpt {
		found := false
		for _, e := range eAdd {
			if verifrt.Concrete(int(e.typ)) == int(TypeOPT) {
				verifrt.Assert(!found, "exactly one OPT in the output")
				verifrt.Assert(refEq(e, opt), "OPT retained intact")
				found = true
			}
		}
		verifrt.Assert(found, "OPT retained")
	}
	verifrt.Assert(isSubsequence(eAns, ans), "kept answers unmodified and in original relative order")
	verifrt.Assert(isSubsequence(eAuth, auth), "kept authorities unmodified and in original relative order")
	if limit == 0 || l <= limit {
		verifrt.Assert(!omitted, "nothing omitted when the uncompressed encoding fits")
	} else {
		verifrt.Reach("over-limit")
	}
	if omitted {
		verifrt.Reach("truncated")
	}
	// own decoder accepts the truncated message
	m2 := NewMsg()
	verifrt.Assert(m2.Unpack(out) == nil, "own decoder accepts the (possibly truncated) encoding")
}

// VerifH_C09_Truncate: question + 2 answers + 1 authority of various RDATA sizes, optional OPT at any
// additional position, any limit.
func VerifH_C09_Truncate_S16() {
	verifrt.Unwind(60)
	verifrt.Expect("over-limit,truncated")
	sh := verifrt.Shard()
	m := NewMsg()
	m.Header = vHeader()
	m.Questions = append(m.Questions, vQuestion("q", 2))
	m.Answers = append(m.Answers, vRaw("an0", 16, vRdLens[sh%4], 2))
	m.Answers = append(m.Answers, vRaw("an1", 17, vRdLens[(sh/4)%4], 1))
	m.Authorities = append(m.Authorities, vRaw("ns0", 99, []int{3, 300}[verifrt.Choose("ns0.len", 2)], 1))
	optPos := verifrt.Choose("optpos", 3) // 0 none, 1 first, 2 last
	var opt *RawResource
	if optPos != 0 {
		opt = vRaw("opt", TypeOPT, verifrt.Choose("opt.len", 2)*3, 1)
	}
	if optPos == 1 {
		m.Additionals = append(m.Additionals, opt)
	}
	m.Additionals = append(m.Additionals, vRaw("ar0", 16, []int{0, 120}[verifrt.Choose("ar0.len", 2)], 1))
	if optPos == 2 {
		m.Additionals = append(m.Additionals, opt)
	}
	vPackLimited(m, optPos != 0, opt)
}

// VerifH_C09_Boundary: messages whose size lands within a few octets of the 512-octet floor (with and
// without OPT), every limit: the accounting of the OPT reservation and the minimum size is exact.
func VerifH_C09_Boundary_S8() {
	verifrt.Unwind(60)
	verifrt.Expect("over-limit,truncated")
	sh := verifrt.Shard()
	m := NewMsg()
	m.Header = vHeader()
	m.Questions = append(m.Questions, vQuestion("q", 1)) // root question: 5 octets
	// header 12 + question 5 + answer (11 + rd) [+ authority 11+3] : total around 512 - 11 .. 512 + 11
	rd := 470 + sh*4 + verifrt.Choose("rd.fine", 4)
	m.Answers = append(m.Answers, vRaw("an0", 16, rd, 1))
	if verifrt.Bool("hasauth") {
		m.Authorities = append(m.Authorities, vRaw("ns0", 99, 3, 1))
	}
	hasOpt := verifrt.Bool("hasopt")
	var opt *RawResource
	if hasOpt {
		opt = vRaw("opt", TypeOPT, verifrt.Choose("opt.len", 2)*3, 1)
		m.Additionals = append(m.Additionals, opt)
	}
	vPackLimited(m, hasOpt, opt)
}

// VerifH_C09_TruncateSharedNames: truncation in the presence of NAME COMPRESSION state: every record has a non-root
// owner name (one or two labels of arbitrary octets, so any two of them may be equal, share a suffix, or differ), the
// middle answer is large (300 octets of RDATA) so that for many limits it is the one left out while the records after it
// still fit — whatever the packer remembered about a record it did not keep must not leak into the records it did keep.
// Same oracle as Truncate: reference decoder, counts, TC, ordered unmodified subsequence, own decoder.
func VerifH_C09_TruncateSharedNames_S4() {
	verifrt.Unwind(80)
	verifrt.Expect("over-limit,truncated")
	sh := verifrt.Shard()
	shapes := [][]int{{1}, {1, 1}}
	nm := func(tag string, k int) Name { return vName(tag, shapes[k]) }
	raw := func(tag string, typ Type, rdlen int, shape int) *RawResource {
		r := vRaw(tag, typ, rdlen, 1)
		ReleaseName(r.Name)
		r.Name = nm(tag+".owner2", shape)
		return r
	}
	m := NewMsg()
	m.Header = vHeader()
	q := vQuestion("q", 1)
	ReleaseName(q.Name)
	q.Name = nm("q.name2", 0)
	m.Questions = append(m.Questions, q)
	m.Answers = append(m.Answers, raw("an0", 16, 3, sh%2))
	m.Answers = append(m.Answers, raw("an1", 17, 480, (sh/2)%2))
	m.Answers = append(m.Answers, raw("an2", 18, 3, (sh/2)%2))
	m.Authorities = append(m.Authorities, raw("ns0", 99, 0, verifrt.Choose("ns0.shape", 2)))
	hasOpt := verifrt.Bool("hasopt")
	var opt *RawResource
	if hasOpt {
		opt = vRaw("opt", TypeOPT, 0, 1)
		m.Additionals = append(m.Additionals, opt)
	}
	// keep the limit in the interesting region: around the size at which the large answer stops fitting
	vPackLimited(m, hasOpt, opt)
}
