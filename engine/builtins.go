package main

import (
	"go/types"
	"strings"

	"golang.org/x/tools/go/ssa"
)

func (e *Engine) builtin(s *State, f *Frame, name string, args []Value, site ssa.CallInstruction) Value {
	c := e.c
	switch name {
	case "len":
		switch a := args[0].(type) {
		case *SliceV:
			return a.Len
		case *MapV:
			if a.Obj == 0 {
				return c.BV(0, 64)
			}
			return c.BV(uint64(len(e.mapObj(s, a).Entries)), 64)
		case *ChanV:
			if a.Obj == 0 {
				return c.BV(0, 64)
			}
			return c.BV(uint64(len(s.obj(a.Obj).Val.(*ChanObj).Buf)), 64)
		case *ByteArr:
			return a.Size
		case *ArrayV:
			return c.BV(uint64(len(a.Elems)), 64)
		case *Pointer: // *array
			at := site.Common().Args[0].Type().Underlying().(*types.Pointer).Elem().Underlying().(*types.Array)
			return c.BV(uint64(at.Len()), 64)
		}
		e.errf("len of %T", args[0])
	case "cap":
		switch a := args[0].(type) {
		case *SliceV:
			return a.Cap
		case *ChanV:
			if a.Obj == 0 {
				return c.BV(0, 64)
			}
			return c.BV(uint64(s.obj(a.Obj).Val.(*ChanObj).Cap), 64)
		case *ByteArr:
			return a.Size
		case *ArrayV:
			return c.BV(uint64(len(a.Elems)), 64)
		}
		e.errf("cap of %T", args[0])
	case "copy":
		dst := args[0].(*SliceV)
		src := args[1].(*SliceV)
		return e.copySlice(s, dst, src)
	case "append":
		return e.appendSlice(s, args[0].(*SliceV), args[1].(*SliceV), site.Common().Args[0].Type())
	case "delete":
		e.mapDelete(s, args[0].(*MapV), args[1])
		return nil
	case "clear":
		switch a := args[0].(type) {
		case *MapV:
			if a.Obj != 0 {
				s.wobj(a.Obj).Val = &MapObj{}
			}
		case *SliceV:
			if a.Base == nil {
				return nil
			}
			et := site.Common().Args[0].Type().Underlying().(*types.Slice).Elem()
			if isByteType(et) {
				ba := e.arrOf(s, a)
				fill := e.newFillArr(a.Len, 0)
				e.setArr(s, a, e.baCopy(ba, a.Off, fill, c.BV(0, 64), a.Len))
				return nil
			}
			off := e.concretize(s, a.Off, "clear off")
			n := e.concretize(s, a.Len, "clear len")
			for i := uint64(0); i < n; i++ {
				p := &Pointer{Obj: a.Base.Obj, Path: append(append([]int(nil), a.Base.Path...), int(off+i))}
				e.store(s, p, e.zero(et))
			}
		default:
			e.errf("clear of %T", args[0])
		}
		return nil
	case "min", "max":
		t := site.Common().Args[0].Type()
		r := args[0].(*Term)
		for _, a := range args[1:] {
			y := a.(*Term)
			var lt *Term
			if isSigned(t) {
				lt = c.Slt(y, r)
			} else {
				lt = c.Ult(y, r)
			}
			if name == "max" {
				lt = c.Not(c.Or(lt, c.Eq(y, r)))
			}
			r = c.Ite(lt, y, r)
		}
		return r
	case "close":
		e.chanClose(s, args[0].(*ChanV))
		return nil
	case "SliceData":
		sl := args[0].(*SliceV)
		if sl.Base == nil {
			return &Pointer{}
		}
		return &Pointer{Obj: sl.Base.Obj, Path: sl.Base.Path, BIdx: sl.Off, Gen: sl.Base.Gen}
	case "StringData":
		sl := args[0].(*SliceV)
		o := e.newObj(s, sl.Str, nil, "stringdata")
		return &Pointer{Obj: o.ID, BIdx: sl.Off}
	case "String":
		p := args[0].(*Pointer)
		n := e.toInt64(args[1].(*Term), site.Common().Args[1].Type())
		if p.IsNil() {
			return e.mkString("")
		}
		ba := getPath(s.obj(p.Obj).Val, p.Path).(*ByteArr)
		return &SliceV{IsStr: true, Str: ba, Off: p.BIdx, Len: n, Cap: n, Alias: &Pointer{Obj: p.Obj, Gen: p.Gen}}
	case "Slice":
		p := args[0].(*Pointer)
		n := e.toInt64(args[1].(*Term), site.Common().Args[1].Type())
		if p.IsNil() {
			return &SliceV{Off: c.BV(0, 64), Len: c.BV(0, 64), Cap: c.BV(0, 64)}
		}
		if p.BIdx == nil {
			e.errf("unsafe.Slice on non-byte pointer")
		}
		return &SliceV{Base: &Pointer{Obj: p.Obj, Path: p.Path, Gen: p.Gen}, Off: p.BIdx, Len: n, Cap: n}
	case "@swap":
		// engine-native element swap used by the sort.Slice model; args: i, j (bound slice in site-less call)
		e.errf("@swap must be called through FuncV bindings")
	case "recover":
		// a panic ends the path as a violation in this engine, so deferred recover() always sees nil
		return &IfaceV{}
	case "ssa:wrapnilchk":
		return args[0]
	case "print", "println":
		return nil
	}
	e.errf("unsupported builtin %s", name)
	return nil
}

func (e *Engine) copySlice(s *State, dst, src *SliceV) Value {
	c := e.c
	n := c.Umin(dst.Len, src.Len)
	if n.IsConst() && n.Val == 0 {
		return n
	}
	if dst.Base == nil {
		return c.BV(0, 64)
	}
	if src.IsStr || e.isByteSlice(s, src) {
		if !(e.symLen || s.symMem) && !n.IsConst() {
			n = c.BV(e.concretize(s, n, "copy length"), 64)
		}
		sa := e.arrOf(s, src)
		da := e.arrOf(s, dst)
		e.setArr(s, dst, e.baCopy(da, dst.Off, sa, src.Off, n))
		return n
	}
	// generic element copy with concrete bounds
	cn := e.concretize(s, n, "copy n")
	so := e.concretize(s, src.Off, "copy src off")
	do := e.concretize(s, dst.Off, "copy dst off")
	vals := make([]Value, cn)
	for i := uint64(0); i < cn; i++ {
		vals[i] = e.load(s, &Pointer{Obj: src.Base.Obj, Path: append(append([]int(nil), src.Base.Path...), int(so+i))})
	}
	for i := uint64(0); i < cn; i++ {
		e.store(s, &Pointer{Obj: dst.Base.Obj, Path: append(append([]int(nil), dst.Base.Path...), int(do+i))}, vals[i])
	}
	return n
}

func (e *Engine) isByteSlice(s *State, sl *SliceV) bool {
	if sl.IsStr {
		return true
	}
	if sl.Base == nil {
		return false
	}
	_, ok := getPath(s.obj(sl.Base.Obj).Val, sl.Base.Path).(*ByteArr)
	return ok
}

func (e *Engine) appendSlice(s *State, a, b *SliceV, ty types.Type) Value {
	c := e.c
	et := ty.Underlying().(*types.Slice).Elem()
	if b.Len.IsConst() && b.Len.Val == 0 {
		return a
	}
	if isByteType(et) && !(e.symLen || s.symMem) && !b.Len.IsConst() {
		b = &SliceV{Base: b.Base, Str: b.Str, IsStr: b.IsStr, Alias: b.Alias, Off: b.Off, Cap: b.Cap, Len: c.BV(e.concretize(s, b.Len, "append length"), 64)}
	}
	need := c.Add(a.Len, b.Len)
	if isByteType(et) {
		fits := c.And(c.Ule(need, a.Cap), c.Bool(a.Base != nil))
		if e.cond(s, fits) {
			da := e.arrOf(s, a)
			sa := e.arrOf(s, b)
			e.setArr(s, a, e.baCopy(da, c.Add(a.Off, a.Len), sa, b.Off, b.Len))
			return &SliceV{Base: a.Base, Off: a.Off, Len: need, Cap: a.Cap}
		}
		// grow: new object; capacity = need rounded like a doubling allocator when concrete
		var ncap *Term
		if need.IsConst() && a.Cap.IsConst() {
			ncap = c.BV(goGrowCap(a.Cap.Val, need.Val), 64)
		} else {
			ncap = need
		}
		arr := e.newFillArr(ncap, 0)
		if a.Base != nil {
			arr = e.baCopy(arr, c.BV(0, 64), e.arrOf(s, a), a.Off, a.Len)
		}
		sa := e.arrOf(s, b)
		arr = e.baCopy(arr, a.Len, sa, b.Off, b.Len)
		o := e.newObj(s, arr, ty, "append-grow@"+e.curPos(s))
		return &SliceV{Base: &Pointer{Obj: o.ID}, Off: c.BV(0, 64), Len: need, Cap: ncap}
	}
	al := e.concretize(s, a.Len, "append len")
	bl := e.concretize(s, b.Len, "append arg len")
	ac := e.concretize(s, a.Cap, "append cap")
	bo := e.concretize(s, b.Off, "append arg off")
	vals := make([]Value, bl)
	for i := uint64(0); i < bl; i++ {
		vals[i] = e.load(s, &Pointer{Obj: b.Base.Obj, Path: append(append([]int(nil), b.Base.Path...), int(bo+i))})
	}
	if a.Base != nil && al+bl <= ac {
		ao := e.concretize(s, a.Off, "append off")
		for i := uint64(0); i < bl; i++ {
			e.store(s, &Pointer{Obj: a.Base.Obj, Path: append(append([]int(nil), a.Base.Path...), int(ao+al+i))}, vals[i])
		}
		return &SliceV{Base: a.Base, Off: a.Off, Len: c.BV(al+bl, 64), Cap: a.Cap}
	}
	nc := ac * 2
	if nc < al+bl {
		nc = al + bl
	}
	es := make([]Value, nc)
	if a.Base != nil {
		ao := e.concretize(s, a.Off, "append off")
		for i := uint64(0); i < al; i++ {
			es[i] = e.load(s, &Pointer{Obj: a.Base.Obj, Path: append(append([]int(nil), a.Base.Path...), int(ao+i))})
		}
	}
	for i := uint64(0); i < bl; i++ {
		es[al+i] = vals[i]
	}
	for i := al + bl; i < nc; i++ {
		es[i] = e.zero(et)
	}
	o := e.newObj(s, &ArrayV{Elems: es}, ty, "append-grow@"+e.curPos(s))
	return &SliceV{Base: &Pointer{Obj: o.ID}, Off: c.BV(0, 64), Len: c.BV(al+bl, 64), Cap: c.BV(nc, 64)}
}

// ---------------------------------------------------------------- which functions may be interpreted

var lazyZeroGlobals = map[string]bool{"errors": true, "sync": true, "sync/atomic": true, "encoding/binary": true, "github.com/IrineSistiana/mosproxy/internal/verifrt": true}

var interpPkgPrefixes = []string{
	"github.com/IrineSistiana/mosproxy",
	"github.com/IrineSistiana/connpool",
	"encoding/binary", "math/bits", "errors", "bytes", "strings", "net/netip", "unicode/utf8", "unicode",
	"sort", "slices", "cmp", "io", "strconv", "internal/bytealg", "internal/byteorder", "internal/stringslite",
	"internal/itoa", "math", "time", "context", "net", "net/url", "container/list", "sync/atomic",
	"golang.org/x/exp", "golang.org/x/sync", "golang.org/x/time/rate", "encoding/base64", "internal/godebug", "unique", "maps", "iter", "bufio", "path",
}

func (e *Engine) allowInterp(fn *ssa.Function) bool {
	p := ""
	if fn.Pkg != nil {
		p = fn.Pkg.Pkg.Path()
	} else if o := fn.Origin(); o != nil && o.Pkg != nil {
		p = o.Pkg.Pkg.Path()
	} else if fn.Synthetic != "" {
		// wrappers / bound methods / instantiations
		return true
	}
	for _, pre := range interpPkgPrefixes {
		if p == pre || strings.HasPrefix(p, pre+"/") {
			return true
		}
	}
	return false
}

// goGrowCap: capacity of a byte slice after append has to reallocate, as the Go runtime of this toolchain computes
// it (runtime.nextslicecap + roundupsize for element size 1). The language does not fix it, but code that hands
// append-grown buffers to a size-classed pool depends on it.
var goSizeClasses = []uint64{8, 16, 24, 32, 48, 64, 80, 96, 112, 128, 144, 160, 176, 192, 208, 224, 240, 256, 288, 320, 352, 384, 416, 448, 480, 512,
	576, 640, 704, 768, 896, 1024, 1152, 1280, 1408, 1536, 1792, 2048, 2304, 2688, 3072, 3200, 3456, 4096, 4864, 5376, 6144, 6528, 6784, 6912, 8192,
	9472, 9728, 10240, 10880, 12288, 13568, 14336, 16384, 18432, 19072, 20480, 21760, 24576, 27264, 28672, 32768}

func goGrowCap(oldCap, needed uint64) uint64 {
	newcap := oldCap
	if needed > 2*oldCap {
		newcap = needed
	} else if oldCap < 256 {
		newcap = 2 * oldCap
	} else {
		for newcap < needed {
			newcap += (newcap + 3*256) >> 2
		}
	}
	if newcap == 0 {
		return 0
	}
	if newcap <= 32768 {
		for _, c := range goSizeClasses {
			if c >= newcap {
				return c
			}
		}
	}
	return (newcap + 8191) &^ 8191
}
