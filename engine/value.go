package main

import (
	"fmt"
	"go/types"

	"golang.org/x/tools/go/ssa"
)

// Value is one of:
//   *Term      scalar (Bool or bit-vector)
//   FloatV     concrete float
//   *Pointer   (nil object = nil pointer)
//   *SliceV    byte or non-byte slice, strings included
//   *StructV
//   *ArrayV    non-byte arrays
//   *ByteArr   byte arrays (persistent layered store)
//   *IfaceV
//   *FuncV
//   *MapV / *ChanV (references to heap objects)
//   TupleV
type Value interface{}

type FloatV struct{ F float64 }

// PathElem: field index (struct) or element index (array). For byte arrays the
// element index is carried separately as a term in Pointer.BIdx.
type Pointer struct {
	Obj  int   // heap object id; 0 = nil
	Path []int // struct field / array index path from the object's root value
	BIdx *Term // non-nil: points at byte element BIdx of the ByteArr located at Path
	Gen  int   // generation of a recycled pool buffer this reference was obtained for
	ALen int   // >0: *[ALen]byte view starting at byte BIdx (slice-to-array-pointer conversion)
	Fn   *ssa.Function // pointer-like handle for *ssa.Function globals (unused)
}

func (p *Pointer) IsNil() bool { return p == nil || p.Obj == 0 }

// SliceV: view on an array location. Base points at the array (ByteArr or ArrayV).
// For strings, Str holds an immutable snapshot instead of Base.
type SliceV struct {
	Base *Pointer // nil for nil slice
	Str  *ByteArr // string snapshot (immutable)
	IsStr bool
	Alias *Pointer // ghost: the byte buffer an unsafe.String view was made of (its content is snapshotted in Str)
	Off, Len, Cap *Term // 64-bit
}

type StructV struct {
	Fields []Value
}

type ArrayV struct {
	Elems []Value
}

type IfaceV struct {
	T types.Type // nil = nil interface
	V Value
}

type FuncV struct {
	Fn       *ssa.Function // nil = nil func
	Bindings []Value
	Builtin  string
	// bound method closure
	Recv Value
}

type MapV struct{ Obj int }  // 0 = nil map
type ChanV struct{ Obj int } // 0 = nil chan

type TupleV []Value

// ---------------------------------------------------------------- byte arrays

type layerKind uint8

const (
	LStore layerKind = iota
	LCopy
	LIte
)

type Layer struct {
	k    layerKind
	prev *Layer
	// LStore
	idx, val *Term
	// LCopy: bytes [dst, dst+n) come from src[srcOff + (i-dst)]
	dst, n, srcOff *Term
	src            *ByteArr
	// LIte: cond ? other : prev
	cond  *Term
	other *ByteArr
	depth int
}

type baseKind uint8

const (
	BFill baseKind = iota // every byte == fill
	BCells                // explicit cells
	BUF                   // uninterpreted function of the index
)

// ByteArr is an immutable value; updates return a new ByteArr sharing layers.
type ByteArr struct {
	Size  *Term // 64-bit length of the array (may be symbolic)
	bk    baseKind
	fill  *Term
	cells []*Term
	uf    string
	top   *Layer
}

func (e *Engine) newFillArr(size *Term, v uint64) *ByteArr {
	return &ByteArr{Size: size, bk: BFill, fill: e.c.BV(v, 8)}
}

func (e *Engine) newConstArr(b []byte) *ByteArr {
	cells := make([]*Term, len(b))
	for i, x := range b {
		cells[i] = e.c.BV(uint64(x), 8)
	}
	return &ByteArr{Size: e.c.BV(uint64(len(b)), 64), bk: BCells, cells: cells}
}

func (e *Engine) newCellsArr(cells []*Term) *ByteArr {
	return &ByteArr{Size: e.c.BV(uint64(len(cells)), 64), bk: BCells, cells: cells}
}

func (e *Engine) newUFArr(size *Term, name string) *ByteArr {
	return &ByteArr{Size: size, bk: BUF, uf: name}
}

func (a *ByteArr) depth() int {
	if a.top == nil {
		return 0
	}
	return a.top.depth
}

func (e *Engine) baRead(a *ByteArr, idx *Term) *Term {
	return e.baReadFrom(a, a.top, idx)
}

func (e *Engine) baReadFrom(a *ByteArr, l *Layer, idx *Term) *Term {
	c := e.c
	if l == nil {
		switch a.bk {
		case BFill:
			return a.fill
		case BUF:
			return c.UF(a.uf, 8, idx)
		case BCells:
			if idx.IsConst() {
				if idx.Val < uint64(len(a.cells)) {
					return a.cells[idx.Val]
				}
				return c.BV(0, 8) // out of range: bounds are checked by callers
			}
			// ite chain
			if len(a.cells) == 0 {
				return c.BV(0, 8)
			}
			r := a.cells[len(a.cells)-1]
			for i := len(a.cells) - 2; i >= 0; i-- {
				r = c.Ite(c.Eq(idx, c.BV(uint64(i), 64)), a.cells[i], r)
			}
			return r
		}
	}
	switch l.k {
	case LStore:
		hit := c.Eq(idx, l.idx)
		if hit.IsTrue() {
			return l.val
		}
		rest := e.baReadFrom(a, l.prev, idx)
		return c.Ite(hit, l.val, rest)
	case LCopy:
		in := c.And(c.Ule(l.dst, idx), c.Ult(c.Sub(idx, l.dst), l.n))
		if in.IsFalse() {
			return e.baReadFrom(a, l.prev, idx)
		}
		sv := e.baRead(l.src, c.Add(c.Sub(idx, l.dst), l.srcOff))
		if in.IsTrue() {
			return sv
		}
		return c.Ite(in, sv, e.baReadFrom(a, l.prev, idx))
	case LIte:
		if l.cond.IsTrue() {
			return e.baRead(l.other, idx)
		}
		if l.cond.IsFalse() {
			return e.baReadFrom(a, l.prev, idx)
		}
		return c.Ite(l.cond, e.baRead(l.other, idx), e.baReadFrom(a, l.prev, idx))
	}
	panic("bad layer")
}

func (e *Engine) baStore(a *ByteArr, idx, val *Term) *ByteArr {
	n := *a
	// concrete store into a plain cells base without layers: update in place (copy cells)
	if a.top == nil && a.bk == BCells && idx.IsConst() && idx.Val < uint64(len(a.cells)) {
		cells := make([]*Term, len(a.cells))
		copy(cells, a.cells)
		cells[idx.Val] = val
		n.cells = cells
		return &n
	}
	// drop a directly shadowed store at same index
	prev := a.top
	if prev != nil && prev.k == LStore && prev.idx == idx {
		prev = prev.prev
	}
	d := 1
	if prev != nil {
		d = prev.depth + 1
	}
	n.top = &Layer{k: LStore, prev: prev, idx: idx, val: val, depth: d}
	return &n
}

func (e *Engine) baCopy(a *ByteArr, dst *Term, src *ByteArr, srcOff, cnt *Term) *ByteArr {
	if cnt.IsConst() && cnt.Val == 0 {
		return a
	}
	// small concrete copies become stores (keeps reads cheap)
	if cnt.IsConst() && cnt.Val <= 64 && dst.IsConst() {
		r := a
		vals := make([]*Term, cnt.Val)
		for i := uint64(0); i < cnt.Val; i++ {
			vals[i] = e.baRead(src, e.c.Add(srcOff, e.c.BV(i, 64)))
		}
		for i := uint64(0); i < cnt.Val; i++ {
			r = e.baStore(r, e.c.BV(dst.Val+i, 64), vals[i])
		}
		return r
	}
	n := *a
	d := 1
	if a.top != nil {
		d = a.top.depth + 1
	}
	n.top = &Layer{k: LCopy, prev: a.top, dst: dst, n: cnt, srcOff: srcOff, src: src, depth: d}
	return &n
}

// ---------------------------------------------------------------- misc helpers

func isByteType(t types.Type) bool {
	b, ok := t.Underlying().(*types.Basic)
	return ok && (b.Kind() == types.Uint8 || b.Kind() == types.Int8)
}

func basicWidth(b *types.Basic) int {
	switch b.Kind() {
	case types.Bool, types.UntypedBool:
		return 0
	case types.Int8, types.Uint8:
		return 8
	case types.Int16, types.Uint16:
		return 16
	case types.Int32, types.Uint32, types.UntypedRune:
		return 32
	case types.Int, types.Uint, types.Int64, types.Uint64, types.Uintptr, types.UntypedInt:
		return 64
	}
	return -1
}

func isSigned(t types.Type) bool {
	b, ok := t.Underlying().(*types.Basic)
	if !ok {
		return false
	}
	switch b.Kind() {
	case types.Int, types.Int8, types.Int16, types.Int32, types.Int64, types.UntypedInt, types.UntypedRune:
		return true
	}
	return false
}

func isFloat(t types.Type) bool {
	b, ok := t.Underlying().(*types.Basic)
	return ok && (b.Info()&types.IsFloat) != 0
}

func isString(t types.Type) bool {
	b, ok := t.Underlying().(*types.Basic)
	return ok && (b.Info()&types.IsString) != 0
}

func (e *Engine) zero(t types.Type) Value {
	c := e.c
	switch u := t.Underlying().(type) {
	case *types.Basic:
		if u.Info()&types.IsString != 0 {
			return e.mkString("")
		}
		if u.Info()&types.IsFloat != 0 {
			return FloatV{0}
		}
		if u.Kind() == types.UnsafePointer {
			return &Pointer{}
		}
		if u.Kind() == types.UntypedNil {
			return &Pointer{}
		}
		w := basicWidth(u)
		if w == 0 {
			return c.False
		}
		if w < 0 {
			panic(fmt.Sprintf("zero: unsupported basic %v", u))
		}
		return c.BV(0, w)
	case *types.Pointer:
		return &Pointer{}
	case *types.Slice:
		return &SliceV{Off: c.BV(0, 64), Len: c.BV(0, 64), Cap: c.BV(0, 64)}
	case *types.Struct:
		fs := make([]Value, u.NumFields())
		for i := range fs {
			fs[i] = e.zero(u.Field(i).Type())
		}
		return &StructV{Fields: fs}
	case *types.Array:
		if isByteType(u.Elem()) {
			return e.newFillArr(c.BV(uint64(u.Len()), 64), 0)
		}
		es := make([]Value, u.Len())
		for i := range es {
			es[i] = e.zero(u.Elem())
		}
		return &ArrayV{Elems: es}
	case *types.Interface:
		return &IfaceV{}
	case *types.Signature:
		return &FuncV{}
	case *types.Map:
		return &MapV{}
	case *types.Chan:
		return &ChanV{}
	case *types.Tuple:
		tv := make(TupleV, u.Len())
		for i := range tv {
			tv[i] = e.zero(u.At(i).Type())
		}
		return tv
	}
	panic(fmt.Sprintf("zero: unsupported type %v", t))
}

func (e *Engine) mkString(s string) *SliceV {
	c := e.c
	return &SliceV{IsStr: true, Str: e.newConstArr([]byte(s)), Off: c.BV(0, 64), Len: c.BV(uint64(len(s)), 64), Cap: c.BV(uint64(len(s)), 64)}
}

// concrete string content if fully concrete
func (e *Engine) concreteString(v Value) (string, bool) {
	s, ok := v.(*SliceV)
	if !ok || !s.IsStr {
		return "", false
	}
	if !s.Len.IsConst() || !s.Off.IsConst() {
		return "", false
	}
	b := make([]byte, s.Len.Val)
	for i := range b {
		t := e.baRead(s.Str, e.c.BV(s.Off.Val+uint64(i), 64))
		if !t.IsConst() {
			return "", false
		}
		b[i] = byte(t.Val)
	}
	return string(b), true
}
