package main

// Persistent incremental SMT solver process (z3 -in, z3-new -in, cvc5 --incremental).
// The assertion stack mirrors a path condition prefix so consecutive queries on
// neighbouring paths only push/pop the difference.

import (
	"bufio"
	"fmt"
	"io"
	"os"
	"os/exec"
	"strconv"
	"strings"
	"time"
)

type Solver struct {
	name    string
	cmd     *exec.Cmd
	in      io.WriteCloser
	out     *bufio.Reader
	ctx     *Ctx
	defined map[int]bool
	declVar int // how many ctx.vars declared
	declUF  int
	stack   []*Term // asserted terms, one push level each
	nmark   int
	Queries int
	Sat     int
	Unsat   int
	Unknown int
	Errors  int
	Time    time.Duration
	log     io.Writer
	timeoutMs int
	buf     strings.Builder
	oneShot map[string]uint64 // variable assignment of the last one-shot Sat answer (nil otherwise)
	OneShots int
	XEvery   int // cross-check every n-th definite answer with a second solver (0 = off)
	XChecked int
	XSecond  string
	Tactic   string // when set, queries use (check-sat-using <tactic>) instead of the incremental core
	incTimeoutMs int
}

func NewSolver(kind string, ctx *Ctx, timeoutMs int) (*Solver, error) {
	var cmd *exec.Cmd
	inc := timeoutMs
	if inc > 8000 {
		inc = 8000 // the incremental core gets a short budget; hard queries go to a one-shot process
	}
	switch kind {
	case "z3":
		cmd = exec.Command("z3", "-in", fmt.Sprintf("-t:%d", inc))
	case "z3-new":
		cmd = exec.Command("z3-new", "-in", fmt.Sprintf("-t:%d", inc))
	case "cvc5":
		cmd = exec.Command("cvc5", "--incremental", "--lang=smt2", fmt.Sprintf("--tlimit-per=%d", timeoutMs))
	case "cvc5-int":
		// bit-vectors solved as integers: linear offset arithmetic becomes LIA (seconds -> milliseconds)
		cmd = exec.Command("cvc5", "--incremental", "--lang=smt2", "--solve-bv-as-int=sum", fmt.Sprintf("--tlimit-per=%d", timeoutMs))
	default:
		return nil, fmt.Errorf("unknown solver %s", kind)
	}
	in, err := cmd.StdinPipe()
	if err != nil {
		return nil, err
	}
	out, err := cmd.StdoutPipe()
	if err != nil {
		return nil, err
	}
	cmd.Stderr = os.Stderr
	if err := cmd.Start(); err != nil {
		return nil, err
	}
	s := &Solver{name: kind, cmd: cmd, in: in, out: bufio.NewReaderSize(out, 1<<20), ctx: ctx, defined: map[int]bool{}, timeoutMs: timeoutMs}
	if f := os.Getenv("GOSMT_SMTLOG"); f != "" {
		lf, _ := os.Create(f + "." + kind + "." + strconv.Itoa(os.Getpid()) + "." + strconv.Itoa(ctx.nfresh))
		s.log = lf
	}
	s.send("(set-option :global-declarations true)\n(set-option :produce-models true)\n(set-logic ALL)\n")
	if _, err := s.sync(); err != nil {
		return nil, err
	}
	return s, nil
}

func (s *Solver) Close() {
	if s.cmd != nil {
		s.in.Close()
		s.cmd.Process.Kill()
		s.cmd.Wait()
		s.cmd = nil
	}
}

func (s *Solver) send(txt string) {
	s.buf.WriteString(txt)
}

// sync flushes, emits a marker and returns all output lines before the marker.
func (s *Solver) sync() ([]string, error) {
	s.nmark++
	mark := fmt.Sprintf("<<m%d>>", s.nmark)
	s.buf.WriteString("(echo \"" + mark + "\")\n")
	txt := s.buf.String()
	s.buf.Reset()
	if s.log != nil {
		io.WriteString(s.log, txt)
	}
	if _, err := io.WriteString(s.in, txt); err != nil {
		return nil, err
	}
	var lines []string
	for {
		line, err := s.out.ReadString('\n')
		if err != nil {
			return lines, fmt.Errorf("solver %s died: %v (lines so far: %v)", s.name, err, lines)
		}
		line = strings.TrimRight(line, "\r\n")
		t := strings.Trim(line, "\"")
		if t == mark {
			break
		}
		if line != "" {
			lines = append(lines, line)
		}
	}
	for _, l := range lines {
		if strings.HasPrefix(l, "(error") {
			s.Errors++
			return lines, fmt.Errorf("solver %s error: %s", s.name, l)
		}
	}
	return lines, nil
}

// define emits declarations/definitions needed for t.
func (s *Solver) define(t *Term) {
	// declare new vars / ufs
	for ; s.declVar < len(s.ctx.vars); s.declVar++ {
		v := s.ctx.vars[s.declVar]
		s.send(fmt.Sprintf("(declare-const %s %s)\n", smtName(v.Name), sortStr(v.W)))
	}
	for ; s.declUF < len(s.ctx.ufOrd); s.declUF++ {
		n := s.ctx.ufOrd[s.declUF]
		sig := s.ctx.ufs[n]
		var as []string
		for _, w := range sig[:len(sig)-1] {
			as = append(as, sortStr(w))
		}
		s.send(fmt.Sprintf("(declare-fun %s (%s) %s)\n", smtName(n), strings.Join(as, " "), sortStr(sig[len(sig)-1])))
	}
	s.defRec(t)
}

func (s *Solver) defRec(t *Term) {
	if t.K == KConst || t.K == KVar || s.defined[t.ID] {
		return
	}
	// iterative post-order to avoid deep recursion
	type fr struct {
		t *Term
		i int
	}
	st := []fr{{t, 0}}
	for len(st) > 0 {
		f := &st[len(st)-1]
		if f.i < len(f.t.Args) {
			a := f.t.Args[f.i]
			f.i++
			if a.K != KConst && a.K != KVar && !s.defined[a.ID] {
				st = append(st, fr{a, 0})
			}
			continue
		}
		if !s.defined[f.t.ID] {
			s.defined[f.t.ID] = true
			s.send(fmt.Sprintf("(define-fun t%d () %s %s)\n", f.t.ID, sortStr(f.t.W), body(f.t)))
		}
		st = st[:len(st)-1]
	}
}

// setStack makes the solver's assertion stack equal to pc (sharing the common prefix).
func (s *Solver) setStack(pc []*Term) {
	n := 0
	for n < len(s.stack) && n < len(pc) && s.stack[n] == pc[n] {
		n++
	}
	if n < len(s.stack) {
		s.send(fmt.Sprintf("(pop %d)\n", len(s.stack)-n))
		s.stack = s.stack[:n]
	}
	for _, t := range pc[n:] {
		s.define(t)
		s.send("(push 1)\n(assert " + ref(t) + ")\n")
		s.stack = append(s.stack, t)
	}
}

type SatResult int

const (
	Unsat SatResult = iota
	Sat
	Unknown
)

func (r SatResult) String() string { return [...]string{"unsat", "sat", "unknown"}[r] }

// Check decides satisfiability of pc ∧ extra.
func (s *Solver) Check(pc []*Term, extra *Term) (SatResult, error) {
	if extra != nil && extra.IsFalse() {
		return Unsat, nil
	}
	for _, t := range pc {
		if t.IsFalse() {
			return Unsat, nil
		}
	}
	full := pc
	if extra != nil && !extra.IsTrue() {
		full = append(append([]*Term{}, pc...), extra)
	}
	t0 := time.Now()
	s.oneShot = nil
	s.setStack(full)
	if s.Tactic != "" {
		s.send("(check-sat-using " + s.Tactic + ")\n")
	} else {
		s.send("(check-sat)\n")
	}
	lines, err := s.sync()
	s.Time += time.Since(t0)
	s.Queries++
	if err != nil {
		return Unknown, err
	}
	if len(lines) == 0 {
		return Unknown, fmt.Errorf("no answer from %s", s.name)
	}
	switch lines[len(lines)-1] {
	case "sat":
		s.Sat++
		if err := s.crossCheck(full, Sat); err != nil {
			return Unknown, err
		}
		return Sat, nil
	case "unsat":
		s.Unsat++
		if err := s.crossCheck(full, Unsat); err != nil {
			return Unknown, err
		}
		return Unsat, nil
	}
	// the incremental core gave up (short timeout): decide the same query in a fresh process, where the
	// solver may use its full preprocessing / bit-blasting pipeline
	t1 := time.Now()
	r, err := s.checkOneShot(full)
	s.Time += time.Since(t1)
	s.OneShots++
	if err != nil {
		return Unknown, err
	}
	switch r {
	case Sat:
		s.Sat++
	case Unsat:
		s.Unsat++
	default:
		s.Unknown++
	}
	return r, nil
}

// crossCheck re-decides every XEvery-th query with an independent solver (standalone script); a
// disagreement is an error of the run (the encoding or a solver is wrong), never a verdict.
func (s *Solver) crossCheck(pc []*Term, got SatResult) error {
	if s.XEvery <= 0 || s.Queries%s.XEvery != 0 {
		return nil
	}
	second := "cvc5"
	if strings.HasPrefix(s.name, "cvc5") {
		second = "z3-new"
	}
	save := s.name
	s.name = second
	r, err := s.checkOneShotWith(pc, second, 20000)
	s.name = save
	s.oneShot = nil
	if err != nil || r == Unknown {
		return nil // the second solver could not decide in its budget: no information
	}
	s.XChecked++
	s.XSecond = second
	if r != got {
		return fmt.Errorf("solver disagreement: %s says %v, %s says %v", save, got, second, r)
	}
	return nil
}

// checkOneShot writes a standalone script for the conjunction and runs a fresh solver process on it.
func (s *Solver) checkOneShot(pc []*Term) (SatResult, error) {
	return s.checkOneShotWith(pc, "", s.timeoutMs)
}

func (s *Solver) checkOneShotWith(pc []*Term, which string, timeoutMs int) (SatResult, error) {
	var sb strings.Builder
	seen := map[int]bool{}
	var order []*Term
	var vars []*Term
	ufs := map[string]bool{}
	var ufOrd []string
	var visit func(t *Term)
	visit = func(t *Term) {
		if seen[t.ID] {
			return
		}
		seen[t.ID] = true
		for _, a := range t.Args {
			visit(a)
		}
		switch t.K {
		case KConst:
		case KVar:
			vars = append(vars, t)
		default:
			if t.K == KUF && !ufs[t.Name] {
				ufs[t.Name] = true
				ufOrd = append(ufOrd, t.Name)
			}
			order = append(order, t)
		}
	}
	for _, t := range pc {
		visit(t)
	}
	logic := "QF_BV"
	if len(ufOrd) > 0 {
		logic = "QF_UFBV"
	}
	sb.WriteString("(set-option :produce-models true)\n(set-logic " + logic + ")\n")
	for _, v := range vars {
		fmt.Fprintf(&sb, "(declare-const %s %s)\n", smtName(v.Name), sortStr(v.W))
	}
	for _, n := range ufOrd {
		sig := s.ctx.ufs[n]
		var as []string
		for _, w := range sig[:len(sig)-1] {
			as = append(as, sortStr(w))
		}
		fmt.Fprintf(&sb, "(declare-fun %s (%s) %s)\n", smtName(n), strings.Join(as, " "), sortStr(sig[len(sig)-1]))
	}
	for _, t := range order {
		fmt.Fprintf(&sb, "(define-fun t%d () %s %s)\n", t.ID, sortStr(t.W), body(t))
	}
	for _, t := range pc {
		sb.WriteString("(assert " + ref(t) + ")\n")
	}
	sb.WriteString("(check-sat)\n")
	if len(vars) > 0 {
		sb.WriteString("(get-value (")
		for _, v := range vars {
			sb.WriteString(smtName(v.Name) + " ")
		}
		sb.WriteString("))\n")
	}
	f, err := os.CreateTemp("", "gosmt-oneshot-*.smt2")
	if err != nil {
		return Unknown, err
	}
	defer os.Remove(f.Name())
	f.WriteString(sb.String())
	f.Close()
	bin := "z3-new"
	if s.name == "z3" {
		bin = "z3"
	}
	cmd := exec.Command(bin, fmt.Sprintf("-T:%d", timeoutMs/1000+1), f.Name())
	if which == "cvc5" {
		cmd = exec.Command("cvc5", "--lang=smt2", fmt.Sprintf("--tlimit=%d", timeoutMs), f.Name())
	} else if which == "" && strings.HasPrefix(s.name, "cvc5") {
		cmd = exec.Command("cvc5", "--lang=smt2", "--solve-bv-as-int=sum", fmt.Sprintf("--tlimit=%d", timeoutMs), f.Name())
	}
	out, _ := cmd.Output()
	txt := string(out)
	lines := strings.SplitN(strings.TrimSpace(txt), "\n", 2)
	switch strings.TrimSpace(lines[0]) {
	case "unsat":
		return Unsat, nil
	case "sat":
		m := map[string]uint64{}
		if len(lines) > 1 && len(vars) > 0 {
			vals := parseValues(lines[1])
			if len(vals) == len(vars) {
				for i, v := range vars {
					m[v.Name] = vals[i]
				}
			}
		}
		s.oneShot = m
		return Sat, nil
	}
	return Unknown, nil
}

// Values returns the model values of the given terms; must follow a Sat Check with no change in between.
func (s *Solver) Values(ts []*Term) ([]uint64, error) {
	res := make([]uint64, len(ts))
	if len(ts) == 0 {
		return res, nil
	}
	if s.oneShot != nil {
		m := &Model{Vars: s.oneShot}
		memo := map[int]uint64{}
		for i, t := range ts {
			v, ok := s.ctx.evalDefault(t, m, memo)
			if !ok {
				return nil, fmt.Errorf("one-shot model cannot evaluate a term with uninterpreted functions")
			}
			res[i] = v
		}
		return res, nil
	}
	// we may not define new terms without disturbing the model in some solvers; z3 keeps the model
	// after define-fun, but to be safe we only query terms; define first then re-check.
	need := false
	for _, t := range ts {
		if t.K != KConst && t.K != KVar && !s.defined[t.ID] {
			need = true
		}
	}
	if need {
		for _, t := range ts {
			s.define(t)
		}
		s.send("(check-sat)\n")
		lines, err := s.sync()
		if err != nil {
			return nil, err
		}
		if len(lines) == 0 || lines[len(lines)-1] != "sat" {
			return nil, fmt.Errorf("re-check for model not sat: %v", lines)
		}
	} else {
		for _, t := range ts {
			s.define(t)
		}
	}
	const chunk = 200
	for i := 0; i < len(ts); i += chunk {
		j := i + chunk
		if j > len(ts) {
			j = len(ts)
		}
		var sb strings.Builder
		sb.WriteString("(get-value (")
		for _, t := range ts[i:j] {
			sb.WriteString(ref(t))
			sb.WriteByte(' ')
		}
		sb.WriteString("))\n")
		s.send(sb.String())
		lines, err := s.sync()
		if err != nil {
			return nil, err
		}
		vals := parseValues(strings.Join(lines, " "))
		if len(vals) != j-i {
			return nil, fmt.Errorf("get-value: expected %d values, got %d: %v", j-i, len(vals), lines)
		}
		copy(res[i:j], vals)
	}
	return res, nil
}

// parseValues extracts the value literals from "((t1 #x01) (t2 true) ...)".
func parseValues(s string) []uint64 {
	var out []uint64
	// tokenise
	toks := []string{}
	cur := strings.Builder{}
	inBar := false
	flush := func() {
		if cur.Len() > 0 {
			toks = append(toks, cur.String())
			cur.Reset()
		}
	}
	for _, r := range s {
		if inBar {
			cur.WriteRune(r)
			if r == '|' {
				inBar = false
			}
			continue
		}
		switch r {
		case '|':
			inBar = true
			cur.WriteRune(r)
		case '(', ')':
			flush()
			toks = append(toks, string(r))
		case ' ', '\t', '\n':
			flush()
		default:
			cur.WriteRune(r)
		}
	}
	flush()
	// structure: ( ( term value ) ( term value ) ... ) ; term may itself be an s-expr
	depth := 0
	var pair []string
	for _, t := range toks {
		if t == "(" {
			depth++
			if depth >= 3 {
				pair = append(pair, t)
			}
			continue
		}
		if t == ")" {
			if depth >= 3 {
				pair = append(pair, t)
			}
			depth--
			if depth == 1 {
				// end of a pair: last token(s) are the value
				out = append(out, parseLit(pair))
				pair = nil
			}
			continue
		}
		if depth >= 2 {
			pair = append(pair, t)
		}
	}
	return out
}

func parseLit(pair []string) uint64 {
	if len(pair) == 0 {
		return 0
	}
	last := pair[len(pair)-1]
	if last == ")" {
		// (_ bvN w) form
		for i := len(pair) - 1; i >= 0; i-- {
			if strings.HasPrefix(pair[i], "bv") {
				v, _ := strconv.ParseUint(pair[i][2:], 10, 64)
				return v
			}
		}
		return 0
	}
	switch {
	case last == "true":
		return 1
	case last == "false":
		return 0
	case strings.HasPrefix(last, "#x"):
		v, _ := strconv.ParseUint(last[2:], 16, 64)
		return v
	case strings.HasPrefix(last, "#b"):
		v, _ := strconv.ParseUint(last[2:], 2, 64)
		return v
	}
	return 0
}
