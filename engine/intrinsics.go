package main

import (
	"fmt"
	"go/types"
	"math/bits"
	"strings"

	"golang.org/x/tools/go/ssa"
)

type intrinsic func(e *Engine, s *State, f *Frame, fn *ssa.Function, args []Value, retIdx int, advance bool) (Value, bool)

const rtPkg = "github.com/IrineSistiana/mosproxy/internal/verifrt."

var intrinsics map[string]intrinsic

var noopPrefixes = []string{
	"github.com/rs/zerolog",
	"github.com/prometheus/",
	"go.uber.org/zap",
	"github.com/spf13/",
	"github.com/maypok86/otter",
	"github.com/IrineSistiana/mosproxy/internal/mlog",
	"log.", "(*log.",
}

var redirects = map[string]string{
	"context.WithCancel":       "CtxWithCancel",
	"context.WithCancelCause":  "CtxWithCancelCause",
	"context.WithTimeout":      "CtxWithTimeout",
	"context.WithTimeoutCause": "CtxWithTimeoutCause",
	"context.WithDeadline":     "CtxWithDeadline",
	"context.Cause":            "CtxCause",
}

func isNoopPkg(p string) bool {
	for _, pre := range noopPrefixes {
		if strings.HasPrefix(p, pre) {
			return true
		}
	}
	return false
}

func ptrKey(p *Pointer) string {
	return fmt.Sprintf("%d/%v", p.Obj, p.Path)
}

func (e *Engine) lookupIntrinsic(fn *ssa.Function) intrinsic {
	name := fn.String()
	if h, ok := intrinsics[name]; ok {
		return h
	}
	if o := fn.Origin(); o != nil {
		if h, ok := intrinsics[o.String()]; ok {
			return h
		}
	}
	if strings.Contains(name, "[") {
		if h, ok := intrinsics[stripTypeArgs(name)]; ok {
			return h
		}
	}
	pk := ""
	if fn.Pkg != nil {
		pk = fn.Pkg.Pkg.Path()
	} else if fn.Signature.Recv() != nil {
		// method wrappers etc: derive from receiver type
		t := fn.Signature.Recv().Type()
		if pt, ok := t.(*types.Pointer); ok {
			t = pt.Elem()
		}
		if nt, ok := t.(*types.Named); ok && nt.Obj().Pkg() != nil {
			pk = nt.Obj().Pkg().Path()
		}
	}
	for _, pre := range noopPrefixes {
		if strings.HasPrefix(pk, pre) || strings.HasPrefix(name, pre) {
			return noopIntrinsic
		}
	}
	if fn.Name() == "init" && fn.Signature.Recv() == nil && fn.Pkg != nil && !e.initAllowed(fn.Pkg) {
		return noopIntrinsic
	}
	return nil
}

func noopIntrinsic(e *Engine, s *State, f *Frame, fn *ssa.Function, args []Value, retIdx int, advance bool) (Value, bool) {
	res := fn.Signature.Results()
	switch res.Len() {
	case 0:
		return nil, true
	case 1:
		return e.zeroOrSelf(res.At(0).Type(), fn, args), true
	}
	tv := make(TupleV, res.Len())
	for i := range tv {
		tv[i] = e.zero(res.At(i).Type())
	}
	return tv, true
}

// zeroOrSelf: fluent APIs (zerolog) return their receiver type; a zero value is fine for no-ops.
func (e *Engine) zeroOrSelf(t types.Type, fn *ssa.Function, args []Value) Value {
	return e.zero(t)
}

var initPkgs = []string{
	"github.com/IrineSistiana/mosproxy/internal/dnsmsg",
	"github.com/IrineSistiana/mosproxy/internal/dnsutils",
	"github.com/IrineSistiana/mosproxy/internal/pool",
	"github.com/IrineSistiana/mosproxy/internal/netlist",
	"github.com/IrineSistiana/mosproxy/internal/domain_matcher",
	"github.com/IrineSistiana/mosproxy/internal/limiter",
	"github.com/IrineSistiana/mosproxy/internal/cache",
	"github.com/IrineSistiana/mosproxy/internal/upstream",
	"github.com/IrineSistiana/mosproxy/internal/upstream/transport",
	"github.com/IrineSistiana/mosproxy/internal/utils",
	"github.com/IrineSistiana/mosproxy/app/router",
	"github.com/IrineSistiana/connpool",
	"io", "context", "bytes", "strings", "strconv", "net/netip", "bufio", "encoding/base64", "unicode/utf8", "unicode",
}

func (e *Engine) initAllowed(p *ssa.Package) bool {
	pp := p.Pkg.Path()
	for _, a := range initPkgs {
		if a == pp {
			return true
		}
	}
	return false
}

func (e *Engine) tagOf(v Value) string {
	str, ok := e.concreteString(v)
	if !ok {
		e.errf("verifrt tag must be a constant string")
	}
	return str
}

func (e *Engine) ndName(s *State, tag string) string {
	n := s.ndCnt[tag]
	s.ndCnt[tag] = n + 1
	return fmt.Sprintf("%s#%d", tag, n)
}

func (e *Engine) ndScalar(s *State, tag string, w int) *Term {
	name := e.ndName(s, tag)
	t := e.c.Var(name, w)
	s.nd = append(s.nd, ndRec{Tag: name, T: t})
	s.mvars = append(s.mvars, t)
	return t
}

func (e *Engine) ndBytes(s *State, tag string, max int, exact bool) *SliceV {
	c := e.c
	name := e.ndName(s, tag)
	cells := make([]*Term, max)
	for i := range cells {
		cells[i] = c.Var(fmt.Sprintf("%s[%d]", name, i), 8)
	}
	arr := e.newCellsArr(cells)
	s.mvars = append(s.mvars, cells...)
	var ln *Term
	if exact {
		ln = c.BV(uint64(max), 64)
	} else {
		if max < 65536 {
			ln = c.Zext(c.Var(name+".len", 16), 64)
		} else {
			ln = c.Var(name+".len", 64)
		}
		s.mvars = append(s.mvars, ln)
		s.pc = append(s.pc, c.Ule(ln, c.BV(uint64(max), 64)))
		s.model = nil
	}
	o := e.newObj(s, arr, nil, "nondet "+name)
	s.nd = append(s.nd, ndRec{Tag: name, Len: ln, Arr: arr, Max: max})
	return &SliceV{Base: &Pointer{Obj: o.ID}, Off: c.BV(0, 64), Len: ln, Cap: ln}
}

func argInt(e *Engine, v Value) int {
	t := v.(*Term)
	if !t.IsConst() {
		e.errf("verifrt: argument must be concrete")
	}
	return int(int64(t.Val))
}

func init() {
	intrinsics = map[string]intrinsic{
		rtPkg + "Bool": func(e *Engine, s *State, f *Frame, fn *ssa.Function, args []Value, retIdx int, advance bool) (Value, bool) {
			return e.ndScalar(s, e.tagOf(args[0]), 0), true
		},
		rtPkg + "Byte": func(e *Engine, s *State, f *Frame, fn *ssa.Function, args []Value, retIdx int, advance bool) (Value, bool) {
			return e.ndScalar(s, e.tagOf(args[0]), 8), true
		},
		rtPkg + "U16": func(e *Engine, s *State, f *Frame, fn *ssa.Function, args []Value, retIdx int, advance bool) (Value, bool) {
			return e.ndScalar(s, e.tagOf(args[0]), 16), true
		},
		rtPkg + "U32": func(e *Engine, s *State, f *Frame, fn *ssa.Function, args []Value, retIdx int, advance bool) (Value, bool) {
			return e.ndScalar(s, e.tagOf(args[0]), 32), true
		},
		rtPkg + "U64": func(e *Engine, s *State, f *Frame, fn *ssa.Function, args []Value, retIdx int, advance bool) (Value, bool) {
			return e.ndScalar(s, e.tagOf(args[0]), 64), true
		},
		rtPkg + "Int": func(e *Engine, s *State, f *Frame, fn *ssa.Function, args []Value, retIdx int, advance bool) (Value, bool) {
			return e.ndScalar(s, e.tagOf(args[0]), 64), true
		},
		rtPkg + "IntRange": func(e *Engine, s *State, f *Frame, fn *ssa.Function, args []Value, retIdx int, advance bool) (Value, bool) {
			lo, hi := args[1].(*Term), args[2].(*Term)
			if lo.IsConst() && hi.IsConst() && lo.Val == hi.Val {
				return lo, true
			}
			var t *Term
			if lo.IsConst() && hi.IsConst() && int64(lo.Val) >= 0 && hi.Val < 65536 {
				t = e.c.Zext(e.ndScalar(s, e.tagOf(args[0]), 16), 64)
				s.nd[len(s.nd)-1].T = t
			} else {
				t = e.ndScalar(s, e.tagOf(args[0]), 64)
			}
			s.pc = append(s.pc, e.c.And(e.c.Sle(lo, t), e.c.Sle(t, hi)))
			s.model = nil
			return t, true
		},
		rtPkg + "Bytes": func(e *Engine, s *State, f *Frame, fn *ssa.Function, args []Value, retIdx int, advance bool) (Value, bool) {
			return e.ndBytes(s, e.tagOf(args[0]), argInt(e, args[1]), false), true
		},
		rtPkg + "BytesN": func(e *Engine, s *State, f *Frame, fn *ssa.Function, args []Value, retIdx int, advance bool) (Value, bool) {
			return e.ndBytes(s, e.tagOf(args[0]), argInt(e, args[1]), true), true
		},
		rtPkg + "Assume": func(e *Engine, s *State, f *Frame, fn *ssa.Function, args []Value, retIdx int, advance bool) (Value, bool) {
			e.addAssume(s, args[0].(*Term))
			return nil, true
		},
		rtPkg + "Assert": func(e *Engine, s *State, f *Frame, fn *ssa.Function, args []Value, retIdx int, advance bool) (Value, bool) {
			msg, _ := e.concreteString(args[1])
			e.check(s, args[0].(*Term), "assert", msg)
			return nil, true
		},
		rtPkg + "Reach": func(e *Engine, s *State, f *Frame, fn *ssa.Function, args []Value, retIdx int, advance bool) (Value, bool) {
			tag := e.tagOf(args[0])
			if _, ok := e.reached[tag]; !ok {
				r, err := e.sol.Check(s.pc, nil)
				if err != nil {
					e.errf("solver: %v", err)
				}
				if r == Sat {
					e.reached[tag] = e.model(s)
				}
			}
			return nil, true
		},
		rtPkg + "Unwind": func(e *Engine, s *State, f *Frame, fn *ssa.Function, args []Value, retIdx int, advance bool) (Value, bool) {
			s.unwind = argInt(e, args[0])
			return nil, true
		},
		rtPkg + "EqBytes": func(e *Engine, s *State, f *Frame, fn *ssa.Function, args []Value, retIdx int, advance bool) (Value, bool) {
			return e.bytesEq(s, args[0].(*SliceV), args[1].(*SliceV)), true
		},
		rtPkg + "Thorough": func(e *Engine, s *State, f *Frame, fn *ssa.Function, args []Value, retIdx int, advance bool) (Value, bool) {
			return e.c.Bool(e.tier == "thorough"), true
		},
		rtPkg + "Shard": func(e *Engine, s *State, f *Frame, fn *ssa.Function, args []Value, retIdx int, advance bool) (Value, bool) {
			return e.c.BV(uint64(e.shard), 64), true
		},
		rtPkg + "Symbolic": func(e *Engine, s *State, f *Frame, fn *ssa.Function, args []Value, retIdx int, advance bool) (Value, bool) {
			return e.c.True, true
		},
		rtPkg + "IsReleased": func(e *Engine, s *State, f *Frame, fn *ssa.Function, args []Value, retIdx int, advance bool) (Value, bool) {
			sl := args[0].(*SliceV)
			if sl.Base == nil {
				return e.c.False, true
			}
			return e.c.Bool(s.obj(sl.Base.Obj).Released), true
		},
		rtPkg + "SameArray": func(e *Engine, s *State, f *Frame, fn *ssa.Function, args []Value, retIdx int, advance bool) (Value, bool) {
			a, b := args[0].(*SliceV), args[1].(*SliceV)
			if a.Base == nil || b.Base == nil {
				return e.c.False, true
			}
			return e.c.Bool(ptrKey(a.Base) == ptrKey(b.Base)), true
		},
		rtPkg + "Ite": func(e *Engine, s *State, f *Frame, fn *ssa.Function, args []Value, retIdx int, advance bool) (Value, bool) {
			return e.c.Ite(args[0].(*Term), args[1].(*Term), args[2].(*Term)), true
		},
		rtPkg + "And": func(e *Engine, s *State, f *Frame, fn *ssa.Function, args []Value, retIdx int, advance bool) (Value, bool) {
			return e.c.And(args[0].(*Term), args[1].(*Term)), true
		},
		rtPkg + "Or": func(e *Engine, s *State, f *Frame, fn *ssa.Function, args []Value, retIdx int, advance bool) (Value, bool) {
			return e.c.Or(args[0].(*Term), args[1].(*Term)), true
		},
		rtPkg + "Implies": func(e *Engine, s *State, f *Frame, fn *ssa.Function, args []Value, retIdx int, advance bool) (Value, bool) {
			return e.c.Implies(args[0].(*Term), args[1].(*Term)), true
		},
		rtPkg + "Concrete": func(e *Engine, s *State, f *Frame, fn *ssa.Function, args []Value, retIdx int, advance bool) (Value, bool) {
			t := args[0].(*Term)
			v := e.concretize(s, t, "verifrt.Concrete")
			return e.c.BV(v, t.W), true
		},

		"github.com/IrineSistiana/bytespool.Get":     bytespoolGet,
		"github.com/IrineSistiana/bytespool.Release": bytespoolRelease,
		"(*sync.Pool).Get":                           syncPoolGet,
		"(*sync.Pool).Put":                           syncPoolPut,

		"bytes.Equal": func(e *Engine, s *State, f *Frame, fn *ssa.Function, args []Value, retIdx int, advance bool) (Value, bool) {
			return e.bytesEq(s, args[0].(*SliceV), args[1].(*SliceV)), true
		},
		"bytes.IndexByte":               indexByte,
		"strings.IndexByte":             indexByte,
		"internal/bytealg.IndexByte":       indexByte,
		"internal/bytealg.IndexByteString": indexByte,
		"internal/bytealg.Equal": func(e *Engine, s *State, f *Frame, fn *ssa.Function, args []Value, retIdx int, advance bool) (Value, bool) {
			return e.bytesEq(s, args[0].(*SliceV), args[1].(*SliceV)), true
		},
		"internal/stringslite.HasPrefix": hasPrefix,
		"internal/stringslite.Index":     indexSub,
		"strings.Index":                  indexSub,
		"bytes.Index":                    indexSub,
		"internal/bytealg.IndexString":   indexSub,
		"internal/bytealg.Index":         indexSub,
		"strings.Contains": func(e *Engine, s *State, f *Frame, fn *ssa.Function, args []Value, retIdx int, advance bool) (Value, bool) {
			r, _ := indexSub(e, s, f, fn, args, retIdx, advance)
			return e.c.Sle(e.c.BV(0, 64), r.(*Term)), true
		},
		"strings.HasPrefix":              hasPrefix,
		"bytes.HasPrefix":                hasPrefix,
		"errors.New": func(e *Engine, s *State, f *Frame, fn *ssa.Function, args []Value, retIdx int, advance bool) (Value, bool) {
			return nil, false // interpreted from source (returns &errorString{})
		},
		"fmt.Errorf": fmtErrorf,
		"fmt.Sprintf": func(e *Engine, s *State, f *Frame, fn *ssa.Function, args []Value, retIdx int, advance bool) (Value, bool) {
			return e.mkString("<fmt>"), true
		},
		"fmt.Sprint": func(e *Engine, s *State, f *Frame, fn *ssa.Function, args []Value, retIdx int, advance bool) (Value, bool) {
			return e.mkString("<fmt>"), true
		},
		"math/bits.Len":   bitsLen(64),
		"math/bits.Len64": bitsLen(64),
		"math/bits.Len32": bitsLen(32),
		"math/bits.Len16": bitsLen(16),
		"math/bits.Len8":  bitsLen(8),
		"unique.Make": uniqueMake,
		"internal/bytealg.MakeNoZero": func(e *Engine, s *State, f *Frame, fn *ssa.Function, args []Value, retIdx int, advance bool) (Value, bool) {
			n := args[0].(*Term)
			return e.makeSlice(s, types.Typ[types.Uint8], n, n, "MakeNoZero@"+e.curPos(s)), true
		},
		"internal/abi.NoEscape": func(e *Engine, s *State, f *Frame, fn *ssa.Function, args []Value, retIdx int, advance bool) (Value, bool) {
			return args[0], true
		},
		"errors.Is":   errorsIs,
		"errors.As":   errorsAs,
		"errors.Join": func(e *Engine, s *State, f *Frame, fn *ssa.Function, args []Value, retIdx int, advance bool) (Value, bool) {
			// opaque non-nil error unless every operand is nil
			va := args[0].(*SliceV)
			if va.Base == nil {
				return &IfaceV{}, true
			}
			n := e.concretize(s, va.Len, "errors.Join n")
			off := e.concretize(s, va.Off, "errors.Join off")
			var first *IfaceV
			for i := uint64(0); i < n; i++ {
				el := e.load(s, &Pointer{Obj: va.Base.Obj, Path: append(append([]int(nil), va.Base.Path...), int(off+i))}).(*IfaceV)
				if el.T != nil && first == nil {
					first = el
				}
			}
			if first == nil {
				return &IfaceV{}, true
			}
			fmtPkg := e.prog.ImportedPackage("fmt")
			if fmtPkg != nil && fmtPkg.Type("wrapError") != nil {
				wt := fmtPkg.Type("wrapError").Type()
				o := e.newObj(s, &StructV{Fields: []Value{e.mkString("<join>"), first}}, wt, "errors.Join@"+e.curPos(s))
				return &IfaceV{T: types.NewPointer(wt), V: &Pointer{Obj: o.ID}}, true
			}
			return first, true
		},
		"github.com/IrineSistiana/gopool.Go": func(e *Engine, s *State, f *Frame, fn *ssa.Function, args []Value, retIdx int, advance bool) (Value, bool) {
			fv := args[0].(*FuncV)
			if fv.Fn == nil {
				e.fail(s, "panic", "gopool.Go(nil)")
			}
			if len(s.gs) >= 512 {
				e.errf("more than 512 goroutines")
			}
			e.usedModels = true
			ng := &Goroutine{id: len(s.gs)}
			ng.frames = []*Frame{e.newFrame(fv.Fn, nil, fv.Bindings, -1)}
			s.gs = append(s.gs, ng)
			return nil, true
		},
		rtPkg + "PreemptSync": func(e *Engine, s *State, f *Frame, fn *ssa.Function, args []Value, retIdx int, advance bool) (Value, bool) {
			s.preemptSync = true
			return nil, true
		},
		rtPkg + "Expect": func(e *Engine, s *State, f *Frame, fn *ssa.Function, args []Value, retIdx int, advance bool) (Value, bool) {
			if e.expected == nil {
				e.expected = map[string]bool{}
			}
			for _, t := range strings.Split(e.tagOf(args[0]), ",") {
				if t = strings.TrimSpace(t); t != "" {
					e.expected[t] = true
				}
			}
			return nil, true
		},
		rtPkg + "NoTimers": func(e *Engine, s *State, f *Frame, fn *ssa.Function, args []Value, retIdx int, advance bool) (Value, bool) {
			s.noTimers = true
			return nil, true
		},
		rtPkg + "AllowMainBlock": func(e *Engine, s *State, f *Frame, fn *ssa.Function, args []Value, retIdx int, advance bool) (Value, bool) {
			s.ghost["@allow-main-block"] = 1
			return nil, true
		},
		rtPkg + "IsReleasedPtr": func(e *Engine, s *State, f *Frame, fn *ssa.Function, args []Value, retIdx int, advance bool) (Value, bool) {
			e.usedModels = true
			iv := args[0].(*IfaceV)
			if iv.T == nil {
				return e.c.False, true
			}
			p, ok := iv.V.(*Pointer)
			if !ok || p.IsNil() {
				return e.c.False, true
			}
			return e.c.Bool(s.obj(p.Obj).Released), true
		},
		rtPkg + "Redirect": func(e *Engine, s *State, f *Frame, fn *ssa.Function, args []Value, retIdx int, advance bool) (Value, bool) {
			name := e.tagOf(args[0])
			iv := args[1].(*IfaceV)
			if s.redirects == nil {
				s.redirects = map[string]*FuncV{}
			} else {
				n := make(map[string]*FuncV, len(s.redirects)+1)
				for k, v := range s.redirects {
					n[k] = v
				}
				s.redirects = n
			}
			s.redirects[name] = iv.V.(*FuncV)
			e.usedModels = true
			return nil, true
		},
		"sort.Slice":  sortSlice,
		"sort.SliceStable": sortSlice,
		"github.com/puzpuzpuz/xsync/v3.NewMapOf":                xsyncNew,
		"(*github.com/puzpuzpuz/xsync/v3.MapOf).LoadOrCompute": xsyncLoadOrCompute,
		"(*github.com/puzpuzpuz/xsync/v3.MapOf).Load":          xsyncLoad,
		"(*github.com/puzpuzpuz/xsync/v3.MapOf).Store":         xsyncStore,
		"(*github.com/puzpuzpuz/xsync/v3.MapOf).Delete":        xsyncDelete,
		"(*github.com/puzpuzpuz/xsync/v3.MapOf).Size":          xsyncSize,
		"(*github.com/puzpuzpuz/xsync/v3.MapOf).Range":         xsyncRange,
		"(*golang.org/x/time/rate.Limiter).AllowN": func(e *Engine, s *State, f *Frame, fn *ssa.Function, args []Value, retIdx int, advance bool) (Value, bool) {
			// token-bucket arithmetic (float64, wall clock) is outside the encoding: any verdict
			k := "rate:" + ptrKey(args[0].(*Pointer))
			s.ghost[k]++
			return e.ndScalar(s, "@rate.allow", 0), true
		},
		"hash/maphash.MakeSeed": noopIntrinsic,
		"hash/maphash.Bytes":    maphashBytes,
		"hash/maphash.String":   maphashBytes,
		"github.com/IrineSistiana/mosproxy/internal/mlog.L":   freshObjIntrinsic,
		"github.com/IrineSistiana/mosproxy/internal/mlog.Nop": freshObjIntrinsic,
		"crypto/x509.NewCertPool":                             freshObjIntrinsic,
		"(*crypto/tls.Config).Clone": func(e *Engine, s *State, f *Frame, fn *ssa.Function, args []Value, retIdx int, advance bool) (Value, bool) {
			p := args[0].(*Pointer)
			if p.IsNil() {
				return &Pointer{}, true
			}
			v := e.load(s, p)
			o := e.newObj(s, v, s.obj(p.Obj).T, "tls.Config.Clone@"+e.curPos(s))
			return &Pointer{Obj: o.ID}, true
		},
		"runtime.KeepAlive":          noopIntrinsic,
		"runtime.GC":                 noopIntrinsic,
		"runtime/debug.FreeOSMemory": noopIntrinsic,
		rtPkg + "MapExtraSize": func(e *Engine, s *State, f *Frame, fn *ssa.Function, args []Value, retIdx int, advance bool) (Value, bool) {
			e.usedModels = true
			iv := args[0].(*IfaceV)
			p := iv.V.(*Pointer)
			mo := s.obj(p.Obj).Val.(*MapObj)
			s.wobj(p.Obj).Val = &MapObj{Entries: mo.Entries, Extra: args[1].(*Term)}
			return nil, true
		},
		rtPkg + "OtterEvictAll": func(e *Engine, s *State, f *Frame, fn *ssa.Function, args []Value, retIdx int, advance bool) (Value, bool) {
			e.otterObj(s)
			s.wobj(s.ghost["otter.obj"]).Val = &MapObj{}
			return nil, true
		},
		rtPkg + "GhostDuration": func(e *Engine, s *State, f *Frame, fn *ssa.Function, args []Value, retIdx int, advance bool) (Value, bool) {
			e.usedModels = true
			if t := s.gterm[e.tagOf(args[0])]; t != nil {
				return t, true
			}
			return e.c.BV(0, 64), true
		},
		rtPkg + "Ghost": func(e *Engine, s *State, f *Frame, fn *ssa.Function, args []Value, retIdx int, advance bool) (Value, bool) {
			e.usedModels = true // ghost queries have no native counterpart
			return e.c.BV(uint64(s.ghost[e.tagOf(args[0])]), 64), true
		},
		"runtime.Gosched":   noopIntrinsic,
	}
	addSyncIntrinsics()
}

var _ = bits.Len

func bitsLen(w int) intrinsic {
	return func(e *Engine, s *State, f *Frame, fn *ssa.Function, args []Value, retIdx int, advance bool) (Value, bool) {
		c := e.c
		x := args[0].(*Term)
		if x.IsConst() {
			return c.BV(uint64(bits.Len64(x.Val)), 64), true
		}
		// ite chain from the top bit
		r := c.BV(0, 64)
		for i := 0; i < w; i++ {
			bit := c.Eq(c.Extract(x, i, i), c.BV(1, 1))
			r = c.Ite(bit, c.BV(uint64(i+1), 64), r)
		}
		return r, true
	}
}

// indexByte: first index of byte c in b, or -1; built as an ite chain over a bounded length.
func indexByte(e *Engine, s *State, f *Frame, fn *ssa.Function, args []Value, retIdx int, advance bool) (Value, bool) {
	c := e.c
	sl := args[0].(*SliceV)
	ch := args[1].(*Term)
	n := e.upper(s, sl.Len, 1<<16)
	arr := e.arrOf(s, sl)
	r := c.BV(^uint64(0), 64)
	for i := int64(n) - 1; i >= 0; i-- {
		it := c.BV(uint64(i), 64)
		hit := c.And(c.Ult(it, sl.Len), c.Eq(e.baRead(arr, c.Add(sl.Off, it)), ch))
		r = c.Ite(hit, it, r)
	}
	return r, true
}

func hasPrefix(e *Engine, s *State, f *Frame, fn *ssa.Function, args []Value, retIdx int, advance bool) (Value, bool) {
	c := e.c
	a, p := args[0].(*SliceV), args[1].(*SliceV)
	if !p.Len.IsConst() {
		return nil, false
	}
	cj := []*Term{c.Ule(p.Len, a.Len)}
	aa, pa := e.arrOf(s, a), e.arrOf(s, p)
	for i := uint64(0); i < p.Len.Val; i++ {
		it := c.BV(i, 64)
		cj = append(cj, c.Eq(e.baRead(aa, c.Add(a.Off, it)), e.baRead(pa, c.Add(p.Off, it))))
	}
	return c.And(cj...), true
}

// fmtErrorf: opaque non-nil error; %w operand is remembered for errors.Is/Unwrap via a wrapError-like object.
func fmtErrorf(e *Engine, s *State, f *Frame, fn *ssa.Function, args []Value, retIdx int, advance bool) (Value, bool) {
	// build a *fmt.wrapError{msg, err} if there is exactly one error operand, else *errors.errorString
	var wrapped *IfaceV
	if va, ok := args[1].(*SliceV); ok && va.Base != nil {
		n := e.concretize(s, va.Len, "errorf args")
		off := e.concretize(s, va.Off, "errorf args off")
		for i := uint64(0); i < n; i++ {
			el := e.load(s, &Pointer{Obj: va.Base.Obj, Path: append(append([]int(nil), va.Base.Path...), int(off+i))})
			if iv, ok := el.(*IfaceV); ok && iv.T != nil {
				if types.Implements(iv.T, errorIface) {
					wrapped = iv
				}
			}
		}
	}
	fmtPkg := e.prog.ImportedPackage("fmt")
	if wrapped != nil && fmtPkg != nil {
		wt := fmtPkg.Type("wrapError")
		if wt != nil {
			st := &StructV{Fields: []Value{e.mkString("<errorf>"), wrapped}}
			o := e.newObj(s, st, wt.Type(), "fmt.Errorf@"+e.curPos(s))
			return &IfaceV{T: types.NewPointer(wt.Type()), V: &Pointer{Obj: o.ID}}, true
		}
	}
	errPkg := e.prog.ImportedPackage("errors")
	et := errPkg.Type("errorString").Type()
	o := e.newObj(s, &StructV{Fields: []Value{e.mkString("<errorf>")}}, et, "fmt.Errorf@"+e.curPos(s))
	return &IfaceV{T: types.NewPointer(et), V: &Pointer{Obj: o.ID}}, true
}

var errorIface = types.Universe.Lookup("error").Type().Underlying().(*types.Interface)

// ---------------------------------------------------------------- bytespool model

// size classes of github.com/IrineSistiana/bytespool
func bpClass(size uint64) uint64 {
	switch {
	case size == 0:
		return 0
	case size <= 256:
		return 1 << uint(bits.Len64(size-1))
	case size <= 1<<30:
		b := bits.Len64(size - 1)
		l := ((size - 1) >> uint(b-3)) & 3
		h := uint64(b - 9)
		return 1<<(h+8) + (l+1)<<(h+6)
	}
	return size
}

func bytespoolGet(e *Engine, s *State, f *Frame, fn *ssa.Function, args []Value, retIdx int, advance bool) (Value, bool) {
	c := e.c
	size := args[0].(*Term)
	if e.cond(s, c.Sle(size, c.BV(0, 64))) {
		// []byte{} : non-nil, zero length and capacity
		o := e.newObj(s, e.newFillArr(c.BV(0, 64), 0), nil, "bytespool.Get(0)")
		o.PoolCap = true
		return &SliceV{Base: &Pointer{Obj: o.ID}, Off: c.BV(0, 64), Len: c.BV(0, 64), Cap: c.BV(0, 64)}, true
	}
	label := "bytespool.Get@" + e.curPos(s)
	if !(e.symLen || s.symMem) && !size.IsConst() {
		size = c.BV(e.concretize(s, size, "bytespool size"), 64)
	}
	if size.IsConst() {
		cl := bpClass(size.Val)
		// LIFO recycling: hand back what was released last for this class, as it was left
		if lst := s.bpools[int(cl)]; len(lst) > 0 {
			id := lst[len(lst)-1]
			s.bpools[int(cl)] = lst[: len(lst)-1 : len(lst)-1]
			o := s.wobj(id)
			o.Released = false
			o.Gen++
			o.Label = label + " (recycled)"
			return &SliceV{Base: &Pointer{Obj: id, Gen: o.Gen}, Off: c.BV(0, 64), Len: size, Cap: c.BV(cl, 64)}, true
		}
		n := s.ghost["bp#"]
		s.ghost["bp#"] = n + 1
		var arr *ByteArr
		if cl <= 64 {
			// explicit garbage cells so that counterexamples can be replayed
			cells := make([]*Term, cl)
			for i := range cells {
				cells[i] = c.Var(fmt.Sprintf("@bp%d[%d]", n, i), 8)
			}
			arr = e.newCellsArr(cells)
			s.mvars = append(s.mvars, cells...)
			s.nd = append(s.nd, ndRec{Tag: fmt.Sprintf("@bp%d", n), Len: c.BV(cl, 64), Arr: arr, Max: int(cl)})
		} else {
			arr = e.newUFArr(c.BV(cl, 64), fmt.Sprintf("@bp%d_s%d", n, s.id))
		}
		o := e.newObj(s, arr, nil, label)
		o.PoolCap = true
		return &SliceV{Base: &Pointer{Obj: o.ID}, Off: c.BV(0, 64), Len: size, Cap: c.BV(cl, 64)}, true
	}
	// symbolic size: fresh buffer of exactly-fitting (unknown) class, arbitrary contents
	n := s.ghost["bp#"]
	s.ghost["bp#"] = n + 1
	capT := c.Var(fmt.Sprintf("@bpcap%d_s%d", n, s.id), 64)
	s.pc = append(s.pc, c.And(c.Ule(size, capT), c.Ule(capT, c.BV(1<<31, 64))))
	arr := e.newUFArr(capT, fmt.Sprintf("@bp%d_s%d", n, s.id))
	o := e.newObj(s, arr, nil, label)
	o.PoolCap = true
	return &SliceV{Base: &Pointer{Obj: o.ID}, Off: c.BV(0, 64), Len: size, Cap: capT}, true
}

func bytespoolRelease(e *Engine, s *State, f *Frame, fn *ssa.Function, args []Value, retIdx int, advance bool) (Value, bool) {
	sl := args[0].(*SliceV)
	if sl.Base == nil {
		e.fail(s, "panic", "bytespool: releasing a nil []byte")
	}
	o := s.obj(sl.Base.Obj)
	if o.Released {
		e.fail(s, "double-release", "bytespool buffer "+o.Label+" released twice (first at "+o.RelPos+")")
	}
	if !o.PoolCap {
		// cap must be a size class
		if sl.Cap.IsConst() {
			if sl.Cap.Val != 0 && bpClass(sl.Cap.Val) != sl.Cap.Val {
				e.fail(s, "panic", fmt.Sprintf("bytespool: invalid cap %d", sl.Cap.Val))
			}
		} else {
			e.fail(s, "panic", "bytespool: release of a buffer not obtained from the pool ("+o.Label+")")
		}
	} else {
		// slicing from the front changes cap: b[k:] has cap-k which is not a class
		e.check(s, e.c.Eq(sl.Off, e.c.BV(0, 64)), "panic", "bytespool: invalid cap (buffer re-sliced from the front)")
	}
	o = s.wobj(sl.Base.Obj)
	o.Released = true
	o.RelPos = e.curPos(s)
	if ba, ok := o.Val.(*ByteArr); ok && ba.Size.IsConst() && ba.Size.Val > 0 {
		cl := int(ba.Size.Val)
		s.bpools[cl] = append(s.bpools[cl], o.ID)
	}
	return nil, true
}

// ---------------------------------------------------------------- sync.Pool model (LIFO, objects as they were left)

func syncPoolGet(e *Engine, s *State, f *Frame, fn *ssa.Function, args []Value, retIdx int, advance bool) (Value, bool) {
	p := args[0].(*Pointer)
	k := ptrKey(p)
	if lst := s.pools[k]; len(lst) > 0 {
		v := lst[len(lst)-1]
		s.pools[k] = lst[: len(lst)-1 : len(lst)-1]
		if iv, ok := v.(*IfaceV); ok {
			if pp, ok := iv.V.(*Pointer); ok && !pp.IsNil() {
				o := s.wobj(pp.Obj)
				o.Released = false
			}
		}
		return v, true
	}
	// call New
	pv := e.load(s, p).(*StructV)
	st := fn.Signature.Recv().Type().(*types.Pointer).Elem().Underlying().(*types.Struct)
	for i := 0; i < st.NumFields(); i++ {
		if st.Field(i).Name() == "New" {
			nf := pv.Fields[i].(*FuncV)
			if nf.Fn == nil {
				return &IfaceV{}, true
			}
			e.pushCall(s, f, nf, nil, retIdx, advance)
			return tailCall, true
		}
	}
	e.errf("sync.Pool without New field")
	return nil, true
}

func syncPoolPut(e *Engine, s *State, f *Frame, fn *ssa.Function, args []Value, retIdx int, advance bool) (Value, bool) {
	p := args[0].(*Pointer)
	k := ptrKey(p)
	v := args[1]
	if iv, ok := v.(*IfaceV); ok {
		if pp, ok := iv.V.(*Pointer); ok && !pp.IsNil() {
			o := s.obj(pp.Obj)
			if o.Released {
				e.fail(s, "double-release", "object "+o.Label+" put into a sync.Pool twice (first at "+o.RelPos+")")
			}
			o = s.wobj(pp.Obj)
			o.Released = true
			o.RelPos = e.curPos(s)
		}
	}
	s.pools[k] = append(s.pools[k], v)
	return nil, true
}

// uniqueMake models unique.Make[T] for concrete comparable values: one canonical object per distinct value.
func uniqueMake(e *Engine, s *State, f *Frame, fn *ssa.Function, args []Value, retIdx int, advance bool) (Value, bool) {
	key := fn.String() + "|" + e.concreteKey(s, args[0])
	id, ok := e.uniq[key]
	if !ok {
		e.nobj++
		o := &Object{ID: e.nobj, Val: args[0], T: fn.Signature.Params().At(0).Type(), owner: -1, Label: "unique " + key}
		id = o.ID
		e.uniq[key] = id
		s.heap[id] = o
		if e.base != nil {
			e.base.heap[id] = o
		}
		for _, w := range e.work {
			w.heap[id] = o
		}
	}
	return &StructV{Fields: []Value{&Pointer{Obj: id}}}, true
}

// concreteKey renders a fully concrete value; symbolic parts are an engine error.
func (e *Engine) concreteKey(s *State, v Value) string {
	switch x := v.(type) {
	case *Term:
		x = e.simp(s, x)
		if !x.IsConst() {
			e.errf("concreteKey: symbolic scalar")
		}
		return fmt.Sprint(x.Val)
	case *StructV:
		var ps []string
		for _, f := range x.Fields {
			ps = append(ps, e.concreteKey(s, f))
		}
		return "{" + strings.Join(ps, ",") + "}"
	case *SliceV:
		if str, ok := e.concreteString(x); ok {
			return fmt.Sprintf("%q", str)
		}
	case *Pointer:
		return ptrKey(x)
	}
	e.errf("concreteKey: unsupported %T", v)
	return ""
}

// maphashBytes: an uninterpreted function of (length, first 8 octets); longer inputs are outside the model.
func maphashBytes(e *Engine, s *State, f *Frame, fn *ssa.Function, args []Value, retIdx int, advance bool) (Value, bool) {
	c := e.c
	sl := args[1].(*SliceV)
	n := e.upper(s, sl.Len, 1<<16)
	if n > 8 {
		e.errf("maphash model: input longer than 8 octets (%d)", n)
	}
	arr := e.arrOf(s, sl)
	packed := c.BV(0, 64)
	for i := uint64(0); i < n; i++ {
		it := c.BV(i, 64)
		b := c.Ite(c.Ult(it, sl.Len), e.baRead(arr, c.Add(sl.Off, it)), c.BV(0, 8))
		packed = c.BvOr(packed, c.Shl(c.Zext(b, 64), c.BV(8*i, 64)))
	}
	return c.UF("@maphash", 64, sl.Len, packed), true
}

func sortSlice(e *Engine, s *State, f *Frame, fn *ssa.Function, args []Value, retIdx int, advance bool) (Value, bool) {
	iv := args[0].(*IfaceV)
	sl := iv.V.(*SliceV)
	less := args[1].(*FuncV)
	n := sl.Len
	rt := e.prog.ImportedPackage("github.com/IrineSistiana/mosproxy/internal/verifrt")
	if rt == nil || rt.Func("SortSliceModel") == nil {
		e.errf("verifrt.SortSliceModel missing")
	}
	swap := &FuncV{Builtin: "@swap", Bindings: []Value{sl}}
	e.pushCall(s, f, &FuncV{Fn: rt.Func("SortSliceModel")}, []Value{n, less, swap}, -1, advance)
	return tailCall, true
}

// xsync.MapOf model: the receiver object holds an engine map (association list, lookups fork on key equality).
func xsyncNew(e *Engine, s *State, f *Frame, fn *ssa.Function, args []Value, retIdx int, advance bool) (Value, bool) {
	o := e.newObj(s, &MapObj{}, nil, "xsync.MapOf@"+e.curPos(s))
	return &Pointer{Obj: o.ID}, true
}

func xsyncLookup(e *Engine, s *State, p *Pointer, k Value) (Value, bool) {
	if p.IsNil() {
		e.fail(s, "panic", "nil xsync.MapOf")
	}
	mo := s.obj(p.Obj).Val.(*MapObj)
	for _, en := range mo.Entries {
		if e.cond(s, e.valueEq(s, en.K, k)) {
			return en.V, true
		}
	}
	return nil, false
}

func xsyncLoadOrCompute(e *Engine, s *State, f *Frame, fn *ssa.Function, args []Value, retIdx int, advance bool) (Value, bool) {
	p := args[0].(*Pointer)
	if f.contPhase == 1 && f.contIP == f.ip {
		v := f.scratch
		f.contPhase, f.scratch = 0, nil
		mo := s.obj(p.Obj).Val.(*MapObj)
		s.wobj(p.Obj).Val = &MapObj{Entries: append(append([]MapEntry(nil), mo.Entries...), MapEntry{args[1], v}), Extra: mo.Extra}
		return TupleV{v, e.c.False}, true
	}
	e.preemptPoint(s) // every operation of the concurrent map is a synchronisation point
	if v, ok := xsyncLookup(e, s, p, args[1]); ok {
		return TupleV{v, e.c.True}, true
	}
	f.contPhase, f.contIP = 1, f.ip
	e.pushCall(s, f, args[2].(*FuncV), nil, -2, false)
	return tailCall, true
}

// Store: insert or overwrite (one atomic step of the concurrent map)
func xsyncStore(e *Engine, s *State, f *Frame, fn *ssa.Function, args []Value, retIdx int, advance bool) (Value, bool) {
	e.preemptPoint(s)
	p := args[0].(*Pointer)
	if p.IsNil() {
		e.fail(s, "panic", "nil xsync.MapOf")
	}
	mo := s.obj(p.Obj).Val.(*MapObj)
	for i, en := range mo.Entries {
		if e.cond(s, e.valueEq(s, en.K, args[1])) {
			ne := append([]MapEntry(nil), mo.Entries...)
			ne[i].V = args[2]
			s.wobj(p.Obj).Val = &MapObj{Entries: ne, Extra: mo.Extra}
			return nil, true
		}
	}
	mo = s.obj(p.Obj).Val.(*MapObj)
	s.wobj(p.Obj).Val = &MapObj{Entries: append(append([]MapEntry(nil), mo.Entries...), MapEntry{args[1], args[2]}), Extra: mo.Extra}
	return nil, true
}

func xsyncLoad(e *Engine, s *State, f *Frame, fn *ssa.Function, args []Value, retIdx int, advance bool) (Value, bool) {
	e.preemptPoint(s)
	if v, ok := xsyncLookup(e, s, args[0].(*Pointer), args[1]); ok {
		return TupleV{v, e.c.True}, true
	}
	return TupleV{e.zero(fn.Signature.Results().At(0).Type()), e.c.False}, true
}

func xsyncDelete(e *Engine, s *State, f *Frame, fn *ssa.Function, args []Value, retIdx int, advance bool) (Value, bool) {
	p := args[0].(*Pointer)
	mo := s.obj(p.Obj).Val.(*MapObj)
	for i, en := range mo.Entries {
		if e.cond(s, e.valueEq(s, en.K, args[1])) {
			ne := append(append([]MapEntry(nil), mo.Entries[:i]...), mo.Entries[i+1:]...)
			s.wobj(p.Obj).Val = &MapObj{Entries: ne, Extra: mo.Extra}
			break
		}
	}
	return nil, true
}

type rangeIter struct {
	entries []MapEntry
	i       int
}

// Range: the callback sees a snapshot of the entries present when Range started (xsync documents that the
// iteration may or may not reflect concurrent modifications); deleting inside the callback is allowed.
func xsyncRange(e *Engine, s *State, f *Frame, fn *ssa.Function, args []Value, retIdx int, advance bool) (Value, bool) {
	p := args[0].(*Pointer)
	if p.IsNil() {
		e.fail(s, "panic", "nil xsync.MapOf")
	}
	var it *rangeIter
	if f.contPhase == 2 && f.contIP == f.ip {
		prev := f.contData.(*rangeIter)
		goOn := e.cond(s, f.scratch.(*Term))
		if !goOn {
			f.contPhase, f.contData, f.scratch = 0, nil, nil
			return nil, true
		}
		it = &rangeIter{entries: prev.entries, i: prev.i + 1}
	} else {
		it = &rangeIter{entries: s.obj(p.Obj).Val.(*MapObj).Entries}
	}
	if it.i >= len(it.entries) {
		f.contPhase, f.contData, f.scratch = 0, nil, nil
		return nil, true
	}
	f.contPhase, f.contIP, f.contData, f.scratch = 2, f.ip, it, nil
	en := it.entries[it.i]
	e.pushCall(s, f, args[1].(*FuncV), []Value{en.K, en.V}, -2, false)
	return tailCall, true
}

func xsyncSize(e *Engine, s *State, f *Frame, fn *ssa.Function, args []Value, retIdx int, advance bool) (Value, bool) {
	mo := s.obj(args[0].(*Pointer).Obj).Val.(*MapObj)
	if mo.Extra != nil {
		return e.c.Add(e.c.BV(uint64(len(mo.Entries)), 64), mo.Extra), true
	}
	return e.c.BV(uint64(len(mo.Entries)), 64), true
}

func stripTypeArgs(s string) string {
	var sb strings.Builder
	d := 0
	for _, r := range s {
		switch r {
		case '[':
			d++
		case ']':
			d--
		default:
			if d == 0 {
				sb.WriteRune(r)
			}
		}
	}
	return sb.String()
}

// errorsIs: identity comparison along the Unwrap chain of *fmt.wrapError; error types with their own
// Is/Unwrap methods compare by identity only (none of the repo's error types define them).
func errorsIs(e *Engine, s *State, f *Frame, fn *ssa.Function, args []Value, retIdx int, advance bool) (Value, bool) {
	cur := args[0].(*IfaceV)
	target := args[1].(*IfaceV)
	for depth := 0; depth < 16; depth++ {
		if cur.T == nil {
			return e.c.Bool(target.T == nil), true
		}
		if target.T != nil && types.Identical(cur.T, target.T) && types.Comparable(cur.T) {
			if e.cond(s, e.valueEq(s, cur, target)) {
				return e.c.True, true
			}
		}
		pt, ok := cur.T.(*types.Pointer)
		if !ok {
			return errorsIsGeneric(e, s, f, cur, target, retIdx, advance)
		}
		nt, ok := pt.Elem().(*types.Named)
		if !ok || nt.Obj().Pkg() == nil || nt.Obj().Pkg().Path() != "fmt" || nt.Obj().Name() != "wrapError" {
			return errorsIsGeneric(e, s, f, cur, target, retIdx, advance)
		}
		inner := e.load(s, cur.V.(*Pointer)).(*StructV).Fields[1].(*IfaceV)
		cur = inner
	}
	return e.c.False, true
}

// errorsIsGeneric: an error type with its own Unwrap / Is method (e.g. a fake *net.OpError-like timeout that unwraps to
// os.ErrDeadlineExceeded): continue with the real errors.is from the standard library (pure Go once the comparability
// of the target — the only reflective step of errors.Is — is supplied).
func errorsIsGeneric(e *Engine, s *State, f *Frame, cur, target *IfaceV, retIdx int, advance bool) (Value, bool) {
	if cur.T == nil {
		return e.c.Bool(target.T == nil), true
	}
	ms := e.prog.MethodSets.MethodSet(cur.T)
	has := false
	for i := 0; i < ms.Len(); i++ {
		if n := ms.At(i).Obj().Name(); n == "Unwrap" || n == "Is" {
			has = true
		}
	}
	if !has {
		return e.c.False, true
	}
	fn := e.findFunc("errors.is")
	if fn == nil {
		e.errf("errors.is not found")
	}
	cmp := e.c.Bool(target.T != nil && types.Comparable(target.T))
	e.pushCall(s, f, &FuncV{Fn: fn}, []Value{cur, target, cmp}, retIdx, advance)
	return tailCall, true
}

// freshObjIntrinsic: the function returns a pointer to a fresh zero value of its result's element type.
func freshObjIntrinsic(e *Engine, s *State, f *Frame, fn *ssa.Function, args []Value, retIdx int, advance bool) (Value, bool) {
	pt := fn.Signature.Results().At(0).Type().Underlying().(*types.Pointer)
	o := e.newObj(s, e.zero(pt.Elem()), pt.Elem(), "model "+fn.String())
	return &Pointer{Obj: o.ID}, true
}

// errorsAs: first error in the chain (direct, then through *fmt.wrapError) whose dynamic type is assignable
// to the target's element type.
func errorsAs(e *Engine, s *State, f *Frame, fn *ssa.Function, args []Value, retIdx int, advance bool) (Value, bool) {
	cur := args[0].(*IfaceV)
	tgt := args[1].(*IfaceV)
	if tgt.T == nil {
		e.fail(s, "panic", "errors.As: target cannot be nil")
	}
	pt, ok := tgt.T.(*types.Pointer)
	if !ok {
		e.fail(s, "panic", "errors.As: target must be a non-nil pointer")
	}
	et := pt.Elem()
	for depth := 0; depth < 16 && cur.T != nil; depth++ {
		if it, isIface := et.Underlying().(*types.Interface); isIface {
			if types.Implements(cur.T, it) {
				e.store(s, tgt.V.(*Pointer), cur)
				return e.c.True, true
			}
		} else if types.Identical(cur.T, et) {
			e.store(s, tgt.V.(*Pointer), cur.V)
			return e.c.True, true
		}
		p, isPtr := cur.T.(*types.Pointer)
		if !isPtr {
			break
		}
		nt, isNamed := p.Elem().(*types.Named)
		if !isNamed || nt.Obj().Pkg() == nil || nt.Obj().Pkg().Path() != "fmt" || nt.Obj().Name() != "wrapError" {
			break
		}
		cur = e.load(s, cur.V.(*Pointer)).(*StructV).Fields[1].(*IfaceV)
	}
	return e.c.False, true
}

// indexSub: first index of needle (concrete length) in haystack, or -1; an ite chain over a bounded length.
func indexSub(e *Engine, s *State, f *Frame, fn *ssa.Function, args []Value, retIdx int, advance bool) (Value, bool) {
	c := e.c
	h, nd := args[0].(*SliceV), args[1].(*SliceV)
	m := e.concretize(s, nd.Len, "needle length")
	n := e.upper(s, h.Len, 1<<16)
	ha, na := e.arrOf(s, h), e.arrOf(s, nd)
	r := c.BV(^uint64(0), 64)
	if m == 0 {
		return c.BV(0, 64), true
	}
	for i := int64(n) - int64(m); i >= 0; i-- {
		it := c.BV(uint64(i), 64)
		hit := c.Ule(c.BV(uint64(i)+m, 64), h.Len)
		for j := uint64(0); j < m; j++ {
			hit = c.And(hit, c.Eq(e.baRead(ha, c.Add(h.Off, c.BV(uint64(i)+j, 64))), e.baRead(na, c.Add(nd.Off, c.BV(j, 64)))))
		}
		r = c.Ite(hit, it, r)
	}
	return r, true
}
