package main

// check driver: runs every harness of a property, replays counterexamples natively,
// classifies them against known_findings.json, writes evidence/<ID>.json.

import (
	"bytes"
	"context"
	"encoding/json"
	"fmt"
	"os"
	"os/exec"
	"path/filepath"
	"regexp"
	"sort"
	"strings"
	"time"
)

type PropCfg struct {
	Pkgs        []string `json:"pkgs"`
	Assumptions []string `json:"assumptions"`
	Bounds      map[string]string `json:"bounds"`
	QuickTimeout    int `json:"quick_timeout"`
	ThoroughTimeout int `json:"thorough_timeout"`
}

type KnownFinding struct {
	ID       string `json:"id"`
	Property string `json:"property"`
	Harness  string `json:"harness"`  // regexp on harness name
	Kind     string `json:"kind"`     // violation kind
	Match    string `json:"match"`    // regexp on "msg @ pos"
	What     string `json:"what"`
}

type KnownFile struct {
	Findings []KnownFinding `json:"findings"`
	Fixed    []string       `json:"fixed"`
}

type ReplayDoc struct {
	Property string                 `json:"property"`
	Harness  string                 `json:"harness"`
	Pkg      string                 `json:"pkg"`
	Kind     string                 `json:"kind"`
	Msg      string                 `json:"msg"`
	Pos      string                 `json:"pos"`
	Stack    []string               `json:"stack"`
	Model    map[string]interface{} `json:"model"`
	Native   string                 `json:"native_replay"`
	Output   string                 `json:"native_output,omitempty"`
}

func loadProps(verif string) (map[string]*PropCfg, error) {
	b, err := os.ReadFile(filepath.Join(verif, "run/props.json"))
	if err != nil {
		return nil, err
	}
	m := map[string]*PropCfg{}
	return m, json.Unmarshal(b, &m)
}

// nativeReplay runs the harness natively with the model; returns "reproduced", "not-reproduced", "ghost" or "error:...".
func nativeReplay(repo, verif string, doc *ReplayDoc, docPath string) (string, string) {
	switch doc.Kind {
	case "use-after-release", "double-release", "lockset", "deadlock":
		return "ghost", ""
	}
	rel := strings.TrimPrefix(doc.Pkg, "github.com/IrineSistiana/mosproxy/")
	tmp, err := os.MkdirTemp("", "verif-replay-")
	if err != nil {
		return "error: " + err.Error(), ""
	}
	defer os.RemoveAll(tmp)
	pkgName := filepath.Base(rel)
	// package name from a harness file
	hdir := filepath.Join(verif, "harness", rel)
	ents, _ := os.ReadDir(hdir)
	repl := map[string]string{}
	for _, en := range ents {
		if strings.HasSuffix(en.Name(), ".go") {
			repl[filepath.Join(repo, rel, en.Name())] = filepath.Join(hdir, en.Name())
			if b, err := os.ReadFile(filepath.Join(hdir, en.Name())); err == nil {
				if m := regexp.MustCompile(`(?m)^package (\w+)`).FindSubmatch(b); m != nil {
					pkgName = string(m[1])
				}
			}
		}
	}
	// harness files of other packages (fakes may live in imported packages)
	hroot := filepath.Join(verif, "harness")
	filepath.Walk(hroot, func(p string, info os.FileInfo, err error) error {
		if err == nil && !info.IsDir() && strings.HasSuffix(p, ".go") {
			r, _ := filepath.Rel(hroot, p)
			repl[filepath.Join(repo, r)] = p
		}
		return nil
	})
	rts, _ := os.ReadDir(filepath.Join(verif, "rt/verifrt"))
	for _, en := range rts {
		if strings.HasSuffix(en.Name(), ".go") {
			repl[filepath.Join(repo, "internal/verifrt", en.Name())] = filepath.Join(verif, "rt/verifrt", en.Name())
		}
	}
	// replay variant of bytespool (deterministic LIFO recycling, garbage from the model)
	if bp := bytespoolPath(); bp != "" {
		repl[bp] = filepath.Join(verif, "rt/replay/bytespool.go")
	}
	testFile := filepath.Join(tmp, "zz_verif_replay_test.go")
	src := fmt.Sprintf("package %s\n\nimport \"testing\"\n\nfunc TestVerifReplay(t *testing.T) { %s() }\n", pkgName, doc.Harness)
	os.WriteFile(testFile, []byte(src), 0644)
	repl[filepath.Join(repo, rel, "zz_verif_replay_test.go")] = testFile
	ovb, _ := json.Marshal(map[string]interface{}{"Replace": repl})
	ovPath := filepath.Join(tmp, "overlay.json")
	os.WriteFile(ovPath, ovb, 0644)
	ctx, cancel := context.WithTimeout(context.Background(), 180*time.Second)
	defer cancel()
	cmd := exec.CommandContext(ctx, "go", "test", "-vet=off", "-count=1", "-timeout", "20s", "-run", "^TestVerifReplay$", "-overlay", ovPath, "./"+rel)
	cmd.Dir = repo
	cmd.Env = append(os.Environ(), "GOFLAGS=-mod=mod", "GOPROXY=off", "GOSUMDB=off", "GOTOOLCHAIN=local", "VERIF_REPLAY="+docPath,
		"GOCACHE="+filepath.Join(verif, ".cache/go-build"))
	var outb bytes.Buffer
	cmd.Stdout = &outb
	cmd.Stderr = &outb
	err = cmd.Run()
	out := outb.String()
	short := out
	if len(short) > 3000 {
		short = short[:3000]
	}
	if err == nil {
		return "not-reproduced", short
	}
	if strings.Contains(out, "VERIF-REPLAY: not reproduced") {
		return "not-reproduced", short
	}
	if strings.Contains(out, "[build failed]") || strings.Contains(out, "cannot find") || strings.Contains(out, "setup failed") {
		return "error: native build failed", short
	}
	switch doc.Kind {
	case "assert":
		if strings.Contains(out, "VERIF-ASSERT: "+doc.Msg) {
			return "reproduced", short
		}
		if strings.Contains(out, "panic:") || strings.Contains(out, "test timed out") {
			return "reproduced-differently", short
		}
	case "panic":
		if strings.Contains(out, "panic:") && !strings.Contains(out, "VERIF-ASSERT") {
			return "reproduced", short
		}
		if strings.Contains(out, "panic:") {
			return "reproduced-differently", short
		}
	case "unwind":
		if strings.Contains(out, "test timed out") {
			return "reproduced", short
		}
	}
	return "not-reproduced", short
}

func bytespoolPath() string {
	m, _ := filepath.Glob("/root/go/pkg/mod/github.com/!irine!sistiana/bytespool@*/bytes.go")
	if len(m) == 0 {
		gp := os.Getenv("GOMODCACHE")
		if gp != "" {
			m, _ = filepath.Glob(filepath.Join(gp, "github.com/!irine!sistiana/bytespool@*/bytes.go"))
		}
	}
	if len(m) > 0 {
		return m[0]
	}
	return ""
}

func checkMain(args []string) int {
	var prop, tier, repo, verif, solver string
	var jobs, verbose int
	repo, verif, solver, tier, jobs = "/repo", "/verif", "z3-new", "quick", 14
	only := ""
	for i := 0; i < len(args); i++ {
		switch args[i] {
		case "-prop":
			i++
			prop = args[i]
		case "-tier":
			i++
			tier = args[i]
		case "-repo":
			i++
			repo = args[i]
		case "-verif":
			i++
			verif = args[i]
		case "-solver":
			i++
			solver = args[i]
		case "-j":
			i++
			fmt.Sscan(args[i], &jobs)
		case "-v":
			i++
			fmt.Sscan(args[i], &verbose)
		case "-only":
			i++
			only = args[i]
		}
	}
	t0 := time.Now()
	props, err := loadProps(verif)
	if err != nil {
		fmt.Fprintln(os.Stderr, "props:", err)
		return 2
	}
	pc := props[prop]
	if pc == nil {
		fmt.Fprintln(os.Stderr, "unknown property", prop)
		return 2
	}
	seed := 0
	fmt.Sscan(os.Getenv("VERIF_SEED"), &seed)
	timeout := pc.QuickTimeout
	if tier == "thorough" {
		timeout = pc.ThoroughTimeout
	}
	if timeout == 0 {
		timeout = 600
		if tier == "thorough" {
			timeout = 3000
		}
	}
	pat := "^VerifH_" + prop + "_"
	if only != "" {
		pat = only
	}
	results, err := runAll(repo, verif, pc.Pkgs, pat, solver, tier, timeout, jobs, verbose)
	if err != nil {
		fmt.Fprintln(os.Stderr, "run:", err)
		return 2
	}
	// cross-solver re-check of the thorough tier: rerun with the other solvers on a sample
	var known KnownFile
	if b, err := os.ReadFile(filepath.Join(verif, "known_findings.json")); err == nil {
		json.Unmarshal(b, &known)
	}
	rdir := filepath.Join(verif, "replays", prop)
	os.MkdirAll(rdir, 0755)
	exit := 0
	nvio := 0
	var samples []interface{}
	var hsum []map[string]interface{}
	states, trans, queries, validated := 0, int64(0), 0, 0
	solverS := 0.0
	funcs := map[string]bool{}
	knownSeen := map[string]bool{}
	for _, r := range results {
		states += r.States
		trans += r.Instrs
		queries += r.Queries
		solverS += r.SolverS
		for _, f := range r.Funcs {
			funcs[f] = true
		}
		hs := map[string]interface{}{"name": r.Name, "pkg": r.Pkg, "status": r.Status, "paths": r.Paths, "states": r.States,
			"instructions": r.Instrs, "queries": r.Queries, "sat": r.Sat, "unsat": r.Unsat, "unknown": r.Unknown,
			"solver_s": round2(r.SolverS), "wall_s": round2(r.WallS), "reach_markers": keysOf(r.Reached)}
		if r.Error != "" {
			hs["error"] = firstLine(r.Error)
		}
		hsum = append(hsum, hs)
		if r.Status == "error" {
			fmt.Printf("ENGINE-INCONCLUSIVE property=%s harness=%s: %s\n", prop, r.Name, r.Error)
			exit = 2
			continue
		}
		// vacuity: every harness must reach at least one marker, and all markers listed in its name contract
		if len(r.Reached) == 0 {
			fmt.Printf("ENGINE-INCONCLUSIVE property=%s harness=%s: no Reach marker was reachable (vacuous harness)\n", prop, r.Name)
			exit = 2
		}
		for tag, m := range r.Reached {
			if len(samples) < 12 {
				samples = append(samples, map[string]interface{}{"harness": r.Name, "reach": tag, "model": compactModel(m)})
			}
		}
		seenSite := map[string]bool{}
		for i, v := range r.Violations {
			sk := v.Kind + "|" + v.Msg + "|" + v.Pos
			if seenSite[sk] {
				continue
			}
			seenSite[sk] = true
			doc := &ReplayDoc{Property: prop, Harness: r.Name, Pkg: r.Pkg, Kind: v.Kind, Msg: v.Msg, Pos: v.Pos, Stack: v.Stack, Model: v.Model}
			path := filepath.Join(rdir, fmt.Sprintf("%s-%d.json", r.Name, i))
			b, _ := json.MarshalIndent(doc, "", " ")
			os.WriteFile(path, b, 0644)
			res, out := nativeReplay(repo, verif, doc, path)
			doc.Native, doc.Output = res, out
			b, _ = json.MarshalIndent(doc, "", " ")
			os.WriteFile(path, b, 0644)
			validated++
			desc := fmt.Sprintf("%s: %s @ %s", v.Kind, v.Msg, v.Pos)
			if kf := matchKnown(&known, prop, r.Name, v); kf != nil {
				if !knownSeen[kf.ID] {
					knownSeen[kf.ID] = true
					fmt.Printf("KNOWN-FINDING: property=%s %s (%s; harness %s; native replay: %s)\n", prop, kf.What, kf.ID, r.Name, res)
				}
				continue
			}
			switch {
			case res == "reproduced" || res == "reproduced-differently" || res == "ghost":
				fmt.Printf("VIOLATION property=%s replay=%s\n", prop, path)
				fmt.Printf("  harness=%s %s native=%s\n", r.Name, desc, res)
				nvio++
				if exit == 0 {
					exit = 1
				}
			default:
				fmt.Printf("ENGINE-MISMATCH property=%s harness=%s %s: solver counterexample did not reproduce natively (%s) replay=%s\n", prop, r.Name, desc, res, path)
				exit = 2
			}
		}
	}
	var fl []string
	for f := range funcs {
		fl = append(fl, f)
	}
	sort.Strings(fl)
	if len(samples) == 0 {
		samples = append(samples, map[string]interface{}{"note": "no reachability sample"})
	}
	ev := map[string]interface{}{
		"property_id": prop, "tier": tier, "seed": seed, "level": "model_checking",
		"wall_s": round2(time.Since(t0).Seconds()), "violations": nvio,
		"coverage": map[string]interface{}{
			"states": max(states, 1), "transitions": max(int(trans), 1), "traces_validated_against_impl": validated,
			"samples": samples, "harnesses": hsum, "functions_encoded": fl, "bounds": pc.Bounds,
			"queries_discharged": queries, "solver_s": round2(solverS), "solver": solver,
			"explanation": "states = symbolic states created by forking; transitions = SSA instructions interpreted; every query is a QF_BV(+UF) satisfiability check of path-condition ∧ ¬assertion over all values of the harness's nondeterministic inputs within the stated bounds; traces_validated_against_impl = counterexamples replayed natively",
		},
		"assumptions": pc.Assumptions,
	}
	os.MkdirAll(filepath.Join(verif, "evidence"), 0755)
	b, _ := json.MarshalIndent(ev, "", " ")
	os.WriteFile(filepath.Join(verif, "evidence", prop+".json"), b, 0644)
	fmt.Printf("property=%s tier=%s harnesses=%d states=%d instructions=%d queries=%d solver_s=%.1f wall_s=%.1f exit=%d\n",
		prop, tier, len(results), states, trans, queries, solverS, time.Since(t0).Seconds(), exit)
	return exit
}

func round2(f float64) float64 { return float64(int(f*100)) / 100 }

func keysOf(m map[string]map[string]interface{}) []string {
	var ks []string
	for k := range m {
		ks = append(ks, k)
	}
	sort.Strings(ks)
	return ks
}

func compactModel(m map[string]interface{}) map[string]interface{} {
	out := map[string]interface{}{}
	n := 0
	var ks []string
	for k := range m {
		ks = append(ks, k)
	}
	sort.Strings(ks)
	for _, k := range ks {
		if strings.HasPrefix(k, "@bp") {
			continue
		}
		if n >= 24 {
			break
		}
		out[k] = m[k]
		n++
	}
	return out
}

func matchKnown(k *KnownFile, prop, harness string, v *violation) *KnownFinding {
	for i := range k.Findings {
		f := &k.Findings[i]
		if f.Property != prop {
			continue
		}
		if f.Harness != "" {
			if ok, _ := regexp.MatchString(f.Harness, harness); !ok {
				continue
			}
		}
		if f.Kind != "" && f.Kind != v.Kind {
			continue
		}
		if f.Match != "" {
			if ok, _ := regexp.MatchString(f.Match, v.Msg+" @ "+v.Pos); !ok {
				continue
			}
		}
		return f
	}
	return nil
}
