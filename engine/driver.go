package main

// check driver: runs every harness of a property, replays counterexamples natively,
// classifies them against known_findings.json, writes evidence/<ID>.json.

import (
	"bytes"
	"context"
	"encoding/json"
	"fmt"
	"os"
	"os/exec"
	"path/filepath"
	"regexp"
	"sort"
	"strings"
	"time"
)

type PropCfg struct {
	Pkgs        []string `json:"pkgs"`
	Assumptions []string `json:"assumptions"`
	Bounds      map[string]string `json:"bounds"`
	QuickTimeout    int `json:"quick_timeout"`
	ThoroughTimeout int `json:"thorough_timeout"`
}

type KnownFinding struct {
	ID       string `json:"id"`
	Property string `json:"property"`
	Harness  string `json:"harness"`  // regexp on harness name
	Kind     string `json:"kind"`     // violation kind
	Match    string `json:"match"`    // regexp on "msg @ pos"
	What     string `json:"what"`
}

type KnownFile struct {
	Findings []KnownFinding `json:"findings"`
	Fixed    []string       `json:"fixed"`
}

type ReplayDoc struct {
	Property string                 `json:"property"`
	Harness  string                 `json:"harness"`
	Pkg      string                 `json:"pkg"`
	Kind     string                 `json:"kind"`
	Msg      string                 `json:"msg"`
	Pos      string                 `json:"pos"`
	Stack    []string               `json:"stack"`
	Model    map[string]interface{} `json:"model"`
	Tier     string                 `json:"tier"`
	Reach    string                 `json:"reach,omitempty"`
	Native   string                 `json:"native_replay"`
	Output   string                 `json:"native_output,omitempty"`
}

func loadProps(verif string) (map[string]*PropCfg, error) {
	b, err := os.ReadFile(filepath.Join(verif, "run/props.json"))
	if err != nil {
		return nil, err
	}
	m := map[string]*PropCfg{}
	return m, json.Unmarshal(b, &m)
}

// nativeReplay runs the harness natively with the model; returns "reproduced", "not-reproduced", "ghost" or "error:...".
func nativeReplay(repo, verif string, doc *ReplayDoc, docPath string) (string, string) {
	switch doc.Kind {
	case "use-after-release", "double-release", "lockset", "deadlock":
		return "ghost", ""
	}
	rel := strings.TrimPrefix(doc.Pkg, "github.com/IrineSistiana/mosproxy/")
	tmp, err := os.MkdirTemp("", "verif-replay-")
	if err != nil {
		return "error: " + err.Error(), ""
	}
	defer os.RemoveAll(tmp)
	pkgName := filepath.Base(rel)
	// package name from a harness file
	hdir := filepath.Join(verif, "harness", rel)
	ents, _ := os.ReadDir(hdir)
	repl := map[string]string{}
	for _, en := range ents {
		if strings.HasSuffix(en.Name(), ".go") {
			repl[filepath.Join(repo, rel, en.Name())] = filepath.Join(hdir, en.Name())
			if b, err := os.ReadFile(filepath.Join(hdir, en.Name())); err == nil {
				if m := regexp.MustCompile(`(?m)^package (\w+)`).FindSubmatch(b); m != nil {
					pkgName = string(m[1])
				}
			}
		}
	}
	// harness files of other packages (fakes may live in imported packages)
	hroot := filepath.Join(verif, "harness")
	filepath.Walk(hroot, func(p string, info os.FileInfo, err error) error {
		if err == nil && !info.IsDir() && strings.HasSuffix(p, ".go") {
			r, _ := filepath.Rel(hroot, p)
			repl[filepath.Join(repo, r)] = p
		}
		return nil
	})
	rts, _ := os.ReadDir(filepath.Join(verif, "rt/verifrt"))
	for _, en := range rts {
		if strings.HasSuffix(en.Name(), ".go") {
			repl[filepath.Join(repo, "internal/verifrt", en.Name())] = filepath.Join(verif, "rt/verifrt", en.Name())
		}
	}
	// replay variant of bytespool (deterministic LIFO recycling, garbage from the model)
	if bp := bytespoolPath(); bp != "" {
		repl[bp] = filepath.Join(verif, "rt/replay/bytespool.go")
	}
	testFile := filepath.Join(tmp, "zz_verif_replay_test.go")
	src := fmt.Sprintf("package %s\n\nimport \"testing\"\n\nfunc TestVerifReplay(t *testing.T) { %s() }\n", pkgName, doc.Harness)
	os.WriteFile(testFile, []byte(src), 0644)
	repl[filepath.Join(repo, rel, "zz_verif_replay_test.go")] = testFile
	ovb, _ := json.Marshal(map[string]interface{}{"Replace": repl})
	ovPath := filepath.Join(tmp, "overlay.json")
	os.WriteFile(ovPath, ovb, 0644)
	ctx, cancel := context.WithTimeout(context.Background(), 180*time.Second)
	defer cancel()
	cmd := exec.CommandContext(ctx, "go", "test", "-tags", "verifreplay", "-vet=off", "-count=1", "-timeout", "20s", "-run", "^TestVerifReplay$", "-overlay", ovPath, "./"+rel)
	cmd.Dir = repo
	cmd.Env = append(os.Environ(), "GOFLAGS=-mod=mod", "GOPROXY=off", "GOSUMDB=off", "GOTOOLCHAIN=local", "VERIF_REPLAY="+docPath,
		"GOCACHE="+filepath.Join(verif, ".cache/go-build"))
	var outb bytes.Buffer
	cmd.Stdout = &outb
	cmd.Stderr = &outb
	err = cmd.Run()
	out := outb.String()
	short := out
	if len(short) > 3000 {
		short = short[:3000]
	}
	if err == nil {
		return "not-reproduced", short
	}
	if strings.Contains(out, "VERIF-REPLAY: not reproduced") {
		return "not-reproduced", short
	}
	if strings.Contains(out, "[build failed]") || strings.Contains(out, "cannot find") || strings.Contains(out, "setup failed") {
		return "error: native build failed", short
	}
	switch doc.Kind {
	case "assert":
		if strings.Contains(out, "VERIF-ASSERT: "+doc.Msg) {
			return "reproduced", short
		}
		if strings.Contains(out, "panic:") || strings.Contains(out, "test timed out") {
			return "reproduced-differently", short
		}
	case "panic":
		if strings.Contains(out, "panic:") && !strings.Contains(out, "VERIF-ASSERT") {
			return "reproduced", short
		}
		if strings.Contains(out, "panic:") {
			return "reproduced-differently", short
		}
	case "unwind":
		if strings.Contains(out, "test timed out") {
			return "reproduced", short
		}
	}
	return "not-reproduced", short
}

type sampleItem struct {
	Harness string
	Path    string
	Reach   string
}

// nativeSamples runs, in one go test process per package, every reachability sample of that package's
// harnesses natively: the run must not panic or fail an assertion and must print the sample's Reach tag.
// Returns the number of samples that agreed and descriptions of the ones that did not.
func nativeSamples(repo, verif, pkg string, items []sampleItem) (int, []string) {
	rel := strings.TrimPrefix(pkg, "github.com/IrineSistiana/mosproxy/")
	tmp, err := os.MkdirTemp("", "verif-samples-")
	if err != nil {
		return 0, []string{err.Error()}
	}
	defer os.RemoveAll(tmp)
	pkgName := filepath.Base(rel)
	repl := map[string]string{}
	hroot := filepath.Join(verif, "harness")
	filepath.Walk(hroot, func(p string, info os.FileInfo, err error) error {
		if err == nil && !info.IsDir() && strings.HasSuffix(p, ".go") {
			r, _ := filepath.Rel(hroot, p)
			repl[filepath.Join(repo, r)] = p
			if filepath.Dir(r) == rel {
				if b, err := os.ReadFile(p); err == nil {
					if m := regexp.MustCompile(`(?m)^package (\w+)`).FindSubmatch(b); m != nil {
						pkgName = string(m[1])
					}
				}
			}
		}
		return nil
	})
	rts, _ := os.ReadDir(filepath.Join(verif, "rt/verifrt"))
	for _, en := range rts {
		if strings.HasSuffix(en.Name(), ".go") {
			repl[filepath.Join(repo, "internal/verifrt", en.Name())] = filepath.Join(verif, "rt/verifrt", en.Name())
		}
	}
	if bp := bytespoolPath(); bp != "" {
		repl[bp] = filepath.Join(verif, "rt/replay/bytespool.go")
	}
	hs := map[string]bool{}
	for _, it := range items {
		hs[it.Harness] = true
	}
	var sb strings.Builder
	fmt.Fprintf(&sb, "package %s\n\nimport (\n\t\"fmt\"\n\t\"os\"\n\t\"strings\"\n\t\"testing\"\n\n\t\"github.com/IrineSistiana/mosproxy/internal/verifrt\"\n)\n\n", pkgName)
	sb.WriteString("func TestVerifSamples(t *testing.T) {\n\ths := map[string]func(){\n")
	for h := range hs {
		fmt.Fprintf(&sb, "\t\t%q: %s,\n", h, h)
	}
	sb.WriteString("\t}\n\tfor _, it := range strings.Split(os.Getenv(\"VERIF_SAMPLES\"), \",\") {\n\t\tp := strings.SplitN(it, \"|\", 2)\n\t\tif len(p) != 2 {\n\t\t\tcontinue\n\t\t}\n")
	sb.WriteString("\t\tfmt.Println(\"VERIF-SAMPLE-BEGIN\", p[1])\n\t\tverifrt.LoadReplay(p[1])\n\t\tfunc() {\n\t\t\tdefer func() {\n\t\t\t\tif r := recover(); r != nil {\n\t\t\t\t\tif _, ok := r.(verifrt.SampleDone); !ok {\n\t\t\t\t\t\tpanic(r)\n\t\t\t\t\t}\n\t\t\t\t}\n\t\t\t}()\n\t\t\ths[p[0]]()\n\t\t}()\n\t\tfmt.Println(\"VERIF-SAMPLE-OK\", p[1])\n\t}\n}\n")
	testFile := filepath.Join(tmp, "zz_verif_samples_test.go")
	os.WriteFile(testFile, []byte(sb.String()), 0644)
	repl[filepath.Join(repo, rel, "zz_verif_samples_test.go")] = testFile
	ovb, _ := json.Marshal(map[string]interface{}{"Replace": repl})
	ovPath := filepath.Join(tmp, "overlay.json")
	os.WriteFile(ovPath, ovb, 0644)
	agreed := 0
	var bad []string
	remaining := items
	for round := 0; round < 4 && len(remaining) > 0; round++ {
		var env []string
		for _, it := range remaining {
			env = append(env, it.Harness+"|"+it.Path)
		}
		ctx, cancel := context.WithTimeout(context.Background(), 300*time.Second)
		cmd := exec.CommandContext(ctx, "go", "test", "-tags", "verifreplay", "-vet=off", "-count=1", "-timeout", "120s", "-run", "^TestVerifSamples$", "-v", "-overlay", ovPath, "./"+rel)
		cmd.Dir = repo
		cmd.Env = append(os.Environ(), "GOFLAGS=-mod=mod", "GOPROXY=off", "GOSUMDB=off", "GOTOOLCHAIN=local", "VERIF_SAMPLES="+strings.Join(env, ","),
			"GOCACHE="+filepath.Join(verif, ".cache/go-build"))
		var outb bytes.Buffer
		cmd.Stdout = &outb
		cmd.Stderr = &outb
		cmd.Run()
		cancel()
		out := outb.String()
		if strings.Contains(out, "[build failed]") || strings.Contains(out, "setup failed") {
			return agreed, append(bad, "native build failed: "+firstN(out, 600))
		}
		// split the output per sample
		var next []sampleItem
		failedOne := false
		for i, it := range remaining {
			bi := strings.Index(out, "VERIF-SAMPLE-BEGIN "+it.Path)
			if bi < 0 {
				if failedOne {
					next = append(next, remaining[i:]...)
				} else {
					bad = append(bad, it.Harness+": sample not run")
				}
				break
			}
			seg := out[bi:]
			if ei := strings.Index(seg[1:], "VERIF-SAMPLE-BEGIN "); ei >= 0 {
				seg = seg[:ei+1]
			}
			if strings.Contains(seg, "VERIF-SAMPLE-OK "+it.Path) {
				if it.Reach == "" || strings.Contains(seg, "VERIF-REACH: "+it.Reach) {
					agreed++
				} else {
					bad = append(bad, fmt.Sprintf("%s: native run of the sample for Reach(%q) did not reach it", it.Harness, it.Reach))
				}
				continue
			}
			// this sample crashed natively: a path the engine deemed clean fails in reality
			bad = append(bad, fmt.Sprintf("%s: native run of the sample for Reach(%q) failed: %s", it.Harness, it.Reach, firstN(seg, 400)))
			failedOne = true
			next = append(next, remaining[i+1:]...)
			break
		}
		remaining = next
	}
	return agreed, bad
}

func firstN(s string, n int) string {
	if len(s) > n {
		return s[:n]
	}
	return s
}

func bytespoolPath() string {
	m, _ := filepath.Glob("/root/go/pkg/mod/github.com/!irine!sistiana/bytespool@*/bytes.go")
	if len(m) == 0 {
		gp := os.Getenv("GOMODCACHE")
		if gp != "" {
			m, _ = filepath.Glob(filepath.Join(gp, "github.com/!irine!sistiana/bytespool@*/bytes.go"))
		}
	}
	if len(m) > 0 {
		return m[0]
	}
	return ""
}

func checkMain(args []string) int {
	var prop, tier, repo, verif, solver string
	var jobs, verbose int
	repo, verif, solver, tier, jobs = "/repo", "/verif", "z3-new", "quick", 14
	only := ""
	for i := 0; i < len(args); i++ {
		switch args[i] {
		case "-prop":
			i++
			prop = args[i]
		case "-tier":
			i++
			tier = args[i]
		case "-repo":
			i++
			repo = args[i]
		case "-verif":
			i++
			verif = args[i]
		case "-solver":
			i++
			solver = args[i]
		case "-j":
			i++
			fmt.Sscan(args[i], &jobs)
		case "-v":
			i++
			fmt.Sscan(args[i], &verbose)
		case "-only":
			i++
			only = args[i]
		}
	}
	t0 := time.Now()
	props, err := loadProps(verif)
	if err != nil {
		fmt.Fprintln(os.Stderr, "props:", err)
		return 2
	}
	pc := props[prop]
	if pc == nil {
		fmt.Fprintln(os.Stderr, "unknown property", prop)
		return 2
	}
	seed := 0
	fmt.Sscan(os.Getenv("VERIF_SEED"), &seed)
	timeout := pc.QuickTimeout
	if tier == "thorough" {
		timeout = pc.ThoroughTimeout
	}
	if timeout == 0 {
		timeout = 600
		if tier == "thorough" {
			timeout = 3000
		}
	}
	pat := "^VerifH_" + prop + "_"
	if only != "" {
		pat = only
	}
	results, err := runAll(repo, verif, pc.Pkgs, pat, solver, tier, timeout, jobs, verbose)
	if err != nil {
		fmt.Fprintln(os.Stderr, "run:", err)
		return 2
	}
	// cross-solver re-check of the thorough tier: rerun with the other solvers on a sample
	var known KnownFile
	if b, err := os.ReadFile(filepath.Join(verif, "known_findings.json")); err == nil {
		json.Unmarshal(b, &known)
	}
	rdir := filepath.Join(verif, "replays", prop)
	os.MkdirAll(rdir, 0755)
	exit := 0
	nvio := 0
	var samples []interface{}
	var hsum []map[string]interface{}
	states, trans, queries, validated := 0, int64(0), 0, 0
	xchecked := 0
	solverS := 0.0
	funcs := map[string]bool{}
	knownSeen := map[string]bool{}
	sampleItems := map[string][]sampleItem{}
	for _, r := range results {
		states += r.States
		trans += r.Instrs
		queries += r.Queries
		solverS += r.SolverS
		for _, f := range r.Funcs {
			funcs[f] = true
		}
		hs := map[string]interface{}{"name": r.Name, "pkg": r.Pkg, "status": r.Status, "paths": r.Paths, "states": r.States,
			"instructions": r.Instrs, "queries": r.Queries, "sat": r.Sat, "unsat": r.Unsat, "unknown": r.Unknown,
			"solver_s": round2(r.SolverS), "wall_s": round2(r.WallS), "reach_markers": keysOf(r.Reached),
			"solver": r.Solver, "cross_checked_queries": r.XChecked, "cross_solver": r.XSecond}
		xchecked += r.XChecked
		if r.Error != "" {
			hs["error"] = firstLine(r.Error)
		}
		hsum = append(hsum, hs)
		if r.Status == "error" {
			fmt.Printf("ENGINE-INCONCLUSIVE property=%s harness=%s: %s\n", prop, r.Name, r.Error)
			exit = 2
			if len(r.Violations) == 0 {
				continue
			}
			// counterexamples found before the exploration broke off are still concrete, replayable violations
		}
		// vacuity: every harness must reach at least one marker, and all markers listed in its name contract
		for _, x := range r.Expected {
			if _, ok := r.Reached[x]; !ok && r.Status == "ok" {
				fmt.Printf("ENGINE-INCONCLUSIVE property=%s harness=%s: the marker %q the harness declares as its subject was not reachable (partly vacuous harness)\n", prop, r.Name, x)
				exit = 2
			}
		}
		if len(r.Reached) == 0 && r.Status == "ok" {
			fmt.Printf("ENGINE-INCONCLUSIVE property=%s harness=%s: no Reach marker was reachable (vacuous harness)\n", prop, r.Name)
			exit = 2
		}
		ns := 0
		for _, tag := range keysOf(r.Reached) {
			m := r.Reached[tag]
			if len(samples) < 12 {
				samples = append(samples, map[string]interface{}{"harness": r.Name, "reach": tag, "model": compactModel(m)})
			}
			if !r.ModelOnly && ns < 3 && r.Status != "error" {
				ns++
				sdoc := &ReplayDoc{Property: prop, Harness: r.Name, Pkg: r.Pkg, Kind: "sample", Reach: tag, Model: m, Tier: tier}
				sp := filepath.Join(rdir, fmt.Sprintf("sample-%s-%s.json", r.Name, sanitize(tag)))
				b, _ := json.MarshalIndent(sdoc, "", " ")
				os.WriteFile(sp, b, 0644)
				sampleItems[r.Pkg] = append(sampleItems[r.Pkg], sampleItem{r.Name, sp, tag})
			}
		}
		seenSite := map[string]bool{}
		for i, v := range r.Violations {
			sk := v.Kind + "|" + v.Msg + "|" + v.Pos
			if seenSite[sk] {
				continue
			}
			seenSite[sk] = true
			doc := &ReplayDoc{Property: prop, Harness: r.Name, Pkg: r.Pkg, Kind: v.Kind, Msg: v.Msg, Pos: v.Pos, Stack: v.Stack, Model: v.Model, Tier: tier}
			path := filepath.Join(rdir, fmt.Sprintf("%s-%d.json", r.Name, i))
			b, _ := json.MarshalIndent(doc, "", " ")
			os.WriteFile(path, b, 0644)
			var res, out string
			if r.ModelOnly {
				res = "model-level"
			} else {
				res, out = nativeReplay(repo, verif, doc, path)
			}
			doc.Native, doc.Output = res, out
			b, _ = json.MarshalIndent(doc, "", " ")
			os.WriteFile(path, b, 0644)
			validated++
			desc := fmt.Sprintf("%s: %s @ %s", v.Kind, v.Msg, v.Pos)
			if kf := matchKnown(&known, prop, r.Name, v); kf != nil {
				if !knownSeen[kf.ID] {
					knownSeen[kf.ID] = true
					fmt.Printf("KNOWN-FINDING: property=%s %s (%s; harness %s; native replay: %s)\n", prop, kf.What, kf.ID, r.Name, res)
				}
				continue
			}
			switch {
			case res == "reproduced" || res == "reproduced-differently" || res == "ghost" || res == "model-level":
				fmt.Printf("VIOLATION property=%s replay=%s\n", prop, path)
				fmt.Printf("  harness=%s %s native=%s\n", r.Name, desc, res)
				nvio++
				if exit == 0 {
					exit = 1
				}
			default:
				fmt.Printf("ENGINE-MISMATCH property=%s harness=%s %s: solver counterexample did not reproduce natively (%s) replay=%s\n", prop, r.Name, desc, res, path)
				exit = 2
			}
		}
	}
	// translator validation: replay the reachability samples natively (same harness, same inputs)
	if os.Getenv("VERIF_NO_SAMPLES") == "" {
		var pk []string
		for p := range sampleItems {
			pk = append(pk, p)
		}
		sort.Strings(pk)
		for _, p := range pk {
			ok, bad := nativeSamples(repo, verif, p, sampleItems[p])
			validated += ok
			for _, b := range bad {
				fmt.Printf("ENGINE-MISMATCH property=%s %s\n", prop, b)
				exit = 2
			}
		}
	}
	if nvio > 0 {
		exit = 1 // a replayed counterexample is definite even if another harness (or the rest of this one) was inconclusive
	}
	var fl []string
	for f := range funcs {
		fl = append(fl, f)
	}
	sort.Strings(fl)
	if len(samples) == 0 {
		samples = append(samples, map[string]interface{}{"note": "no reachability sample"})
	}
	ev := map[string]interface{}{
		"property_id": prop, "tier": tier, "seed": seed, "level": "model_checking",
		"wall_s": round2(time.Since(t0).Seconds()), "violations": nvio,
		"coverage": map[string]interface{}{
			"states": max(states, 1), "transitions": max(int(trans), 1), "traces_validated_against_impl": validated,
			"samples": samples, "harnesses": hsum, "functions_encoded": fl, "bounds": pc.Bounds,
			"queries_discharged": queries, "solver_s": round2(solverS), "solver": solver,
			"queries_cross_checked_by_second_solver": xchecked,
			"explanation": "states = symbolic states created by forking; transitions = SSA instructions interpreted; every query is a QF_BV(+UF) satisfiability check of path-condition ∧ ¬assertion over all values of the harness's nondeterministic inputs within the stated bounds; traces_validated_against_impl = counterexamples replayed natively",
		},
		"assumptions": pc.Assumptions,
	}
	os.MkdirAll(filepath.Join(verif, "evidence"), 0755)
	b, _ := json.MarshalIndent(ev, "", " ")
	os.WriteFile(filepath.Join(verif, "evidence", prop+".json"), b, 0644)
	fmt.Printf("property=%s tier=%s harnesses=%d states=%d instructions=%d queries=%d solver_s=%.1f wall_s=%.1f exit=%d\n",
		prop, tier, len(results), states, trans, queries, solverS, time.Since(t0).Seconds(), exit)
	return exit
}

func sanitize(s string) string {
	return regexp.MustCompile(`[^A-Za-z0-9_.-]`).ReplaceAllString(s, "_")
}

func round2(f float64) float64 { return float64(int(f*100)) / 100 }

func keysOf(m map[string]map[string]interface{}) []string {
	var ks []string
	for k := range m {
		ks = append(ks, k)
	}
	sort.Strings(ks)
	return ks
}

func compactModel(m map[string]interface{}) map[string]interface{} {
	out := map[string]interface{}{}
	n := 0
	var ks []string
	for k := range m {
		ks = append(ks, k)
	}
	sort.Strings(ks)
	for _, k := range ks {
		if strings.HasPrefix(k, "@bp") {
			continue
		}
		if n >= 24 {
			break
		}
		out[k] = m[k]
		n++
	}
	return out
}

func matchKnown(k *KnownFile, prop, harness string, v *violation) *KnownFinding {
	for i := range k.Findings {
		f := &k.Findings[i]
		if f.Property != prop {
			continue
		}
		if f.Harness != "" {
			if ok, _ := regexp.MatchString(f.Harness, harness); !ok {
				continue
			}
		}
		if f.Kind != "" && f.Kind != v.Kind {
			continue
		}
		if f.Match != "" {
			if ok, _ := regexp.MatchString(f.Match, v.Msg+" @ "+v.Pos); !ok {
				continue
			}
		}
		return f
	}
	return nil
}
