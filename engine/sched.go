package main

// Goroutines, channels, mutexes, timers: a sync-point scheduler (DESIGN §2.5 mechanism B).
// A goroutine runs until it blocks, finishes, or reaches a synchronisation operation at which a
// (budgeted) voluntary switch is explored. Every choice of the next goroutine forks the path.
// The path ends when the main goroutine (0) returns; if the main goroutine is blocked and nothing
// can run, that is reported as a deadlock (this is how "never hangs" becomes a safety assertion).

import (
	"fmt"
	"go/types"

	"golang.org/x/tools/go/ssa"
)

type waitDesc struct {
	kind string // recv send select lock wg timer
	objs []int
	send []bool
	key  string
}

func addSyncIntrinsics() {
	for _, n := range []string{"(*sync.Mutex).Lock", "(*sync.RWMutex).Lock"} {
		intrinsics[n] = mutexLock
	}
	for _, n := range []string{"(*sync.Mutex).Unlock", "(*sync.RWMutex).Unlock"} {
		intrinsics[n] = mutexUnlock
	}
	// read locks: shared; modelled as a counter that excludes writers
	intrinsics["(*sync.RWMutex).RLock"] = func(e *Engine, s *State, f *Frame, fn *ssa.Function, args []Value, retIdx int, advance bool) (Value, bool) {
		k := "lock:" + ptrKey(args[0].(*Pointer))
		if s.ghost[k] > 0 {
			e.block(s, &waitDesc{kind: "lock", key: k})
			return tailCall, true
		}
		e.preemptPoint(s)
		s.ghost[k]-- // negative = number of readers
		return nil, true
	}
	intrinsics["(*sync.RWMutex).RUnlock"] = func(e *Engine, s *State, f *Frame, fn *ssa.Function, args []Value, retIdx int, advance bool) (Value, bool) {
		k := "lock:" + ptrKey(args[0].(*Pointer))
		if s.ghost[k] >= 0 {
			e.fail(s, "panic", "sync: RUnlock of unlocked RWMutex")
		}
		s.ghost[k]++
		e.postEffectPoint(s)
		return nil, true
	}
	intrinsics["(*sync.RWMutex).TryRLock"] = func(e *Engine, s *State, f *Frame, fn *ssa.Function, args []Value, retIdx int, advance bool) (Value, bool) {
		k := "lock:" + ptrKey(args[0].(*Pointer))
		if s.ghost[k] > 0 {
			return e.c.False, true
		}
		s.ghost[k]--
		return e.c.True, true
	}
	intrinsics["(*sync.Mutex).TryLock"] = func(e *Engine, s *State, f *Frame, fn *ssa.Function, args []Value, retIdx int, advance bool) (Value, bool) {
		k := "lock:" + ptrKey(args[0].(*Pointer))
		if s.ghost[k] != 0 {
			return e.c.False, true
		}
		s.ghost[k] = s.g().id + 1
		return e.c.True, true
	}
	intrinsics["(*sync.Once).Do"] = func(e *Engine, s *State, f *Frame, fn *ssa.Function, args []Value, retIdx int, advance bool) (Value, bool) {
		k := "once:" + ptrKey(args[0].(*Pointer))
		if s.ghost[k] != 0 {
			return nil, true
		}
		s.ghost[k] = 1
		fv := args[1].(*FuncV)
		e.pushCall(s, f, fv, nil, -1, advance)
		return tailCall, true
	}
	intrinsics["(*sync.WaitGroup).Add"] = func(e *Engine, s *State, f *Frame, fn *ssa.Function, args []Value, retIdx int, advance bool) (Value, bool) {
		k := "wg:" + ptrKey(args[0].(*Pointer))
		s.ghost[k] += argInt(e, args[1])
		return nil, true
	}
	intrinsics["(*sync.WaitGroup).Done"] = func(e *Engine, s *State, f *Frame, fn *ssa.Function, args []Value, retIdx int, advance bool) (Value, bool) {
		k := "wg:" + ptrKey(args[0].(*Pointer))
		s.ghost[k]--
		return nil, true
	}
	intrinsics["(*sync.WaitGroup).Wait"] = func(e *Engine, s *State, f *Frame, fn *ssa.Function, args []Value, retIdx int, advance bool) (Value, bool) {
		k := "wg:" + ptrKey(args[0].(*Pointer))
		if s.ghost[k] > 0 {
			e.block(s, &waitDesc{kind: "wg", key: k})
			return tailCall, true
		}
		return nil, true
	}
	// sync/atomic primitives on plain words
	for _, w := range []string{"Int32", "Int64", "Uint32", "Uint64", "Uintptr", "Pointer"} {
		// (every atomic operation is a synchronisation point: under PreemptSync another goroutine may run before it)
		intrinsics["sync/atomic.Load"+w] = func(e *Engine, s *State, f *Frame, fn *ssa.Function, args []Value, retIdx int, advance bool) (Value, bool) {
			e.preemptPoint(s)
			return e.load(s, args[0].(*Pointer)), true
		}
		intrinsics["sync/atomic.Store"+w] = func(e *Engine, s *State, f *Frame, fn *ssa.Function, args []Value, retIdx int, advance bool) (Value, bool) {
			e.preemptPoint(s)
			e.store(s, args[0].(*Pointer), args[1])
			return nil, true
		}
		intrinsics["sync/atomic.Swap"+w] = func(e *Engine, s *State, f *Frame, fn *ssa.Function, args []Value, retIdx int, advance bool) (Value, bool) {
			e.preemptPoint(s)
			old := e.load(s, args[0].(*Pointer))
			e.store(s, args[0].(*Pointer), args[1])
			return old, true
		}
		intrinsics["sync/atomic.Add"+w] = func(e *Engine, s *State, f *Frame, fn *ssa.Function, args []Value, retIdx int, advance bool) (Value, bool) {
			e.preemptPoint(s)
			old := e.load(s, args[0].(*Pointer)).(*Term)
			nv := e.c.Add(old, args[1].(*Term))
			e.store(s, args[0].(*Pointer), nv)
			return nv, true
		}
		intrinsics["sync/atomic.CompareAndSwap"+w] = func(e *Engine, s *State, f *Frame, fn *ssa.Function, args []Value, retIdx int, advance bool) (Value, bool) {
			e.preemptPoint(s)
			old := e.load(s, args[0].(*Pointer))
			if e.cond(s, e.valueEq(s, old, args[1])) {
				e.store(s, args[0].(*Pointer), args[2])
				return e.c.True, true
			}
			return e.c.False, true
		}
	}
	// timers
	intrinsics["time.AfterFunc"] = func(e *Engine, s *State, f *Frame, fn *ssa.Function, args []Value, retIdx int, advance bool) (Value, bool) {
		fv := args[1].(*FuncV)
		tp := e.newTimer(s, fv)
		return tp, true
	}
	intrinsics["(*time.Timer).Stop"] = func(e *Engine, s *State, f *Frame, fn *ssa.Function, args []Value, retIdx int, advance bool) (Value, bool) {
		p := args[0].(*Pointer)
		if p.IsNil() {
			e.fail(s, "panic", "Stop on nil Timer")
		}
		k := fmt.Sprintf("timer:%d", p.Obj)
		gid := s.ghost[k] - 1
		if gid >= 0 && gid < len(s.gs) && s.gs[gid].timerPending {
			s.gs[gid].timerPending = false
			s.gs[gid].done = true
			return e.c.True, true
		}
		return e.c.False, true
	}
	intrinsics["(*time.Timer).Reset"] = func(e *Engine, s *State, f *Frame, fn *ssa.Function, args []Value, retIdx int, advance bool) (Value, bool) {
		p := args[0].(*Pointer)
		k := fmt.Sprintf("timer:%d", p.Obj)
		gid := s.ghost[k] - 1
		active := false
		if gid >= 0 && gid < len(s.gs) && s.gs[gid].timerPending {
			active = true
			s.gs[gid].timerPending = false
			s.gs[gid].done = true
		}
		// re-arm with the same callback
		fv, _ := s.obj(p.Obj).Val.(*FuncV)
		if fv != nil {
			e.armTimer(s, p.Obj, fv)
		}
		return e.c.Bool(active), true
	}
	intrinsics[rtPkg+"TimerPending"] = func(e *Engine, s *State, f *Frame, fn *ssa.Function, args []Value, retIdx int, advance bool) (Value, bool) {
		e.usedModels = true
		var p *Pointer
		if iv, ok := args[0].(*IfaceV); ok {
			if iv.T == nil {
				return e.c.False, true
			}
			p = iv.V.(*Pointer)
		} else {
			p = args[0].(*Pointer)
		}
		if p.IsNil() {
			return e.c.False, true
		}
		gid := s.ghost[fmt.Sprintf("timer:%d", p.Obj)] - 1
		return e.c.Bool(gid >= 0 && gid < len(s.gs) && s.gs[gid].timerPending), true
	}
	intrinsics[rtPkg+"Quiesce"] = func(e *Engine, s *State, f *Frame, fn *ssa.Function, args []Value, retIdx int, advance bool) (Value, bool) {
		g := s.g()
		for _, o := range s.gs {
			if o != g && !o.timerPending && e.enabled(s, o) {
				e.block(s, &waitDesc{kind: "quiesce"})
				return tailCall, true
			}
		}
		return nil, true
	}
	intrinsics[rtPkg+"Yield"] = func(e *Engine, s *State, f *Frame, fn *ssa.Function, args []Value, retIdx int, advance bool) (Value, bool) {
		e.voluntary(s)
		return nil, true
	}
	intrinsics[rtPkg+"SchedBound"] = func(e *Engine, s *State, f *Frame, fn *ssa.Function, args []Value, retIdx int, advance bool) (Value, bool) {
		s.switchesLeft = argInt(e, args[0])
		return nil, true
	}
	intrinsics[rtPkg+"Goroutines"] = func(e *Engine, s *State, f *Frame, fn *ssa.Function, args []Value, retIdx int, advance bool) (Value, bool) {
		n := 0
		for _, g := range s.gs {
			if !g.done && len(g.frames) > 0 && !g.timerPending {
				n++
			}
		}
		return e.c.BV(uint64(n), 64), true
	}
}

func mutexLock(e *Engine, s *State, f *Frame, fn *ssa.Function, args []Value, retIdx int, advance bool) (Value, bool) {
	p := args[0].(*Pointer)
	if p.IsNil() {
		e.fail(s, "panic", "nil mutex")
	}
	k := "lock:" + ptrKey(p)
	if h := s.ghost[k]; h != 0 {
		if h == s.g().id+1 {
			e.fail(s, "deadlock", "mutex locked twice by the same goroutine")
		}
		e.block(s, &waitDesc{kind: "lock", key: k})
		return tailCall, true
	}
	e.preemptPoint(s)
	s.ghost[k] = s.g().id + 1
	return nil, true
}

func mutexUnlock(e *Engine, s *State, f *Frame, fn *ssa.Function, args []Value, retIdx int, advance bool) (Value, bool) {
	p := args[0].(*Pointer)
	k := "lock:" + ptrKey(p)
	if s.ghost[k] <= 0 {
		e.fail(s, "panic", "sync: unlock of unlocked mutex")
	}
	s.ghost[k] = 0
	e.postEffectPoint(s)
	return nil, true
}

// ---------------------------------------------------------------- scheduling

func (e *Engine) enabled(s *State, g *Goroutine) bool {
	if g.done || len(g.frames) == 0 {
		return false
	}
	w := g.wait
	if w == nil {
		return true
	}
	switch w.kind {
	case "recv":
		co := s.obj(w.objs[0]).Val.(*ChanObj)
		return len(co.Buf) > 0 || co.Closed
	case "send":
		return e.sendReady(s, w.objs[0], g)
	case "select":
		for i, o := range w.objs {
			if o == 0 {
				continue
			}
			co := s.obj(o).Val.(*ChanObj)
			if w.send[i] {
				if e.sendReady(s, o, g) {
					return true
				}
			} else if len(co.Buf) > 0 || co.Closed {
				return true
			}
		}
		return false
	case "lock":
		return s.ghost[w.key] == 0
	case "rlock":
		return s.ghost[w.key] <= 0
	case "wg":
		return s.ghost[w.key] <= 0
	case "never":
		return false
	case "quiesce":
		for _, o := range s.gs {
			if o != g && !o.timerPending && (o.wait == nil || o.wait.kind != "quiesce") && e.enabled(s, o) {
				return false
			}
		}
		return true
	}
	return true
}

// sendReady: buffered: space available (or closed -> panics when executed); unbuffered: a receiver is waiting.
func (e *Engine) sendReady(s *State, obj int, self *Goroutine) bool {
	co := s.obj(obj).Val.(*ChanObj)
	if co.Closed {
		return true
	}
	if co.Cap > 0 {
		return len(co.Buf) < co.Cap
	}
	if len(co.Buf) > 0 {
		return false
	}
	for _, g := range s.gs {
		if g == self || g.done || g.wait == nil {
			continue
		}
		switch g.wait.kind {
		case "recv":
			if g.wait.objs[0] == obj {
				return true
			}
		case "select":
			for i, o := range g.wait.objs {
				if o == obj && !g.wait.send[i] {
					return true
				}
			}
		}
	}
	return false
}

// block: the current goroutine cannot proceed at its current instruction; switch to another one.
// The instruction is re-executed when the goroutine is scheduled again.
func (e *Engine) block(s *State, w *waitDesc) {
	e.usedModels = true
	g := s.g()
	g.wait = w
	if !e.schedule(s, true) {
		panic(pathEnd{"blocked"})
	}
}

// schedule picks the next goroutine. mustSwitch: the current one cannot continue.
// Returns false if the path ends (main finished, or nothing can run).
func (e *Engine) schedule(s *State, mustSwitch bool) bool {
	if s.gs[0].done || len(s.gs[0].frames) == 0 {
		return false
	}
	// candidates in round-robin order starting after the current goroutine (delay-bounded scheduling:
	// the first candidate is the default; every other choice costs one unit of the switch budget)
	var cands []int
	n := len(s.gs)
	for d := 1; d <= n; d++ {
		i := (s.cur + d) % n
		g := s.gs[i]
		if i == s.cur && mustSwitch {
			continue
		}
		if g.timerPending && s.noTimers {
			continue
		}
		if e.enabled(s, g) {
			cands = append(cands, i)
		}
	}
	if len(cands) == 0 {
		// nothing can run. The main goroutine is blocked forever (or waits for the environment).
		mg := s.gs[0]
		why := "?"
		if mg.wait != nil {
			why = mg.wait.kind + " " + mg.wait.key
		}
		if s.ghost["@allow-main-block"] == 0 {
			e.fail(s, "deadlock", "the calling goroutine is blocked forever ("+why+") and no other goroutine can run")
		}
		return false
	}
	if s.switchesLeft > 0 {
		for _, ci := range cands[1:] {
			o := s.clone(e)
			o.switchesLeft--
			o.cur = ci
			o.gs[ci].wait = nil
			o.gs[ci].resumed = true
			o.gs[ci].resumeStep = o.steps
			o.gs[ci].timerPending = false
			o.sched = append(o.sched, ci)
			e.work = append(e.work, o)
			e.paths++
		}
	}
	pick := cands[0]
	s.cur = pick
	s.gs[pick].wait = nil
	s.gs[pick].resumed = true
	s.gs[pick].resumeStep = s.steps
	s.gs[pick].timerPending = false
	s.sched = append(s.sched, pick)
	return true
}

// voluntary explores a context switch at a point where the current goroutine could continue.
// Bounded by the per-path switch budget (verifrt.SchedBound).
func (e *Engine) voluntary(s *State) { e.voluntaryX(s, false) }

// postEffectPoint: a switch point right AFTER a release operation (unlock) took effect: in the explored alternatives the
// pre-empted goroutine resumes behind the operation (its re-executed instruction is skipped once).
func (e *Engine) postEffectPoint(s *State) {
	if s.preemptSync {
		s.pendingYield = true // taken at the next instruction boundary of this goroutine (see step loop)
	}
}

func (e *Engine) voluntaryX(s *State, after bool) {
	if len(s.gs) < 2 || s.switchesLeft <= 0 {
		return
	}
	g := s.g()
	if g.resumed {
		g.resumed = false
		if s.steps <= g.resumeStep+1 {
			return // just resumed at this very operation: do not preempt it again
		}
	}
	var others []int
	for i, o := range s.gs {
		if i == s.cur {
			continue
		}
		if o.timerPending && s.noTimers {
			continue
		}
		if e.enabled(s, o) {
			others = append(others, i)
		}
	}
	if len(others) == 0 {
		return
	}
	e.usedModels = true
	for _, ci := range others {
		o := s.clone(e)
		o.switchesLeft--
		o.cur = ci
		o.gs[ci].wait = nil
		o.gs[ci].resumed = true
			o.gs[ci].resumeStep = o.steps
		o.gs[ci].timerPending = false
		o.sched = append(o.sched, ci)
		// the preempted goroutine re-executes its instruction when resumed, without being preempted again there
		o.gs[s.cur].resumed = true
		o.gs[s.cur].resumeStep = -10 // re-executes the same operation when resumed
		e.work = append(e.work, o)
		e.paths++
	}
}

// preemptPoint is called by synchronisation operations before they take effect.
func (e *Engine) preemptPoint(s *State) {
	if s.preemptSync {
		e.voluntary(s)
	} else if g := s.g(); g.resumed {
		g.resumed = false
	}
}

func (e *Engine) spawn(s *State, f *Frame, fnv Value, method *types.Func, args []Value) {
	e.usedModels = true
	var fn *ssa.Function
	var bindings []Value
	if method != nil {
		iv := fnv.(*IfaceV)
		if iv.T == nil {
			e.fail(s, "panic", "go on nil interface method")
		}
		fn = e.prog.LookupMethod(iv.T, method.Pkg(), method.Name())
		args = append([]Value{iv.V}, args...)
	} else {
		fv := fnv.(*FuncV)
		if fv.Fn == nil {
			e.fail(s, "panic", "go of nil func")
		}
		fn, bindings = fv.Fn, fv.Bindings
	}
	if len(s.gs) >= 512 {
		e.errf("more than 512 goroutines")
	}
	f.ip++
	// gopool.Go(fn) and friends are redirected here by intrinsics as well
	ng := &Goroutine{id: len(s.gs)}
	if h := e.lookupIntrinsic(fn); h != nil || len(fn.Blocks) == 0 {
		// a goroutine whose body is a model/no-op: run the intrinsic synchronously
		if h != nil {
			h(e, s, f, fn, args, -1, false)
		}
		return
	}
	ng.frames = []*Frame{e.newFrame(fn, args, bindings, -1)}
	s.gs = append(s.gs, ng)
}

func (e *Engine) newTimer(s *State, fv *FuncV) *Pointer {
	o := e.newObj(s, fv, nil, "timer@"+e.curPos(s))
	e.armTimer(s, o.ID, fv)
	return &Pointer{Obj: o.ID}
}

func (e *Engine) armTimer(s *State, obj int, fv *FuncV) {
	e.usedModels = true
	if len(s.gs) >= 512 {
		e.errf("more than 512 goroutines (timers)")
	}
	ng := &Goroutine{id: len(s.gs), timerPending: true}
	ng.frames = []*Frame{e.newFrame(fv.Fn, nil, fv.Bindings, -1)}
	s.gs = append(s.gs, ng)
	s.ghost[fmt.Sprintf("timer:%d", obj)] = ng.id + 1
}

// ---------------------------------------------------------------- channels

func (e *Engine) chanObj(s *State, ch *ChanV) *ChanObj {
	return s.obj(ch.Obj).Val.(*ChanObj)
}

func (e *Engine) chanSend(s *State, f *Frame, ch *ChanV, v Value) {
	if ch.Obj == 0 {
		e.block(s, &waitDesc{kind: "never", key: "send on nil chan"})
		return
	}
	co := e.chanObj(s, ch)
	if co.Closed {
		e.fail(s, "panic", "send on closed channel")
	}
	if !e.sendReady(s, ch.Obj, s.g()) {
		e.block(s, &waitDesc{kind: "send", objs: []int{ch.Obj}})
		return
	}
	e.preemptPoint(s)
	nb := append(append([]Value(nil), co.Buf...), v)
	s.wobj(ch.Obj).Val = &ChanObj{Cap: co.Cap, Buf: nb, Closed: co.Closed}
	f.ip++
}

func (e *Engine) chanRecv(s *State, f *Frame, x *ssa.UnOp, ch *ChanV, commaOk bool) Value {
	c := e.c
	et := x.X.Type().Underlying().(*types.Chan).Elem()
	if ch.Obj == 0 {
		e.block(s, &waitDesc{kind: "never", key: "recv on nil chan"})
		return nil
	}
	co := e.chanObj(s, ch)
	if len(co.Buf) > 0 {
		e.preemptPoint(s)
		v := co.Buf[0]
		s.wobj(ch.Obj).Val = &ChanObj{Cap: co.Cap, Buf: append([]Value(nil), co.Buf[1:]...), Closed: co.Closed}
		if commaOk {
			return TupleV{v, c.True}
		}
		return v
	}
	if co.Closed {
		if commaOk {
			return TupleV{e.zero(et), c.False}
		}
		return e.zero(et)
	}
	e.block(s, &waitDesc{kind: "recv", objs: []int{ch.Obj}})
	return nil
}

func (e *Engine) chanClose(s *State, ch *ChanV) {
	if ch.Obj == 0 {
		e.fail(s, "panic", "close of nil channel")
	}
	co := e.chanObj(s, ch)
	if co.Closed {
		e.fail(s, "panic", "close of closed channel")
	}
	s.wobj(ch.Obj).Val = &ChanObj{Cap: co.Cap, Buf: co.Buf, Closed: true}
}

func (e *Engine) selectOp(s *State, f *Frame, x *ssa.Select) Value {
	c := e.c
	var ready []int
	objs := make([]int, len(x.States))
	sends := make([]bool, len(x.States))
	for i, st := range x.States {
		ch := e.get(s, f, st.Chan).(*ChanV)
		objs[i] = ch.Obj
		sends[i] = st.Dir == types.SendOnly
		if ch.Obj == 0 {
			continue
		}
		co := e.chanObj(s, ch)
		if st.Dir == types.SendOnly {
			if e.sendReady(s, ch.Obj, s.g()) {
				ready = append(ready, i)
			}
		} else if len(co.Buf) > 0 || co.Closed {
			ready = append(ready, i)
		}
	}
	mk := func(idx int, recvOk bool, recvVals map[int]Value) Value {
		tv := TupleV{c.BV(uint64(int64(idx)), 64), c.Bool(recvOk)}
		for i, st := range x.States {
			if st.Dir == types.RecvOnly {
				et := st.Chan.Type().Underlying().(*types.Chan).Elem()
				if v, ok := recvVals[i]; ok {
					tv = append(tv, v)
				} else {
					tv = append(tv, e.zero(et))
				}
			}
		}
		return tv
	}
	if len(ready) == 0 {
		if !x.Blocking {
			return mk(-1, false, nil)
		}
		e.block(s, &waitDesc{kind: "select", objs: objs, send: sends})
		return nil
	}
	e.preemptPoint(s)
	// choose among ready cases nondeterministically
	pick := ready[0]
	if len(ready) > 1 {
		choice := e.c.Var(fmt.Sprintf("@select_%d_%d", s.steps, len(s.sched)), 8)
		for j, r := range ready {
			if j == len(ready)-1 {
				pick = r
				break
			}
			if e.cond(s, c.Eq(choice, c.BV(uint64(j), 8))) {
				pick = r
				break
			}
		}
	}
	st := x.States[pick]
	ch := e.get(s, f, st.Chan).(*ChanV)
	co := e.chanObj(s, ch)
	if st.Dir == types.SendOnly {
		if co.Closed {
			e.fail(s, "panic", "send on closed channel")
		}
		nb := append(append([]Value(nil), co.Buf...), e.get(s, f, st.Send))
		s.wobj(ch.Obj).Val = &ChanObj{Cap: co.Cap, Buf: nb, Closed: co.Closed}
		return mk(pick, false, nil)
	}
	if len(co.Buf) > 0 {
		v := co.Buf[0]
		s.wobj(ch.Obj).Val = &ChanObj{Cap: co.Cap, Buf: append([]Value(nil), co.Buf[1:]...), Closed: co.Closed}
		return mk(pick, true, map[int]Value{pick: v})
	}
	return mk(pick, false, nil)
}
