package main

// Goroutines, channels, mutexes: sync-point scheduler (mechanism B).
// A goroutine runs until it blocks or finishes; at each blocking point / spawn the
// engine forks over the enabled goroutines (bounded by verifrt.SchedBound).

import (
	"fmt"
	"go/types"

	"golang.org/x/tools/go/ssa"
)

func addSyncIntrinsics() {
	lockNoop := func(e *Engine, s *State, f *Frame, fn *ssa.Function, args []Value, retIdx int, advance bool) (Value, bool) {
		return nil, true
	}
	for _, n := range []string{"(*sync.Mutex).Lock", "(*sync.RWMutex).Lock", "(*sync.RWMutex).RLock"} {
		intrinsics[n] = mutexLock
	}
	for _, n := range []string{"(*sync.Mutex).Unlock", "(*sync.RWMutex).Unlock", "(*sync.RWMutex).RUnlock"} {
		intrinsics[n] = mutexUnlock
	}
	intrinsics["(*sync.Mutex).TryLock"] = func(e *Engine, s *State, f *Frame, fn *ssa.Function, args []Value, retIdx int, advance bool) (Value, bool) {
		k := "lock:" + ptrKey(args[0].(*Pointer))
		if s.ghost[k] != 0 {
			return e.c.False, true
		}
		s.ghost[k] = s.g().id + 1
		return e.c.True, true
	}
	_ = lockNoop
	intrinsics["(*sync.Once).Do"] = func(e *Engine, s *State, f *Frame, fn *ssa.Function, args []Value, retIdx int, advance bool) (Value, bool) {
		k := "once:" + ptrKey(args[0].(*Pointer))
		if s.ghost[k] != 0 {
			return nil, true
		}
		s.ghost[k] = 1
		fv := args[1].(*FuncV)
		e.pushCall(s, f, fv, nil, -1, advance)
		return tailCall, true
	}
	intrinsics["(*sync.WaitGroup).Add"] = func(e *Engine, s *State, f *Frame, fn *ssa.Function, args []Value, retIdx int, advance bool) (Value, bool) {
		k := "wg:" + ptrKey(args[0].(*Pointer))
		s.ghost[k] += argInt(e, args[1])
		return nil, true
	}
	intrinsics["(*sync.WaitGroup).Done"] = func(e *Engine, s *State, f *Frame, fn *ssa.Function, args []Value, retIdx int, advance bool) (Value, bool) {
		k := "wg:" + ptrKey(args[0].(*Pointer))
		s.ghost[k]--
		return nil, true
	}
	intrinsics["(*sync.WaitGroup).Wait"] = func(e *Engine, s *State, f *Frame, fn *ssa.Function, args []Value, retIdx int, advance bool) (Value, bool) {
		k := "wg:" + ptrKey(args[0].(*Pointer))
		if s.ghost[k] > 0 {
			e.block(s, "wg "+k)
			return tailCall, true
		}
		return nil, true
	}
	// sync/atomic primitives on plain words
	for _, w := range []string{"Int32", "Int64", "Uint32", "Uint64", "Uintptr", "Pointer"} {
		intrinsics["sync/atomic.Load"+w] = func(e *Engine, s *State, f *Frame, fn *ssa.Function, args []Value, retIdx int, advance bool) (Value, bool) {
			return e.load(s, args[0].(*Pointer)), true
		}
		intrinsics["sync/atomic.Store"+w] = func(e *Engine, s *State, f *Frame, fn *ssa.Function, args []Value, retIdx int, advance bool) (Value, bool) {
			e.store(s, args[0].(*Pointer), args[1])
			return nil, true
		}
		intrinsics["sync/atomic.Swap"+w] = func(e *Engine, s *State, f *Frame, fn *ssa.Function, args []Value, retIdx int, advance bool) (Value, bool) {
			old := e.load(s, args[0].(*Pointer))
			e.store(s, args[0].(*Pointer), args[1])
			return old, true
		}
		intrinsics["sync/atomic.Add"+w] = func(e *Engine, s *State, f *Frame, fn *ssa.Function, args []Value, retIdx int, advance bool) (Value, bool) {
			old := e.load(s, args[0].(*Pointer)).(*Term)
			nv := e.c.Add(old, args[1].(*Term))
			e.store(s, args[0].(*Pointer), nv)
			return nv, true
		}
		intrinsics["sync/atomic.CompareAndSwap"+w] = func(e *Engine, s *State, f *Frame, fn *ssa.Function, args []Value, retIdx int, advance bool) (Value, bool) {
			old := e.load(s, args[0].(*Pointer))
			if e.cond(s, e.valueEq(s, old, args[1])) {
				e.store(s, args[0].(*Pointer), args[2])
				return e.c.True, true
			}
			return e.c.False, true
		}
	}
}

func mutexLock(e *Engine, s *State, f *Frame, fn *ssa.Function, args []Value, retIdx int, advance bool) (Value, bool) {
	p := args[0].(*Pointer)
	if p.IsNil() {
		e.fail(s, "panic", "nil mutex")
	}
	k := "lock:" + ptrKey(p)
	if h := s.ghost[k]; h != 0 {
		if h == s.g().id+1 {
			e.fail(s, "deadlock", "mutex locked twice by the same goroutine")
		}
		e.block(s, k)
		return tailCall, true
	}
	s.ghost[k] = s.g().id + 1
	return nil, true
}

func mutexUnlock(e *Engine, s *State, f *Frame, fn *ssa.Function, args []Value, retIdx int, advance bool) (Value, bool) {
	p := args[0].(*Pointer)
	k := "lock:" + ptrKey(p)
	if s.ghost[k] == 0 {
		e.fail(s, "panic", "sync: unlock of unlocked mutex")
	}
	s.ghost[k] = 0
	return nil, true
}

// block: the current goroutine cannot proceed at its current instruction; switch to another one.
// The instruction is re-executed when the goroutine is scheduled again.
func (e *Engine) block(s *State, why string) {
	g := s.g()
	g.waitOn = why
	if !e.schedule(s) {
		// nobody can run: deadlock
		e.fail(s, "deadlock", "all goroutines blocked; current waits on "+why)
	}
}

// schedule picks the next goroutine to run. Returns false if none is runnable (path ends).
// With several candidates the state is forked (one per candidate).
func (e *Engine) schedule(s *State) bool {
	var cands []int
	for i, g := range s.gs {
		if g.done || len(g.frames) == 0 {
			continue
		}
		if i == s.cur && g.waitOn != "" {
			continue
		}
		cands = append(cands, i)
	}
	// the main goroutine (0) finishing ends the path
	if s.gs[0].done {
		return false
	}
	if len(cands) == 0 {
		// goroutines blocked: they may be retried only if something changed; we treat waitOn goroutines as
		// candidates once (they re-execute their blocking instruction)
		return false
	}
	pick := cands[0]
	if len(cands) > 1 {
		for _, ci := range cands[1:] {
			o := s.clone(e)
			o.cur = ci
			o.gs[ci].waitOn = ""
			o.sched = append(o.sched, ci)
			e.work = append(e.work, o)
			e.paths++
		}
	}
	s.cur = pick
	s.gs[pick].waitOn = ""
	s.sched = append(s.sched, pick)
	return true
}

func (e *Engine) spawn(s *State, f *Frame, fnv Value, method *types.Func, args []Value) {
	e.errf("go statement: scheduler not enabled in this harness")
}

func (e *Engine) chanObj(s *State, ch *ChanV) *ChanObj {
	return s.obj(ch.Obj).Val.(*ChanObj)
}

func (e *Engine) chanSend(s *State, f *Frame, ch *ChanV, v Value) {
	if ch.Obj == 0 {
		e.block(s, "send on nil chan")
		return
	}
	co := e.chanObj(s, ch)
	if co.Closed {
		e.fail(s, "panic", "send on closed channel")
	}
	if len(co.Buf) < co.Cap {
		nb := append(append([]Value(nil), co.Buf...), v)
		s.wobj(ch.Obj).Val = &ChanObj{Cap: co.Cap, Buf: nb, Closed: co.Closed}
		f.ip++
		return
	}
	e.block(s, fmt.Sprintf("send chan %d", ch.Obj))
}

func (e *Engine) chanRecv(s *State, f *Frame, x *ssa.UnOp, ch *ChanV, commaOk bool) Value {
	c := e.c
	et := x.X.Type().Underlying().(*types.Chan).Elem()
	if ch.Obj == 0 {
		e.block(s, "recv on nil chan")
		return nil
	}
	co := e.chanObj(s, ch)
	if len(co.Buf) > 0 {
		v := co.Buf[0]
		s.wobj(ch.Obj).Val = &ChanObj{Cap: co.Cap, Buf: append([]Value(nil), co.Buf[1:]...), Closed: co.Closed}
		if commaOk {
			return TupleV{v, c.True}
		}
		return v
	}
	if co.Closed {
		if commaOk {
			return TupleV{e.zero(et), c.False}
		}
		return e.zero(et)
	}
	e.block(s, fmt.Sprintf("recv chan %d", ch.Obj))
	return nil
}

func (e *Engine) chanClose(s *State, ch *ChanV) {
	if ch.Obj == 0 {
		e.fail(s, "panic", "close of nil channel")
	}
	co := e.chanObj(s, ch)
	if co.Closed {
		e.fail(s, "panic", "close of closed channel")
	}
	s.wobj(ch.Obj).Val = &ChanObj{Cap: co.Cap, Buf: co.Buf, Closed: true}
}

func (e *Engine) selectOp(s *State, f *Frame, x *ssa.Select) Value {
	c := e.c
	// collect ready cases
	type rc struct {
		idx int
	}
	var ready []int
	for i, st := range x.States {
		ch := e.get(s, f, st.Chan).(*ChanV)
		if ch.Obj == 0 {
			continue
		}
		co := e.chanObj(s, ch)
		if st.Dir == types.SendOnly {
			if co.Closed || len(co.Buf) < co.Cap {
				ready = append(ready, i)
			}
		} else {
			if len(co.Buf) > 0 || co.Closed {
				ready = append(ready, i)
			}
		}
	}
	mk := func(idx int, recvOk bool, recvVals map[int]Value) Value {
		tv := TupleV{c.BV(uint64(int64(idx)), 64), c.Bool(recvOk)}
		for i, st := range x.States {
			if st.Dir == types.RecvOnly {
				et := st.Chan.Type().Underlying().(*types.Chan).Elem()
				if v, ok := recvVals[i]; ok {
					tv = append(tv, v)
				} else {
					tv = append(tv, e.zero(et))
				}
			}
		}
		return tv
	}
	if len(ready) == 0 {
		if !x.Blocking {
			return mk(-1, false, nil)
		}
		e.block(s, "select")
		return nil
	}
	// choose among ready cases nondeterministically (fork)
	pick := ready[0]
	if len(ready) > 1 {
		ch := e.c.Var(e.FreshSched(s), 64)
		_ = ch
		for _, r := range ready[1:] {
			k := fmt.Sprintf("sel:%d:%d", s.nSched, r)
			_ = k
		}
		// fork via a fresh choice variable constrained per clone
		choice := e.ndScalar(s, "@select", 64)
		for j, r := range ready {
			if j == len(ready)-1 {
				pick = r
				break
			}
			if e.cond(s, c.Eq(choice, c.BV(uint64(j), 64))) {
				pick = r
				break
			}
		}
	}
	st := x.States[pick]
	ch := e.get(s, f, st.Chan).(*ChanV)
	co := e.chanObj(s, ch)
	if st.Dir == types.SendOnly {
		if co.Closed {
			e.fail(s, "panic", "send on closed channel")
		}
		nb := append(append([]Value(nil), co.Buf...), e.get(s, f, st.Send))
		s.wobj(ch.Obj).Val = &ChanObj{Cap: co.Cap, Buf: nb, Closed: co.Closed}
		return mk(pick, false, nil)
	}
	if len(co.Buf) > 0 {
		v := co.Buf[0]
		s.wobj(ch.Obj).Val = &ChanObj{Cap: co.Cap, Buf: append([]Value(nil), co.Buf[1:]...), Closed: co.Closed}
		return mk(pick, true, map[int]Value{pick: v})
	}
	return mk(pick, false, nil)
}

func (e *Engine) FreshSched(s *State) string {
	s.nSched++
	return fmt.Sprintf("@sched%d_%d", s.id, s.nSched)
}
