package main

// If-conversion: `if c { pure } [else { pure }]` diamonds/triangles are executed on both sides
// and joined with ite-terms at the phi nodes instead of forking the path.

import (
	"go/token"
	"go/types"

	"golang.org/x/tools/go/ssa"
)

type ifShape struct {
	ok      bool
	join    *ssa.BasicBlock
	tBlk    *ssa.BasicBlock // nil if the true edge goes straight to join
	fBlk    *ssa.BasicBlock // nil if the false edge goes straight to join
}

func pureInstr(in ssa.Instruction) bool {
	switch x := in.(type) {
	case *ssa.BinOp:
		switch x.Op {
		case token.QUO, token.REM:
			return false
		case token.SHL, token.SHR:
			return !isSigned(x.Y.Type())
		case token.EQL, token.NEQ:
			// comparisons of scalars only
			_, ok := x.X.Type().Underlying().(*types.Basic)
			return ok && !isString(x.X.Type())
		}
		b, ok := x.X.Type().Underlying().(*types.Basic)
		return ok && b.Info()&(types.IsInteger|types.IsBoolean) != 0
	case *ssa.UnOp:
		return x.Op == token.NOT || x.Op == token.SUB || x.Op == token.XOR
	case *ssa.Convert:
		fb, ok1 := x.X.Type().Underlying().(*types.Basic)
		tb, ok2 := x.Type().Underlying().(*types.Basic)
		return ok1 && ok2 && fb.Info()&types.IsInteger != 0 && tb.Info()&types.IsInteger != 0
	case *ssa.ChangeType:
		_, ok := x.Type().Underlying().(*types.Basic)
		return ok
	case *ssa.DebugRef:
		return true
	case *ssa.Call:
		if b, ok := x.Call.Value.(*ssa.Builtin); ok {
			switch b.Name() {
			case "len", "cap", "min", "max":
				return true
			}
		}
		if fn, ok := x.Call.Value.(*ssa.Function); ok {
			if pureIntrinsics[fn.String()] {
				return true
			}
		}
	}
	return false
}

var pureIntrinsics = map[string]bool{
	rtPkg + "EqBytes": true, rtPkg + "And": true, rtPkg + "Or": true, rtPkg + "Implies": true, rtPkg + "Ite": true,
}

func pureBlock(b *ssa.BasicBlock) bool {
	if len(b.Preds) != 1 || len(b.Succs) != 1 {
		return false
	}
	n := len(b.Instrs)
	if _, ok := b.Instrs[n-1].(*ssa.Jump); !ok {
		return false
	}
	if n > 12 {
		return false
	}
	for _, in := range b.Instrs[:n-1] {
		if !pureInstr(in) {
			return false
		}
	}
	return true
}

func (e *Engine) ifShapeOf(x *ssa.If) *ifShape {
	if sh, ok := e.ifShapes[x]; ok {
		return sh
	}
	sh := &ifShape{}
	blk := x.Block()
	t, f := blk.Succs[0], blk.Succs[1]
	switch {
	case t != f && pureBlock(t) && t.Succs[0] == f:
		sh.ok, sh.join, sh.tBlk = true, f, t
	case t != f && pureBlock(f) && f.Succs[0] == t:
		sh.ok, sh.join, sh.fBlk = true, t, f
	case t != f && pureBlock(t) && pureBlock(f) && t.Succs[0] == f.Succs[0]:
		sh.ok, sh.join, sh.tBlk, sh.fBlk = true, t.Succs[0], t, f
	}
	if sh.ok {
		// the join's phis must be scalar
		for _, in := range sh.join.Instrs {
			ph, ok := in.(*ssa.Phi)
			if !ok {
				break
			}
			if _, ok := ph.Type().Underlying().(*types.Basic); !ok || isString(ph.Type()) || isFloat(ph.Type()) {
				sh.ok = false
			}
		}
		// a loop back-edge into the if-block itself is not a diamond
		if sh.join == blk {
			sh.ok = false
		}
	}
	e.ifShapes[x] = sh
	return sh
}

// tryIfConvert executes an if-convertible branch without forking. Returns false if not applicable.
func (e *Engine) tryIfConvert(s *State, f *Frame, x *ssa.If, cond *Term) bool {
	if e.noIfConv {
		return false
	}
	sh := e.ifShapeOf(x)
	if !sh.ok {
		return false
	}
	blk := f.block
	// evaluate the pure side blocks
	for _, b := range []*ssa.BasicBlock{sh.tBlk, sh.fBlk} {
		if b == nil {
			continue
		}
		for _, in := range b.Instrs[:len(b.Instrs)-1] {
			switch v := in.(type) {
			case *ssa.Call:
				fn, _, args := e.callParts(s, f, &v.Call)
				fv := fn.(*FuncV)
				var res Value
				if fv.Builtin != "" {
					res = e.builtin(s, f, fv.Builtin, args, v)
				} else {
					h := e.lookupIntrinsic(fv.Fn)
					res, _ = h(e, s, f, fv.Fn, args, -1, false)
				}
				e.set(f, v, res)
			case ssa.Value:
				e.set(f, v, e.evalValue(s, f, v))
			}
		}
	}
	tFrom, fFrom := blk, blk
	if sh.tBlk != nil {
		tFrom = sh.tBlk
	}
	if sh.fBlk != nil {
		fFrom = sh.fBlk
	}
	ti, fi := -1, -1
	for i, p := range sh.join.Preds {
		if p == tFrom && ti < 0 {
			ti = i
		} else if p == fFrom {
			fi = i
		}
	}
	if tFrom == fFrom {
		// both edges from the same block cannot be distinguished in phis
		return false
	}
	if ti < 0 || fi < 0 {
		return false
	}
	var phis []*ssa.Phi
	var vals []Value
	for _, in := range sh.join.Instrs {
		ph, ok := in.(*ssa.Phi)
		if !ok {
			break
		}
		a, ok1 := e.get(s, f, ph.Edges[ti]).(*Term)
		b, ok2 := e.get(s, f, ph.Edges[fi]).(*Term)
		if !ok1 || !ok2 {
			return false
		}
		phis = append(phis, ph)
		vals = append(vals, e.c.Ite(cond, a, b))
	}
	f.visits[sh.join.Index]++
	if f.visits[sh.join.Index] > s.unwind {
		e.fail(s, "unwind", "loop bound exceeded (if-converted join)")
	}
	for i, ph := range phis {
		e.set(f, ph, vals[i])
	}
	f.prev = tFrom
	f.block = sh.join
	f.ip = len(phis)
	e.ifConverted++
	return true
}
