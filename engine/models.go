package main

// Environment models: time (clock stub), otter cache, misc.

import (
	"fmt"

	"golang.org/x/tools/go/ssa"
)

func timeVal(e *Engine, ns *Term) Value {
	return &StructV{Fields: []Value{e.c.BV(0, 64), ns, &Pointer{}}}
}

func timeNs(v Value) *Term {
	return v.(*StructV).Fields[1].(*Term)
}

// now returns a fresh instant, not earlier than the previous one (monotone clock stub).
func (e *Engine) now(s *State) *Term {
	c := e.c
	e.usedModels = true
	n := s.ghost["now#"]
	s.ghost["now#"] = n + 1
	// instants are whole multiples of 0.5 s: now = ticks * 4U (U = 1/8 s), ticks a 34-bit symbol, monotone
	tv := c.Var(fmt.Sprintf("@now%d", n), 34)
	ticks := c.Zext(tv, 64)
	s.mvars = append(s.mvars, tv)
	s.nd = append(s.nd, ndRec{Tag: fmt.Sprintf("@now%d.ticks", n), T: ticks})
	lo := c.BV(2, 64)
	if s.lastNow != nil {
		lo = s.lastNow
	}
	s.pc = append(s.pc, c.Sle(lo, ticks))
	s.model = nil
	s.lastNow = ticks
	return c.mulT(c.Mul(ticks, c.BV(4, 64)))
}

func init() {
	type I = intrinsic
	reg := func(name string, h I) { intrinsics[name] = h }
	reg("time.Now", func(e *Engine, s *State, f *Frame, fn *ssa.Function, args []Value, retIdx int, advance bool) (Value, bool) {
		return timeVal(e, e.now(s)), true
	})
	reg("time.Since", func(e *Engine, s *State, f *Frame, fn *ssa.Function, args []Value, retIdx int, advance bool) (Value, bool) {
		return e.c.Sub(e.now(s), timeNs(args[0])), true
	})
	reg("time.Until", func(e *Engine, s *State, f *Frame, fn *ssa.Function, args []Value, retIdx int, advance bool) (Value, bool) {
		return e.c.Sub(timeNs(args[0]), e.now(s)), true
	})
	reg("time.Unix", func(e *Engine, s *State, f *Frame, fn *ssa.Function, args []Value, retIdx int, advance bool) (Value, bool) {
		c := e.c
		return timeVal(e, c.Add(c.Mul(args[0].(*Term), c.BV(1000000000, 64)), args[1].(*Term))), true
	})
	reg("(time.Time).Add", func(e *Engine, s *State, f *Frame, fn *ssa.Function, args []Value, retIdx int, advance bool) (Value, bool) {
		return timeVal(e, e.c.Add(timeNs(args[0]), args[1].(*Term))), true
	})
	reg("(time.Time).Sub", func(e *Engine, s *State, f *Frame, fn *ssa.Function, args []Value, retIdx int, advance bool) (Value, bool) {
		return e.c.Sub(timeNs(args[0]), timeNs(args[1])), true
	})
	reg("(time.Time).Before", func(e *Engine, s *State, f *Frame, fn *ssa.Function, args []Value, retIdx int, advance bool) (Value, bool) {
		return e.c.Slt(timeNs(args[0]), timeNs(args[1])), true
	})
	reg("(time.Time).After", func(e *Engine, s *State, f *Frame, fn *ssa.Function, args []Value, retIdx int, advance bool) (Value, bool) {
		return e.c.Slt(timeNs(args[1]), timeNs(args[0])), true
	})
	reg("(time.Time).Equal", func(e *Engine, s *State, f *Frame, fn *ssa.Function, args []Value, retIdx int, advance bool) (Value, bool) {
		return e.c.Eq(timeNs(args[0]), timeNs(args[1])), true
	})
	reg("(time.Time).IsZero", func(e *Engine, s *State, f *Frame, fn *ssa.Function, args []Value, retIdx int, advance bool) (Value, bool) {
		return e.c.Eq(timeNs(args[0]), e.c.BV(0, 64)), true
	})
	reg("(time.Time).UnixNano", func(e *Engine, s *State, f *Frame, fn *ssa.Function, args []Value, retIdx int, advance bool) (Value, bool) {
		return timeNs(args[0]), true
	})
	reg("(time.Time).Unix", func(e *Engine, s *State, f *Frame, fn *ssa.Function, args []Value, retIdx int, advance bool) (Value, bool) {
		q, _ := e.divBillion(s, timeNs(args[0]))
		return q, true
	})
	reg("(time.Time).UnixMilli", func(e *Engine, s *State, f *Frame, fn *ssa.Function, args []Value, retIdx int, advance bool) (Value, bool) {
		c := e.c
		d := timeNs(args[0])
		if d.IsConst() {
			return c.BV(uint64(int64(d.Val)/1000000), 64), true
		}
		if x, ok := c.isMulT(d); ok {
			if _, _, ok := srange(x); ok {
				// d = x units of 1/8 s = 125 ms each
				return c.Mul(x, c.BV(125, 64)), true
			}
		}
		return c.Fresh("@ms", 64), true
	})
	reg("(time.Duration).Seconds", func(e *Engine, s *State, f *Frame, fn *ssa.Function, args []Value, retIdx int, advance bool) (Value, bool) {
		d := args[0].(*Term)
		if d.IsConst() {
			return FloatV{float64(int64(d.Val)) / 1e9}, true
		}
		q, _ := e.divBillion(s, d)
		return SymFloat{T: q, Signed: true}, true
	})
	reg("(time.Duration).Milliseconds", func(e *Engine, s *State, f *Frame, fn *ssa.Function, args []Value, retIdx int, advance bool) (Value, bool) {
		d := args[0].(*Term)
		if d.IsConst() {
			return e.c.BV(uint64(int64(d.Val)/1000000), 64), true
		}
		return e.c.Fresh("@ms", 64), true
	})
	reg("time.Sleep", noopIntrinsic)

	// ---- s2: only the contract Decode(Encode(b)) == b is modelled (identity coding)
	reg("github.com/klauspost/compress/s2.MaxEncodedLen", func(e *Engine, s *State, f *Frame, fn *ssa.Function, args []Value, retIdx int, advance bool) (Value, bool) {
		return args[0], true
	})
	reg("github.com/klauspost/compress/s2.Encode", func(e *Engine, s *State, f *Frame, fn *ssa.Function, args []Value, retIdx int, advance bool) (Value, bool) {
		dst, src := args[0].(*SliceV), args[1].(*SliceV)
		e.check(s, e.c.Ule(src.Len, dst.Cap), "engine-limit", "s2.Encode model: dst shorter than src")
		d := &SliceV{Base: dst.Base, Off: dst.Off, Len: src.Len, Cap: dst.Cap}
		e.copySlice(s, d, src)
		return d, true
	})
	reg("github.com/klauspost/compress/s2.DecodedLen", func(e *Engine, s *State, f *Frame, fn *ssa.Function, args []Value, retIdx int, advance bool) (Value, bool) {
		return TupleV{args[0].(*SliceV).Len, &IfaceV{}}, true
	})
	reg("github.com/klauspost/compress/s2.Decode", func(e *Engine, s *State, f *Frame, fn *ssa.Function, args []Value, retIdx int, advance bool) (Value, bool) {
		dst, src := args[0].(*SliceV), args[1].(*SliceV)
		e.check(s, e.c.Ule(src.Len, dst.Cap), "engine-limit", "s2.Decode model: dst shorter than src")
		d := &SliceV{Base: dst.Base, Off: dst.Off, Len: src.Len, Cap: dst.Cap}
		e.copySlice(s, d, src)
		return TupleV{d, &IfaceV{}}, true
	})

	// ---- otter (one modelled cache per state; keys are strings)
	op := "(github.com/maypok86/otter.CacheWithVariableTTL)."
	bop := "(github.com/maypok86/otter.baseCache)."
	reg(op+"Set", func(e *Engine, s *State, f *Frame, fn *ssa.Function, args []Value, retIdx int, advance bool) (Value, bool) {
		return otterSet(e, s, args[1], args[2], args[3].(*Term), false), true
	})
	reg(op+"SetIfAbsent", func(e *Engine, s *State, f *Frame, fn *ssa.Function, args []Value, retIdx int, advance bool) (Value, bool) {
		return otterSet(e, s, args[1], args[2], args[3].(*Term), true), true
	})
	get := func(e *Engine, s *State, f *Frame, fn *ssa.Function, args []Value, retIdx int, advance bool) (Value, bool) {
		s.ghost["otter.get"]++
		mo := e.otterObj(s)
		for _, en := range mo.Entries {
			if e.cond(s, e.valueEq(s, en.K, args[1])) {
				return TupleV{en.V, e.c.True}, true
			}
		}
		return TupleV{e.zero(fn.Signature.Results().At(0).Type()), e.c.False}, true
	}
	reg(bop+"Get", get)
	reg(op+"Get", get)
	sz := func(e *Engine, s *State, f *Frame, fn *ssa.Function, args []Value, retIdx int, advance bool) (Value, bool) {
		return e.c.BV(uint64(len(e.otterObj(s).Entries)), 64), true
	}
	reg(bop+"Size", sz)
	reg(op+"Size", sz)
	cl := func(e *Engine, s *State, f *Frame, fn *ssa.Function, args []Value, retIdx int, advance bool) (Value, bool) {
		s.ghost["otter.closed"]++
		return nil, true
	}
	reg(bop+"Close", cl)
	reg(op+"Close", cl)
}

func (e *Engine) otterObj(s *State) *MapObj {
	e.usedModels = true
	id := s.ghost["otter.obj"]
	if id == 0 {
		o := e.newObj(s, &MapObj{}, nil, "otter model")
		s.ghost["otter.obj"] = o.ID
		id = o.ID
	}
	return s.obj(id).Val.(*MapObj)
}

func otterSet(e *Engine, s *State, k, v Value, ttl *Term, ifAbsent bool) Value {
	if s.gterm == nil {
		s.gterm = map[string]*Term{}
	}
	s.gterm["otter.lastttl"] = ttl
	s.ghost["otter.sets"]++
	mo := e.otterObj(s)
	for i, en := range mo.Entries {
		if e.cond(s, e.valueEq(s, en.K, k)) {
			if ifAbsent {
				s.ghost["otter.setnx.kept"]++
				return e.c.False
			}
			ne := append([]MapEntry(nil), mo.Entries...)
			ne[i].V = v
			s.wobj(s.ghost["otter.obj"]).Val = &MapObj{Entries: ne}
			s.ghost["otter.replaced"]++
			return e.c.True
		}
	}
	mo = e.otterObj(s)
	s.wobj(s.ghost["otter.obj"]).Val = &MapObj{Entries: append(append([]MapEntry(nil), mo.Entries...), MapEntry{k, v})}
	return e.c.True
}

// divBillion returns (q, r) with d == q*1e9 + r, 0 <= r < 1e9, for 0 <= d < 2^62 (relational encoding:
// multiplication of a 33-bit quotient by the constant instead of a 64-bit division).
func (e *Engine) divBillion(s *State, d *Term) (*Term, *Term) {
	c := e.c
	if d.IsConst() {
		return c.BV(d.Val/1000000000, 64), c.BV(d.Val%1000000000, 64)
	}
	if x, ok := c.isMulT(d); ok {
		if _, _, ok := srange(x); ok {
			// d = x units of 1/8 s: whole seconds = floor(x / 8)
			return c.Ashr(x, c.BV(3, 64)), c.Mul(c.BvAnd(x, c.BV(7, 64)), c.BV(tickT, 64))
		}
	}
	n := s.ghost["div#"]
	s.ghost["div#"] = n + 1
	q := c.Zext(c.Var(fmt.Sprintf("@q%d_s%d", n, s.id), 33), 64)
	r := c.Zext(c.Var(fmt.Sprintf("@r%d_s%d", n, s.id), 30), 64)
	s.pc = append(s.pc, c.And(c.Eq(d, c.Add(c.Mul(q, c.BV(1000000000, 64)), r)), c.Ult(r, c.BV(1000000000, 64))))
	s.model = nil
	return q, r
}
