package main

import (
	"encoding/json"
	"flag"
	"fmt"
	"os"
	"path/filepath"
	"regexp"
	"runtime/debug"
	"sort"
	"strings"
	"sync"
	"time"

	"golang.org/x/tools/go/packages"
	"golang.org/x/tools/go/ssa"
	"golang.org/x/tools/go/ssa/ssautil"
)

type HarnessResult struct {
	Name       string                            `json:"name"`
	Pkg        string                            `json:"pkg"`
	Status     string                            `json:"status"` // ok | violation | error
	Error      string                            `json:"error,omitempty"`
	Violations []*violation                      `json:"violations,omitempty"`
	Reached    map[string]map[string]interface{} `json:"reached"`
	Expected   []string                          `json:"expected_markers,omitempty"`
	Paths      int                               `json:"paths"`
	States     int                               `json:"states"`
	Instrs     int64                             `json:"instrs"`
	Queries    int                               `json:"queries"`
	Sat        int                               `json:"sat"`
	Unsat      int                               `json:"unsat"`
	Unknown    int                               `json:"unknown"`
	SolverS    float64                           `json:"solver_s"`
	WallS      float64                           `json:"wall_s"`
	Funcs      []string                          `json:"functions_encoded"`
	Solver     string                            `json:"solver"`
	XChecked   int                               `json:"cross_checked"`
	XSecond    string                            `json:"cross_solver,omitempty"`
	ModelOnly  bool                              `json:"model_only"`
}

func buildOverlay(repo, verif string) (map[string][]byte, error) {
	ov := map[string][]byte{}
	add := func(srcDir, dstDir string) error {
		ents, err := os.ReadDir(srcDir)
		if err != nil {
			return nil
		}
		for _, en := range ents {
			if en.IsDir() || !strings.HasSuffix(en.Name(), ".go") {
				continue
			}
			b, err := os.ReadFile(filepath.Join(srcDir, en.Name()))
			if err != nil {
				return err
			}
			ov[filepath.Join(dstDir, en.Name())] = b
		}
		return nil
	}
	if err := add(filepath.Join(verif, "rt/verifrt"), filepath.Join(repo, "internal/verifrt")); err != nil {
		return nil, err
	}
	hroot := filepath.Join(verif, "harness")
	err := filepath.Walk(hroot, func(p string, info os.FileInfo, err error) error {
		if err != nil {
			return nil
		}
		if info.IsDir() {
			rel, _ := filepath.Rel(hroot, p)
			return add(p, filepath.Join(repo, rel))
		}
		return nil
	})
	return ov, err
}

func main() {
	if len(os.Args) > 1 && os.Args[1] == "check" {
		os.Exit(checkMain(os.Args[2:]))
	}
	if len(os.Args) > 2 && os.Args[1] == "replay" {
		b, err := os.ReadFile(os.Args[2])
		if err != nil {
			fmt.Fprintln(os.Stderr, err)
			os.Exit(2)
		}
		var doc ReplayDoc
		if err := json.Unmarshal(b, &doc); err != nil {
			fmt.Fprintln(os.Stderr, err)
			os.Exit(2)
		}
		res, out := nativeReplay("/repo", "/verif", &doc, os.Args[2])
		fmt.Println(out)
		fmt.Println("native replay:", res)
		if res == "reproduced" || res == "reproduced-differently" {
			os.Exit(1)
		}
		os.Exit(0)
	}
	repo := flag.String("repo", "/repo", "repository root")
	verif := flag.String("verif", "/verif", "verif root")
	pkgPat := flag.String("pkg", "", "package patterns relative to repo (space separated)")
	hre := flag.String("harness", "", "regexp selecting harness functions")
	out := flag.String("out", "", "result json")
	solver := flag.String("solver", "z3-new", "z3 | z3-new | cvc5")
	tier := flag.String("tier", "quick", "quick | thorough")
	timeout := flag.Int("timeout", 900, "per-harness wall budget (s)")
	flag.IntVar(&optQTimeout, "qtimeout", 60000, "per-query solver timeout (ms)")
	flag.IntVar(&optMaxSteps, "maxsteps", 50000000, "per-path instruction budget")
	jobs := flag.Int("j", 8, "parallel harnesses")
	verbose := flag.Int("v", 0, "verbosity")
	flag.BoolVar(&optSymIdx, "symidx", false, "keep byte indexes symbolic")
	flag.BoolVar(&optSymLen, "symlen", false, "keep copy lengths symbolic")
	flag.BoolVar(&optNoModel, "nomodel", false, "disable model caching")
	flag.BoolVar(&optNoIfConv, "noifconv", false, "disable if-conversion")
	flag.Parse()
	results, err := runAll(*repo, *verif, strings.Fields(*pkgPat), *hre, *solver, *tier, *timeout, *jobs, *verbose)
	if err != nil {
		fmt.Fprintln(os.Stderr, err)
		os.Exit(2)
	}
	b, _ := json.MarshalIndent(results, "", " ")
	if *out != "" {
		os.WriteFile(*out, b, 0644)
	} else {
		os.Stdout.Write(b)
	}
	code := 0
	for _, r := range results {
		if r.Status == "error" {
			code = 2
		}
	}
	for _, r := range results {
		if r.Status == "violation" && code == 0 {
			code = 1
		}
	}
	os.Exit(code)
}

var optQTimeout = 60000
var optMaxSteps = 50000000

var shardRe = regexp.MustCompile(`_S(\d+)$`)

func runAll(repo, verif string, pkgPats []string, hre, solver, tier string, timeout, jobs, verbose int) ([]*HarnessResult, error) {
	ov, err := buildOverlay(repo, verif)
	if err != nil {
		return nil, fmt.Errorf("overlay: %v", err)
	}
	cfg := &packages.Config{Mode: packages.LoadAllSyntax, Dir: repo, Overlay: ov,
		Env: append(os.Environ(), "GOFLAGS=-mod=mod", "GOPROXY=off", "GOSUMDB=off", "GOTOOLCHAIN=local")}
	t0 := time.Now()
	pkgs, err := packages.Load(cfg, pkgPats...)
	if err != nil {
		return nil, fmt.Errorf("load: %v", err)
	}
	if packages.PrintErrors(pkgs) > 0 {
		return nil, fmt.Errorf("package errors")
	}
	prog, spkgs := ssautil.AllPackages(pkgs, ssa.InstantiateGenerics)
	prog.Build()
	if verbose > 0 {
		fmt.Fprintf(os.Stderr, "loaded+built SSA in %.1fs\n", time.Since(t0).Seconds())
	}
	re := regexp.MustCompile(hre)
	type job struct {
		pkg    *ssa.Package
		fn     *ssa.Function
		shard  int
		nshard int
	}
	var jobsL []job
	for _, sp := range spkgs {
		if sp == nil {
			continue
		}
		var names []string
		for n, m := range sp.Members {
			if _, ok := m.(*ssa.Function); ok && strings.HasPrefix(n, "VerifH_") && re.MatchString(n) {
				names = append(names, n)
			}
		}
		sort.Strings(names)
		for _, n := range names {
			ns := 1
			if m := shardRe.FindStringSubmatch(n); m != nil {
				fmt.Sscan(m[1], &ns)
			}
			for i := 0; i < ns; i++ {
				jobsL = append(jobsL, job{sp, sp.Func(n), i, ns})
			}
		}
	}
	if len(jobsL) == 0 {
		return nil, fmt.Errorf("no harness matches %q in %v", hre, pkgPats)
	}
	results := make([]*HarnessResult, len(jobsL))
	var wg sync.WaitGroup
	sem := make(chan struct{}, jobs)
	for i, j := range jobsL {
		wg.Add(1)
		go func(i int, j job) {
			defer wg.Done()
			sem <- struct{}{}
			defer func() { <-sem }()
			results[i] = runHarness(prog, j.pkg, j.fn, solver, tier, timeout, optQTimeout, optMaxSteps, verbose, j.shard)
			r := results[i]
			if verbose > 0 || r.Status != "ok" {
				fmt.Fprintf(os.Stderr, "[%s] %s/%d: %s paths=%d instrs=%d queries=%d solver=%.1fs wall=%.1fs %s\n",
					r.Solver, r.Name, j.shard, r.Status, r.Paths, r.Instrs, r.Queries, r.SolverS, r.WallS, firstLine(r.Error))
			}
		}(i, j)
	}
	wg.Wait()
	// merge shards
	var merged []*HarnessResult
	byName := map[string]*HarnessResult{}
	for _, r := range results {
		if m, ok := byName[r.Name]; ok {
			m.Paths += r.Paths
			m.States += r.States
			m.Instrs += r.Instrs
			m.Queries += r.Queries
			m.Sat += r.Sat
			m.Unsat += r.Unsat
			m.Unknown += r.Unknown
			m.SolverS += r.SolverS
			if r.WallS > m.WallS {
				m.WallS = r.WallS
			}
			m.Violations = append(m.Violations, r.Violations...)
			for k, v := range r.Reached {
				if _, ok := m.Reached[k]; !ok {
					m.Reached[k] = v
				}
			}
			for _, fnm := range r.Funcs {
				dup := false
				for _, y := range m.Funcs {
					if fnm == y {
						dup = true
						break
					}
				}
				if !dup {
					m.Funcs = append(m.Funcs, fnm)
				}
			}
			for _, x := range r.Expected {
				dup := false
				for _, y := range m.Expected {
					dup = dup || x == y
				}
				if !dup {
					m.Expected = append(m.Expected, x)
				}
			}
			if r.Status == "error" || (r.Status == "violation" && m.Status == "ok") {
				m.Status = r.Status
				if r.Error != "" {
					m.Error = r.Error
				}
			}
			continue
		}
		byName[r.Name] = r
		merged = append(merged, r)
	}
	return merged, nil
}

var optSymIdx, optSymLen, optNoModel, optNoIfConv bool

func firstLine(s string) string {
	if i := strings.IndexByte(s, '\n'); i >= 0 {
		return s[:i]
	}
	return s
}

func runHarness(prog *ssa.Program, pkg *ssa.Package, fn *ssa.Function, solver, tier string, timeout, qtimeout, maxSteps, verbose int, shard int) (res *HarnessResult) {
	t0 := time.Now()
	res = &HarnessResult{Name: fn.Name(), Pkg: pkg.Pkg.Path(), Solver: solver, Reached: map[string]map[string]interface{}{}}
	ctx := NewCtx()
	sol, err := NewSolver(solver, ctx, qtimeout)
	if err != nil {
		res.Status, res.Error = "error", err.Error()
		return
	}
	defer sol.Close()
	sol.XEvery = 500
	if tier == "thorough" {
		sol.XEvery = 100
	}
	e := &Engine{c: ctx, sol: sol, prog: prog, finfo: map[*ssa.Function]*fnInfo{}, globals: map[*ssa.Global]int{},
		inited: map[*ssa.Package]bool{}, vioSites: map[string]bool{}, reached: res.Reached, maxSteps: maxSteps,
		deadline: t0.Add(time.Duration(timeout) * time.Second), verbose: verbose, funcsSeen: map[string]bool{},
		hpkg: pkg, harness: fn.Name(), tier: tier, symIdx: optSymIdx, symLen: optSymLen, noModel: optNoModel, shard: shard, ifShapes: map[*ssa.If]*ifShape{}, uniq: map[string]int{}, fnByName: map[string]*ssa.Function{}, noIfConv: optNoIfConv}
	if os.Getenv("GOSMT_DEBUG") != "" {
		e.dbgLabels = dbgLabelsG
	}
	defer func() {
		res.WallS = time.Since(t0).Seconds()
		res.Paths = e.pathsDone
		res.States = e.nstate
		res.Instrs = e.instrs
		res.Queries = sol.Queries
		res.Sat, res.Unsat, res.Unknown = sol.Sat, sol.Unsat, sol.Unknown
		res.SolverS = sol.Time.Seconds()
		res.Violations = e.violations
		res.Solver = e.sol.name
		res.XChecked, res.XSecond = e.sol.XChecked, e.sol.XSecond
		res.ModelOnly = e.usedModels
		for x := range e.expected {
			res.Expected = append(res.Expected, x)
		}
		sort.Strings(res.Expected)
		for f := range e.funcsSeen {
			if strings.Contains(f, "IrineSistiana") && !strings.Contains(f, "VerifH_") && !strings.Contains(f, "verifrt") {
				res.Funcs = append(res.Funcs, f)
			}
		}
		sort.Strings(res.Funcs)
		if r := recover(); r != nil {
			if ee, ok := r.(engineErr); ok {
				res.Status, res.Error = "error", ee.msg
				return
			}
			res.Status, res.Error = "error", fmt.Sprintf("engine panic: %v\n%s", r, debug.Stack())
		}
	}()
	// base state: run package initialisers
	s := e.newState()
	e.base = nil
	if err := e.runInit(s, pkg); err != nil {
		res.Status, res.Error = "error", "init: "+err.Error()
		return
	}
	e.base = s
	// verifrt.Tier mirrors the tier (natively it is set from $VERIF_TIER / the replay file)
	if tier == "thorough" {
		if rt := prog.ImportedPackage("github.com/IrineSistiana/mosproxy/internal/verifrt"); rt != nil {
			if g, ok := rt.Members["Tier"].(*ssa.Global); ok {
				id := e.globalObj(s, g)
				s.wobj(id).Val = e.c.BV(1, 64)
			}
		}
	}
	// harness
	h := s
	h.gs = []*Goroutine{{id: 0, frames: []*Frame{e.newFrame(fn, nil, nil, -1)}}}
	h.cur = 0
	e.work = []*State{h}
	e.paths = 1
	for len(e.work) > 0 {
		st := e.work[len(e.work)-1]
		e.work = e.work[:len(e.work)-1]
		if err := e.runPath(st); err != nil {
			res.Status, res.Error = "error", err.Error()
			return
		}
	}
	if e.unknowns > 0 {
		res.Status, res.Error = "error", fmt.Sprintf("%d solver queries returned unknown", e.unknowns)
		return
	}
	if len(e.violations) > 0 {
		res.Status = "violation"
	} else {
		res.Status = "ok"
	}
	return
}

func (e *Engine) newState() *State {
	e.nstate++
	return &State{id: e.nstate, heap: map[int]*Object{}, known: map[int]bool{}, ndCnt: map[string]int{},
		pools: map[string][]Value{}, bpools: map[int][]int{}, reached: map[string]bool{}, ghost: map[string]int{}, unwind: 64, switchesLeft: 2}
}

// runInit executes the init functions of allow-listed packages in dependency order.
func (e *Engine) runInit(s *State, pkg *ssa.Package) error {
	var order []*ssa.Package
	seen := map[*ssa.Package]bool{}
	var visit func(p *ssa.Package)
	visit = func(p *ssa.Package) {
		if p == nil || seen[p] {
			return
		}
		seen[p] = true
		for _, imp := range p.Pkg.Imports() {
			visit(e.prog.Package(imp))
		}
		order = append(order, p)
	}
	visit(pkg)
	for _, p := range order {
		if e.initAllowed(p) {
			e.inited[p] = true
		}
	}
	for _, p := range order {
		if !e.initAllowed(p) {
			continue
		}
		initFn := p.Func("init")
		if initFn == nil {
			continue
		}
		s.gs = []*Goroutine{{id: 0, frames: []*Frame{e.newFrame(initFn, nil, nil, -1)}}}
		s.cur = 0
		s.unwind = 100000
		e.work = nil
		if err := e.runPath(s); err != nil {
			return fmt.Errorf("%s: %v", p.Pkg.Path(), err)
		}
		if len(e.work) > 0 {
			return fmt.Errorf("%s: init forked", p.Pkg.Path())
		}
	}
	s.unwind = 64
	s.steps = 0
	e.pathsDone = 0
	e.instrs = 0
	return nil
}
