package main

import (
	"fmt"
	"go/constant"
	"go/token"
	"go/types"
	"os"
	"runtime/debug"
	"strings"
	"time"

	"golang.org/x/tools/go/ssa"
)

var dbgLabelsG = map[int]string{}

type pathEnd struct{ why string }
type engineErr struct{ msg string }

type Engine struct {
	c            *Ctx
	sol          *Solver
	prog         *ssa.Program
	finfo        map[*ssa.Function]*fnInfo
	nstate, nobj int
	work         []*State
	globals      map[*ssa.Global]int
	inited       map[*ssa.Package]bool
	base         *State // state after package initialisation

	harness         string
	violations      []*violation
	vioSites        map[string]bool
	reached         map[string]map[string]interface{}
	expected        map[string]bool // markers the harness declared it must reach (verifrt.Expect)
	hpkg            *ssa.Package    // the harness's package (package-level default models live there)
	pkgModels       map[*ssa.Function]*ssa.Function
	paths           int
	pathsDone       int
	instrs          int64
	unknowns        int
	maxSteps        int
	deadline        time.Time
	verbose         int
	funcsSeen       map[string]bool
	assumptions     map[string]bool
	concretizeCnt   map[string]int
	iters           map[int]*iterState
	stopOnViolation bool
	mergeStats      int
	tier string
	fnByName map[string]*ssa.Function
	lastDefinite bool
	usedModels      bool
	uniq            map[string]int
	ifShapes        map[*ssa.If]*ifShape
	noIfConv        bool
	ifConverted     int
	dbgLabels       map[int]string
	shard           int
	noModel         bool
	symIdx          bool
	modelHits       int
	lastProg        time.Time
	symLen          bool
}

func (e *Engine) errf(format string, a ...interface{}) {
	panic(engineErr{fmt.Sprintf(format, a...)})
}

// ---------------------------------------------------------------- solver helpers

func (e *Engine) sat(s *State, c *Term) bool {
	if time.Now().After(e.deadline) {
		e.errf("wall-clock budget exceeded")
	}
	if e.verbose > 0 && time.Since(e.lastProg) > 5*time.Second {
		e.lastProg = time.Now()
		fmt.Fprintf(os.Stderr, "  .. %s paths done=%d pending=%d instrs=%d queries=%d solver=%.1fs pc=%d\n", e.harness, e.pathsDone, len(e.work), e.instrs, e.sol.Queries, e.sol.Time.Seconds(), len(s.pc))
	}
	r, err := e.sol.Check(s.pc, c)
	if err != nil {
		e.errf("solver: %v", err)
	}
	e.lastDefinite = r == Sat
	if r == Unknown {
		e.unknowns++
		return true
	}
	return r == Sat
}

func (s *State) assume(e *Engine, c *Term, val bool) {
	if val {
		s.pc = append(s.pc, c)
	} else {
		s.pc = append(s.pc, e.c.Not(c))
	}
	s.known[c.ID] = val
	s.learn(e, c, val)
}

// fetchModel reads the values of the path's variables after a Sat answer.
func (e *Engine) fetchModel(s *State) *Model {
	if e.noModel || !e.lastDefinite {
		return nil
	}
	var vs []*Term
	for _, t := range s.mvars {
		for t.K == KZext {
			t = t.Args[0]
		}
		if t.K == KVar {
			vs = append(vs, t)
		}
	}
	vals, err := e.sol.Values(vs)
	if err != nil {
		e.errf("model: %v", err)
	}
	m := &Model{Vars: make(map[string]uint64, len(vs))}
	for i, v := range vs {
		m.Vars[v.Name] = vals[i]
	}
	return m
}

// evalModel evaluates c under the state's cached model (which satisfies the path condition).
func (e *Engine) evalModel(s *State, c *Term) (bool, bool) {
	if s.model == nil {
		return false, false
	}
	v, ok := e.c.Eval(c, s.model, map[int]uint64{})
	return v == 1, ok
}

// cond resolves a Boolean to a concrete value on this path, forking if both are feasible.
// Must be called before the current instruction mutates the state.
func (e *Engine) cond(s *State, c *Term) bool {
	if c.W != 0 {
		panic("cond on non-bool")
	}
	c = e.simp(s, c)
	if c.IsConst() {
		return c.Val == 1
	}
	if v, ok := s.known[c.ID]; ok {
		return v
	}
	nc := e.c.Not(c)
	if v, ok := s.known[nc.ID]; ok {
		return !v
	}
	mv, mok := e.evalModel(s, c)
	var tSat, fSat bool
	var otherModel *Model
	if mok {
		e.modelHits++
		// side mv is feasible (witnessed by the cached model); query the other side
		var q *Term
		if mv {
			q = nc
		} else {
			q = c
		}
		o := e.sat(s, q)
		if o {
			otherModel = e.fetchModel(s)
		}
		if mv {
			tSat, fSat = true, o
		} else {
			tSat, fSat = o, true
		}
	} else {
		tSat = e.sat(s, c)
		var tm *Model
		if tSat {
			tm = e.fetchModel(s)
		}
		if !tSat {
			fSat = true
		} else {
			fSat = e.sat(s, nc)
			if fSat {
				otherModel = e.fetchModel(s)
			}
		}
		if tSat {
			s.model = tm
			mv = true
		}
	}
	switch {
	case tSat && fSat:
		o := s.clone(e)
		// s keeps the side witnessed by its model (mv); o takes the other side
		o.assume(e, c, !mv)
		o.model = otherModel
		e.work = append(e.work, o)
		e.paths++
		s.assume(e, c, mv)
		return mv
	case tSat:
		s.known[c.ID] = true
		s.learn(e, c, true)
		return true
	case fSat:
		s.known[c.ID] = false
		s.learn(e, c, false)
		if !mok {
			s.model = nil
		}
		return false
	}
	panic(pathEnd{"infeasible"})
}

// addAssume adds c to the path condition; kills the path if infeasible.
func (e *Engine) addAssume(s *State, c *Term) {
	c = e.simp(s, c)
	if c.IsTrue() {
		return
	}
	if c.IsFalse() {
		panic(pathEnd{"assume-infeasible"})
	}
	if mv, ok := e.evalModel(s, c); ok && mv {
		// cached model already satisfies c
	} else {
		if !e.sat(s, c) {
			panic(pathEnd{"assume-infeasible"})
		}
		s.model = e.fetchModel(s)
	}
	s.pc = append(s.pc, c)
	s.known[c.ID] = true
	s.learn(e, c, true)
}

func (e *Engine) report(s *State, kind, msg string, model map[string]interface{}) {
	v := &violation{Kind: kind, Msg: msg, Pos: e.curPos(s), Harness: e.harness, Stack: e.stack(s), Model: model}
	e.violations = append(e.violations, v)
	if e.verbose > 0 {
		fmt.Fprintf(os.Stderr, "  violation %s %s at %s\n", kind, msg, v.Pos)
	}
}

// check asserts ok on this path: a feasible ¬ok is a violation (recorded with a model), then ok is assumed.
func (e *Engine) check(s *State, ok *Term, kind, msg string) {
	ok = e.simp(s, ok)
	if ok.IsTrue() {
		return
	}
	if v, known := s.known[ok.ID]; known && v {
		return
	}
	site := kind + "@" + e.curPos(s) + ":" + msg
	nok := e.c.Not(ok)
	if e.vioSites[site] {
		// already reported: only continue on the ok side
		e.addAssume(s, ok)
		return
	}
	if mv, mok := e.evalModel(s, ok); mok && !mv {
		// the cached model is itself a counterexample; confirm with the solver for a full model
		e.modelHits++
	}
	r, err := e.sol.Check(s.pc, nok)
	if err != nil {
		e.errf("solver: %v", err)
	}
	if r == Unknown {
		e.unknowns++
		e.addAssume(s, ok)
		return
	}
	if r == Sat {
		e.vioSites[site] = true
		e.report(s, kind, msg, e.model(s))
		e.addAssume(s, ok)
		return
	}
	s.known[ok.ID] = true
	s.learn(e, ok, true)
}

// fail records an unconditional violation on this path and ends it.
func (e *Engine) fail(s *State, kind, msg string) {
	site := kind + "@" + e.curPos(s) + ":" + msg
	if !e.vioSites[site] {
		// the path itself is feasible (invariant), obtain a model
		r, err := e.sol.Check(s.pc, nil)
		if err != nil {
			e.errf("solver: %v", err)
		}
		if r == Sat {
			e.vioSites[site] = true
			e.report(s, kind, msg, e.model(s))
		} else if r == Unknown {
			e.unknowns++
		}
	}
	panic(pathEnd{kind})
}

// model extracts values for every nondet source of the path; requires the solver to be in a Sat state.
func (e *Engine) model(s *State) map[string]interface{} {
	out := map[string]interface{}{}
	var ts []*Term
	for _, r := range s.nd {
		if r.T != nil {
			ts = append(ts, r.T)
		} else {
			ts = append(ts, r.Len)
		}
	}
	vals, err := e.sol.Values(ts)
	if err != nil {
		e.errf("model: %v", err)
	}
	var cellTs []*Term
	type ref struct {
		tag string
		n   int
	}
	var refs []ref
	for i, r := range s.nd {
		if r.T != nil {
			if r.T.W == 0 {
				out[r.Tag] = vals[i] == 1
			} else {
				out[r.Tag] = vals[i]
			}
			continue
		}
		n := int(vals[i])
		if n > r.Max {
			n = r.Max
		}
		refs = append(refs, ref{r.Tag, n})
		for j := 0; j < n; j++ {
			cellTs = append(cellTs, e.baRead(r.Arr, e.c.BV(uint64(j), 64)))
		}
	}
	if len(refs) > 0 {
		cv, err := e.sol.Values(cellTs)
		if err != nil {
			e.errf("model: %v", err)
		}
		k := 0
		for _, r := range refs {
			b := make([]int, r.n)
			for j := 0; j < r.n; j++ {
				b[j] = int(cv[k])
				k++
			}
			out[r.tag] = b
		}
	}
	if len(s.sched) > 0 {
		out["@sched"] = append([]int(nil), s.sched...)
	}
	out["@shard"] = e.shard
	return out
}

// concretize picks concrete values for t by forking over the feasible ones.
func (e *Engine) concretize(s *State, t *Term, what string) uint64 {
	t = e.simp(s, t)
	if t.IsConst() {
		return t.Val
	}
	for n := 0; n < 4096; n++ {
		r, err := e.sol.Check(s.pc, nil)
		if err != nil {
			e.errf("solver: %v", err)
		}
		if r != Sat {
			if r == Unknown {
				e.unknowns++
				e.errf("concretize(%s): solver unknown", what)
			}
			panic(pathEnd{"infeasible"})
		}
		vals, err := e.sol.Values([]*Term{t})
		if err != nil {
			e.errf("concretize: %v", err)
		}
		v := e.c.BV(vals[0], t.W)
		if e.cond(s, e.c.Eq(t, v)) {
			return vals[0]
		}
	}
	e.errf("concretize(%s): too many values", what)
	return 0
}

// upper returns a small concrete K with pc ⊨ t ≤ K (unsigned), trying powers of two.
func (e *Engine) upper(s *State, t *Term, limit uint64) uint64 {
	if t.IsConst() {
		return t.Val
	}
	if u := ubound(t); u <= 64 {
		return u
	}
	for k := uint64(8); k <= limit; k *= 4 {
		if !e.sat(s, e.c.Ult(e.c.BV(k, t.W), t)) {
			return k
		}
	}
	e.errf("upper: term not bounded by %d at %s", limit, e.curPos(s))
	return 0
}

// ---------------------------------------------------------------- constants / operands

func (e *Engine) constVal(k *ssa.Const) Value {
	t := k.Type()
	if k.Value == nil {
		return e.zero(t)
	}
	switch u := t.Underlying().(type) {
	case *types.Basic:
		switch {
		case u.Info()&types.IsBoolean != 0:
			return e.c.Bool(constant.BoolVal(k.Value))
		case u.Info()&types.IsString != 0:
			return e.mkString(constant.StringVal(k.Value))
		case u.Info()&types.IsFloat != 0:
			f, _ := constant.Float64Val(k.Value)
			return FloatV{f}
		case u.Info()&types.IsInteger != 0:
			w := basicWidth(u)
			if isSigned(t) {
				return e.c.BV(uint64(k.Int64()), w)
			}
			return e.c.BV(k.Uint64(), w)
		}
	}
	panic(fmt.Sprintf("constVal: unsupported const %v : %v", k, t))
}

func (e *Engine) get(s *State, f *Frame, v ssa.Value) Value {
	switch x := v.(type) {
	case *ssa.Const:
		return e.constVal(x)
	case *ssa.Global:
		return &Pointer{Obj: e.globalObj(s, x)}
	case *ssa.Function:
		return &FuncV{Fn: x}
	case *ssa.Builtin:
		return &FuncV{Builtin: x.Name()}
	}
	i, ok := f.info.idx[v]
	if !ok {
		e.errf("get: unknown value %v in %v", v, f.fn)
	}
	r := f.locals[i]
	if r == nil {
		e.errf("get: unset local %s (%T) in %v", v.Name(), v, f.fn)
	}
	if t, ok := r.(*Term); ok && t.K != KConst && len(s.subst) > 0 {
		nt := e.simp(s, t)
		if nt != t {
			f.locals[i] = nt
		}
		return nt
	}
	return r
}

func (e *Engine) globalObj(s *State, g *ssa.Global) int {
	if id, ok := e.globals[g]; ok {
		return id
	}
	// globals are created on the base state before any fork
	sentinel := false
	if e.base != nil {
		if g.Pkg != nil && !e.inited[g.Pkg] {
			if et := g.Type().(*types.Pointer).Elem(); types.Identical(et, types.Universe.Lookup("error").Type()) {
				sentinel = true
			} else {
				e.noteUninit(g)
			}
		}
	}
	et := g.Type().(*types.Pointer).Elem()
	e.nobj++
	o := &Object{ID: e.nobj, Val: e.zero(et), T: et, owner: -1, Label: "global " + g.String()}
	if sentinel {
		// sentinel error of a package whose init is not run: a distinct opaque non-nil error
		errPkg := e.prog.ImportedPackage("errors")
		est := errPkg.Type("errorString").Type()
		e.nobj++
		eo := &Object{ID: e.nobj, Val: &StructV{Fields: []Value{e.mkString(g.String())}}, T: est, owner: -1, Label: "sentinel " + g.String()}
		s.heap[eo.ID] = eo
		if e.base != nil {
			e.base.heap[eo.ID] = eo
		}
		for _, w := range e.work {
			w.heap[eo.ID] = eo
		}
		o.Val = &IfaceV{T: types.NewPointer(est), V: &Pointer{Obj: eo.ID}}
	}
	e.globals[g] = o.ID
	// install in every live state (base + worklist + current)
	s.heap[o.ID] = o
	if e.base != nil {
		e.base.heap[o.ID] = o
	}
	for _, w := range e.work {
		w.heap[o.ID] = o
	}
	return o.ID
}

func (e *Engine) noteUninit(g *ssa.Global) {
	// zero value of a global from a package whose init was not run: allowed only for
	// packages on the lazy list (their relevant globals are zero-initialised structs).
	p := g.Pkg.Pkg.Path()
	if lazyZeroGlobals[p] || strings.HasSuffix(g.Name(), "$guard") {
		return
	}
	e.errf("global %s of uninitialised package %s", g.Name(), p)
}

func (e *Engine) set(f *Frame, v ssa.Value, val Value) {
	i, ok := f.info.idx[v]
	if !ok {
		e.errf("set: unknown value %v", v)
	}
	f.locals[i] = val
}

// ---------------------------------------------------------------- memory access

func (e *Engine) checkGen(s *State, o *Object, gen int, what string) {
	if o.PoolCap && gen != o.Gen {
		e.fail(s, "use-after-release", fmt.Sprintf("%s through a stale reference: %s was released at %s and has been handed out again", what, o.Label, o.RelPos))
	}
}

func (e *Engine) checkLive(s *State, o *Object, what string) {
	if o.Released {
		e.fail(s, "use-after-release", fmt.Sprintf("%s of %s released at %s", what, o.Label, o.RelPos))
	}
}

func (e *Engine) load(s *State, p *Pointer) Value {
	if p.IsNil() {
		e.fail(s, "panic", "nil pointer dereference")
	}
	o := s.obj(p.Obj)
	e.checkLive(s, o, "read")
	v := getPath(o.Val, p.Path)
	if p.BIdx != nil {
		e.checkGen(s, o, p.Gen, "read")
		ba, ok := v.(*ByteArr)
		if !ok {
			e.errf("load: BIdx on %T", v)
		}
		if p.ALen > 0 {
			cells := make([]*Term, p.ALen)
			for i := range cells {
				cells[i] = e.baRead(ba, e.c.Add(p.BIdx, e.c.BV(uint64(i), 64)))
			}
			return e.newCellsArr(cells)
		}
		return e.baRead(ba, p.BIdx)
	}
	return v
}

func (e *Engine) store(s *State, p *Pointer, val Value) {
	if p.IsNil() {
		e.fail(s, "panic", "nil pointer dereference")
	}
	o := s.obj(p.Obj)
	e.checkLive(s, o, "write")
	if p.BIdx != nil {
		e.checkGen(s, o, p.Gen, "write")
	}
	o = s.wobj(p.Obj)
	if p.BIdx != nil {
		ba := getPath(o.Val, p.Path).(*ByteArr)
		if src, isArr := val.(*ByteArr); isArr && p.ALen > 0 {
			for i := 0; i < p.ALen; i++ {
				ba = e.baStore(ba, e.c.Add(p.BIdx, e.c.BV(uint64(i), 64)), e.baRead(src, e.c.BV(uint64(i), 64)))
			}
			o.Val = setPath(o.Val, p.Path, ba)
			return
		}
		t, ok := val.(*Term)
		if !ok {
			e.errf("store: non-scalar into byte array")
		}
		o.Val = setPath(o.Val, p.Path, e.baStore(ba, p.BIdx, t))
		return
	}
	o.Val = setPath(o.Val, p.Path, val)
}

// arrOf returns the byte array a byte slice/string views.
func (e *Engine) arrOf(s *State, sl *SliceV) *ByteArr {
	if sl.IsStr {
		if sl.Alias != nil && sl.Alias.Obj != 0 {
			// an unsafe.String view: reading it reads the buffer it was made of
			if o, ok := s.heap[sl.Alias.Obj]; ok {
				e.checkLive(s, o, "read (through an unsafe string)")
				e.checkGen(s, o, sl.Alias.Gen, "read (through an unsafe string)")
			}
		}
		return sl.Str
	}
	if sl.Base == nil {
		return e.newFillArr(e.c.BV(0, 64), 0)
	}
	o := s.obj(sl.Base.Obj)
	e.checkLive(s, o, "read")
	e.checkGen(s, o, sl.Base.Gen, "read")
	ba, ok := getPath(o.Val, sl.Base.Path).(*ByteArr)
	if !ok {
		e.errf("arrOf: not a byte array: %T", getPath(o.Val, sl.Base.Path))
	}
	return ba
}

func (e *Engine) setArr(s *State, sl *SliceV, ba *ByteArr) {
	o := s.obj(sl.Base.Obj)
	e.checkLive(s, o, "write")
	e.checkGen(s, o, sl.Base.Gen, "write")
	o = s.wobj(sl.Base.Obj)
	o.Val = setPath(o.Val, sl.Base.Path, ba)
}

func (e *Engine) byteAt(s *State, sl *SliceV, i *Term) *Term {
	return e.baRead(e.arrOf(s, sl), e.c.Add(sl.Off, i))
}

// bytesEq builds the term "a and b have equal length and content".
func (e *Engine) bytesEq(s *State, a, b *SliceV) *Term {
	c := e.c
	leq := c.Eq(a.Len, b.Len)
	if leq.IsFalse() {
		return c.False
	}
	var n uint64
	if a.Len.IsConst() {
		n = a.Len.Val
	} else if b.Len.IsConst() {
		n = b.Len.Val
	} else {
		n = e.upper(s, a.Len, 1<<16)
	}
	aa, ab := e.arrOf(s, a), e.arrOf(s, b)
	conj := []*Term{leq}
	exact := a.Len.IsConst() || b.Len.IsConst()
	for i := uint64(0); i < n; i++ {
		it := c.BV(i, 64)
		eq := c.Eq(e.baRead(aa, c.Add(a.Off, it)), e.baRead(ab, c.Add(b.Off, it)))
		if !exact {
			eq = c.Or(c.Ule(a.Len, it), eq)
		}
		conj = append(conj, eq)
	}
	return c.And(conj...)
}

func (e *Engine) valueEq(s *State, a, b Value) *Term {
	c := e.c
	switch x := a.(type) {
	case *Term:
		y, ok := b.(*Term)
		if !ok {
			e.errf("valueEq: %T vs %T", a, b)
		}
		return c.Eq(x, y)
	case FloatV:
		return c.Bool(x.F == b.(FloatV).F)
	case *Pointer:
		y := b.(*Pointer)
		if x.IsNil() || y.IsNil() {
			return c.Bool(x.IsNil() && y.IsNil())
		}
		if x.Obj != y.Obj || len(x.Path) != len(y.Path) {
			return c.False
		}
		for i := range x.Path {
			if x.Path[i] != y.Path[i] {
				return c.False
			}
		}
		if (x.BIdx == nil) != (y.BIdx == nil) {
			return c.False
		}
		if x.BIdx != nil {
			return c.Eq(x.BIdx, y.BIdx)
		}
		return c.True
	case *IfaceV:
		y, ok := b.(*IfaceV)
		if !ok {
			e.errf("valueEq iface vs %T", b)
		}
		if x.T == nil || y.T == nil {
			return c.Bool(x.T == nil && y.T == nil)
		}
		if !types.Identical(x.T, y.T) {
			return c.False
		}
		return e.valueEq(s, x.V, y.V)
	case *SliceV:
		y := b.(*SliceV)
		if x.IsStr || y.IsStr {
			return e.bytesEq(s, x, y)
		}
		// slices compare only against nil
		if x.Base == nil && y.Base == nil {
			return c.True
		}
		if x.Base == nil || y.Base == nil {
			return c.False
		}
		e.errf("valueEq: slice comparison")
	case *MapV:
		y := b.(*MapV)
		return c.Bool(x.Obj == y.Obj)
	case *ChanV:
		y := b.(*ChanV)
		return c.Bool(x.Obj == y.Obj)
	case *FuncV:
		y := b.(*FuncV)
		xn := x.Fn == nil && x.Builtin == ""
		yn := y.Fn == nil && y.Builtin == ""
		if xn || yn {
			return c.Bool(xn && yn)
		}
		e.errf("valueEq: func comparison")
	case *StructV:
		y := b.(*StructV)
		var cj []*Term
		for i := range x.Fields {
			cj = append(cj, e.valueEq(s, x.Fields[i], y.Fields[i]))
		}
		return c.And(cj...)
	case *ArrayV:
		y := b.(*ArrayV)
		var cj []*Term
		for i := range x.Elems {
			cj = append(cj, e.valueEq(s, x.Elems[i], y.Elems[i]))
		}
		return c.And(cj...)
	case *ByteArr:
		y := b.(*ByteArr)
		n := x.Size.Val
		var cj []*Term
		for i := uint64(0); i < n; i++ {
			cj = append(cj, c.Eq(e.baRead(x, c.BV(i, 64)), e.baRead(y, c.BV(i, 64))))
		}
		return c.And(cj...)
	}
	e.errf("valueEq: unsupported %T", a)
	return nil
}

// ---------------------------------------------------------------- run loop

func (e *Engine) newFrame(fn *ssa.Function, args []Value, bindings []Value, retIdx int) *Frame {
	fi := e.fnInfo(fn)
	f := &Frame{fn: fn, info: fi, locals: make([]Value, fi.n), retIdx: retIdx, visits: map[int]int{}}
	if len(args) != len(fn.Params) {
		e.errf("call %v: %d args for %d params", fn, len(args), len(fn.Params))
	}
	for i, p := range fn.Params {
		f.locals[fi.idx[p]] = args[i]
	}
	for i, p := range fn.FreeVars {
		f.locals[fi.idx[p]] = bindings[i]
	}
	if len(fn.Blocks) == 0 {
		e.errf("call of function without body: %v", fn)
	}
	f.block = fn.Blocks[0]
	e.funcsSeen[fn.String()] = true
	return f
}

// runPath executes one state until it ends; forks are pushed on e.work.
func (e *Engine) runPath(s *State) (err error) {
	defer func() {
		if r := recover(); r != nil {
			switch x := r.(type) {
			case pathEnd:
				if e.verbose > 1 {
					fmt.Fprintf(os.Stderr, "  path %d ends: %s\n", s.id, x.why)
				}
			case engineErr:
				err = fmt.Errorf("%s\n  at %s\n  stack: %s", x.msg, e.curPos(s), strings.Join(e.stack(s), " <- "))
			default:
				err = fmt.Errorf("engine panic: %v\n  at %s\n  stack: %s\n%s", r, e.curPos(s), strings.Join(e.stack(s), " <- "), debug.Stack())
			}
		}
	}()
	for {
		if s.dead {
			return nil
		}
		g := s.g()
		if len(g.frames) == 0 || g.done {
			// goroutine finished
			g.done = true
			if !e.schedule(s, true) {
				e.pathsDone++
				return nil
			}
			continue
		}
		s.steps++
		e.instrs++
		if s.steps > e.maxSteps {
			e.errf("step budget exceeded on one path (%d)", e.maxSteps)
		}
		if e.instrs&0xfff == 0 && time.Now().After(e.deadline) {
			e.errf("wall-clock budget exceeded")
		}
		if s.pendingYield {
			// a release operation (unlock) of this goroutine has just taken effect: the alternatives in which another
			// goroutine runs first are queued; in them this goroutine resumes at the instruction it is about to execute
			s.pendingYield = false
			e.voluntary(s)
		}
		f := g.frames[len(g.frames)-1]
		in := f.block.Instrs[f.ip]
		e.step(s, f, in)
	}
}

func (e *Engine) jump(s *State, f *Frame, to *ssa.BasicBlock) {
	from := f.block
	f.visits[to.Index]++
	if f.visits[to.Index] > s.unwind {
		e.fail(s, "unwind", fmt.Sprintf("loop bound %d exceeded in %s block %d", s.unwind, f.fn.Name(), to.Index))
	}
	// phis evaluated simultaneously
	var vals []Value
	var phis []*ssa.Phi
	pi := -1
	for i, p := range to.Preds {
		if p == from {
			pi = i
			break
		}
	}
	n := 0
	for _, in := range to.Instrs {
		ph, ok := in.(*ssa.Phi)
		if !ok {
			break
		}
		phis = append(phis, ph)
		vals = append(vals, e.get(s, f, ph.Edges[pi]))
		n++
	}
	for i, ph := range phis {
		e.set(f, ph, vals[i])
	}
	f.prev = from
	f.block = to
	f.ip = n
	if f.loopHeader == to && s.loop != nil && s.loop.header == to {
		e.loopArrive(s, f)
	}
}

func (e *Engine) doReturn(s *State, f *Frame, res Value) {
	g := s.g()
	g.frames = g.frames[:len(g.frames)-1]
	if len(g.frames) == 0 {
		g.done = true
		return
	}
	caller := g.frames[len(g.frames)-1]
	if f.retIdx >= 0 {
		caller.locals[f.retIdx] = res
	} else if f.retIdx == -2 {
		caller.scratch = res
	} else if f.retIdx == -3 && s.loop != nil {
		lc := *s.loop
		lc.ret, lc.returned, lc.frame = res, true, nil
		s.loop = &lc
		if lc.retIdx >= 0 {
			caller.locals[lc.retIdx] = e.c.BV(1, 64)
		}
	}
}

func (e *Engine) step(s *State, f *Frame, in ssa.Instruction) {
	c := e.c
	switch x := in.(type) {
	case *ssa.DebugRef:
		f.ip++
	case *ssa.Jump:
		e.jump(s, f, f.block.Succs[0])
	case *ssa.If:
		cv := e.simp(s, e.get(s, f, x.Cond).(*Term))
		if !cv.IsConst() && e.tryIfConvert(s, f, x, cv) {
			return
		}
		if e.cond(s, cv) {
			e.jump(s, f, f.block.Succs[0])
		} else {
			e.jump(s, f, f.block.Succs[1])
		}
	case *ssa.Return:
		var res Value
		switch len(x.Results) {
		case 0:
		case 1:
			res = e.get(s, f, x.Results[0])
		default:
			tv := make(TupleV, len(x.Results))
			for i, r := range x.Results {
				tv[i] = e.get(s, f, r)
			}
			res = tv
		}
		e.doReturn(s, f, res)
	case *ssa.RunDefers:
		if n := len(f.defers); n > 0 {
			d := f.defers[n-1]
			f.defers = f.defers[: n-1 : n-1]
			e.invoke(s, f, d.fn, d.method, d.args, -1, nil, false)
			return
		}
		f.ip++
	case *ssa.Panic:
		v := e.get(s, f, x.X)
		msg := "explicit panic"
		if iv, ok := v.(*IfaceV); ok && iv.T != nil {
			if str, ok := e.concreteString(iv.V); ok {
				msg = "panic: " + str
			} else {
				msg = "panic(" + iv.T.String() + ")"
			}
		}
		e.fail(s, "panic", msg)
	case *ssa.Store:
		p := e.get(s, f, x.Addr).(*Pointer)
		e.store(s, p, e.get(s, f, x.Val))
		f.ip++
	case *ssa.MapUpdate:
		m := e.get(s, f, x.Map).(*MapV)
		e.mapUpdate(s, m, e.get(s, f, x.Key), e.get(s, f, x.Value))
		f.ip++
	case *ssa.Defer:
		fn, method, args := e.callParts(s, f, &x.Call)
		f.defers = append(f.defers, deferred{fn: fn, args: args, method: method})
		f.ip++
	case *ssa.Go:
		fn, method, args := e.callParts(s, f, &x.Call)
		e.spawn(s, f, fn, method, args)
	case *ssa.Send:
		e.chanSend(s, f, e.get(s, f, x.Chan).(*ChanV), e.get(s, f, x.X))
	case *ssa.Call:
		fn, method, args := e.callParts(s, f, &x.Call)
		e.invoke(s, f, fn, method, args, f.info.idx[x], x, true)
	case ssa.Value:
		v := e.evalValue(s, f, x)
		if v != nil {
			e.set(f, x, v)
			f.ip++
		}
	default:
		e.errf("unsupported instruction %T", in)
	}
	_ = c
}

// callParts evaluates callee and arguments of a call.
func (e *Engine) callParts(s *State, f *Frame, cc *ssa.CallCommon) (Value, *types.Func, []Value) {
	var args []Value
	if cc.IsInvoke() {
		recv := e.get(s, f, cc.Value)
		for _, a := range cc.Args {
			args = append(args, e.get(s, f, a))
		}
		return recv, cc.Method, args
	}
	fn := e.get(s, f, cc.Value)
	for _, a := range cc.Args {
		args = append(args, e.get(s, f, a))
	}
	return fn, nil, args
}

var tailCall = &struct{ x int }{1}

// invoke calls fn (or method on an interface receiver). advance: move ip past the call instruction.
func (e *Engine) invoke(s *State, f *Frame, fnv Value, method *types.Func, args []Value, retIdx int, site ssa.CallInstruction, advance bool) {
	var fn *ssa.Function
	var bindings []Value
	if method != nil {
		iv, ok := fnv.(*IfaceV)
		if !ok {
			e.errf("invoke on %T", fnv)
		}
		if iv.T == nil {
			if method.Pkg() != nil && isNoopPkg(method.Pkg().Path()) {
				res := method.Type().(*types.Signature).Results()
				var rv Value
				switch res.Len() {
				case 0:
				case 1:
					rv = e.zero(res.At(0).Type())
				default:
					tv := make(TupleV, res.Len())
					for i := range tv {
						tv[i] = e.zero(res.At(i).Type())
					}
					rv = tv
				}
				if retIdx >= 0 {
					f.locals[retIdx] = rv
				}
				if advance {
					f.ip++
				}
				return
			}
			e.fail(s, "panic", "nil interface method call "+method.Name())
		}
		// harness fakes may be registered natively
		fn = e.prog.LookupMethod(iv.T, method.Pkg(), method.Name())
		if fn == nil {
			e.errf("method %s not found on %v", method.Name(), iv.T)
		}
		args = append([]Value{iv.V}, args...)
	} else {
		fv, ok := fnv.(*FuncV)
		if !ok {
			e.errf("call of %T", fnv)
		}
		if fv.Builtin == "@swap" {
			sl := fv.Bindings[0].(*SliceV)
			i := e.concretize(s, args[0].(*Term), "swap i")
			j := e.concretize(s, args[1].(*Term), "swap j")
			off := e.concretize(s, sl.Off, "swap off")
			pi := &Pointer{Obj: sl.Base.Obj, Path: append(append([]int(nil), sl.Base.Path...), int(off+i))}
			pj := &Pointer{Obj: sl.Base.Obj, Path: append(append([]int(nil), sl.Base.Path...), int(off+j))}
			vi, vj := e.load(s, pi), e.load(s, pj)
			e.store(s, pi, vj)
			e.store(s, pj, vi)
			if advance {
				f.ip++
			}
			return
		}
		if fv.Builtin != "" {
			res := e.builtin(s, f, fv.Builtin, args, site)
			if retIdx >= 0 {
				f.locals[retIdx] = res
			}
			if advance {
				f.ip++
			}
			return
		}
		if fv.Fn == nil {
			e.fail(s, "panic", "call of nil func")
		}
		fn = fv.Fn
		bindings = fv.Bindings
	}
	// harness-level stubs
	if s.redirects != nil {
		if rv, ok := s.redirects[fn.String()]; ok {
			fn = rv.Fn
			bindings = rv.Bindings
		}
	}
	// package-level default models: a function VerifModel_<name with non-alphanumerics as '_'> in the harness's own
	// package stands in for an environment function in every harness of that package (e.g. VerifModel_syscall_Read)
	if e.hpkg != nil && (fn.Pkg == nil || fn.Pkg != e.hpkg) {
		if mf := e.pkgModel(fn); mf != nil {
			fn = mf
			bindings = nil
			e.usedModels = true
		}
	}
	// redirects to Go models in verifrt
	if to, ok := redirects[fn.String()]; ok {
		rt := e.prog.ImportedPackage("github.com/IrineSistiana/mosproxy/internal/verifrt")
		if rt == nil || rt.Func(to) == nil {
			e.errf("redirect target verifrt.%s missing", to)
		}
		fn = rt.Func(to)
		bindings = nil
		e.usedModels = true
	}
	// intrinsics / models
	if h := e.lookupIntrinsic(fn); h != nil {
		res, handled := h(e, s, f, fn, args, retIdx, advance)
		if handled {
			if res == tailCall {
				return
			}
			if retIdx >= 0 {
				f.locals[retIdx] = res
			}
			if advance {
				f.ip++
			}
			return
		}
	}
	if len(fn.Blocks) == 0 {
		e.errf("unmodelled external function %s", fn.String())
	}
	if !e.allowInterp(fn) {
		e.errf("function %s is outside the interpreted set and has no model", fn.String())
	}
	if advance {
		f.ip++
	}
	nf := e.newFrame(fn, args, bindings, retIdx)
	g := s.g()
	if len(g.frames) > 200 {
		e.fail(s, "panic", "call depth > 200 (unbounded recursion)")
	}
	g.frames = append(g.frames, nf)
}

// pushCall is used by intrinsics to call back into interpreted code; the result goes to retIdx of frame f.
func (e *Engine) pkgModel(fn *ssa.Function) *ssa.Function {
	if e.hpkg == nil {
		return nil
	}
	if m, ok := e.pkgModels[fn]; ok {
		return m
	}
	if e.pkgModels == nil {
		e.pkgModels = map[*ssa.Function]*ssa.Function{}
	}
	var sb strings.Builder
	sb.WriteString("VerifModel_")
	for _, r := range fn.String() {
		if r >= 'a' && r <= 'z' || r >= 'A' && r <= 'Z' || r >= '0' && r <= '9' {
			sb.WriteRune(r)
		} else {
			sb.WriteByte('_')
		}
	}
	m := e.hpkg.Func(sb.String())
	e.pkgModels[fn] = m
	return m
}

func (e *Engine) pushCall(s *State, f *Frame, fv *FuncV, args []Value, retIdx int, advance bool) {
	if advance {
		f.ip++
	}
	nf := e.newFrame(fv.Fn, args, fv.Bindings, retIdx)
	g := s.g()
	g.frames = append(g.frames, nf)
}

// ---------------------------------------------------------------- value instructions

func (e *Engine) evalValue(s *State, f *Frame, in ssa.Value) Value {
	c := e.c
	switch x := in.(type) {
	case *ssa.Alloc:
		et := x.Type().(*types.Pointer).Elem()
		o := e.newObj(s, e.zero(et), et, "alloc "+x.Comment+"@"+e.posStr(x.Pos()))
		return &Pointer{Obj: o.ID}
	case *ssa.Phi:
		e.errf("phi outside block entry")
	case *ssa.BinOp:
		return e.binop(s, x.Op, e.get(s, f, x.X), e.get(s, f, x.Y), x.X.Type(), x.Y.Type())
	case *ssa.UnOp:
		v := e.get(s, f, x.X)
		switch x.Op {
		case token.MUL:
			return e.load(s, v.(*Pointer))
		case token.NOT:
			return c.Not(v.(*Term))
		case token.SUB:
			if fv, ok := v.(FloatV); ok {
				return FloatV{-fv.F}
			}
			return c.BvNeg(v.(*Term))
		case token.XOR:
			return c.BvNot(v.(*Term))
		case token.ARROW:
			return e.chanRecv(s, f, x, v.(*ChanV), x.CommaOk)
		}
		e.errf("unop %v", x.Op)
	case *ssa.ChangeType:
		return e.get(s, f, x.X)
	case *ssa.ChangeInterface:
		return e.get(s, f, x.X)
	case *ssa.MakeInterface:
		return &IfaceV{T: x.X.Type(), V: e.get(s, f, x.X)}
	case *ssa.Convert:
		return e.convert(s, e.get(s, f, x.X), x.X.Type(), x.Type())
	case *ssa.MultiConvert:
		return e.convert(s, e.get(s, f, x.X), x.X.Type(), x.Type())
	case *ssa.Extract:
		return e.get(s, f, x.Tuple).(TupleV)[x.Index]
	case *ssa.Field:
		return e.get(s, f, x.X).(*StructV).Fields[x.Field]
	case *ssa.FieldAddr:
		p := e.get(s, f, x.X).(*Pointer)
		if p.IsNil() {
			e.fail(s, "panic", "nil pointer dereference (field address)")
		}
		np := &Pointer{Obj: p.Obj, Path: append(append([]int(nil), p.Path...), x.Field)}
		return np
	case *ssa.Index:
		av := e.get(s, f, x.X)
		idx := e.get(s, f, x.Index).(*Term)
		idx = e.toInt64(idx, x.Index.Type())
		switch a := av.(type) {
		case *ByteArr:
			e.check(s, c.Ult(idx, a.Size), "panic", "index out of range")
			return e.baRead(a, idx)
		case *ArrayV:
			e.check(s, c.Ult(idx, c.BV(uint64(len(a.Elems)), 64)), "panic", "index out of range")
			i := e.concretize(s, idx, "array index")
			return a.Elems[i]
		case *SliceV: // string index
			e.check(s, c.Ult(idx, a.Len), "panic", "index out of range")
			return e.byteAt(s, a, idx)
		}
		e.errf("index on %T", av)
	case *ssa.IndexAddr:
		xv := e.get(s, f, x.X)
		idx := e.toInt64(e.get(s, f, x.Index).(*Term), x.Index.Type())
		switch a := xv.(type) {
		case *Pointer: // *array
			if a.IsNil() {
				e.fail(s, "panic", "nil pointer dereference (index address)")
			}
			at := x.X.Type().Underlying().(*types.Pointer).Elem().Underlying().(*types.Array)
			e.check(s, c.Ult(idx, c.BV(uint64(at.Len()), 64)), "panic", "index out of range")
			if isByteType(at.Elem()) {
				if a.ALen > 0 {
					idx = c.Add(a.BIdx, idx)
				}
				if !(e.symIdx || s.symMem) && !idx.IsConst() {
					idx = c.BV(e.concretize(s, idx, "byte index"), 64)
				}
				return &Pointer{Obj: a.Obj, Path: a.Path, BIdx: idx, Gen: a.Gen}
			}
			i := e.concretize(s, idx, "array index")
			return &Pointer{Obj: a.Obj, Path: append(append([]int(nil), a.Path...), int(i))}
		case *SliceV:
			e.check(s, c.Ult(idx, a.Len), "panic", "index out of range")
			if a.Base == nil {
				e.errf("IndexAddr on nil slice passed bounds check")
			}
			et := x.X.Type().Underlying().(*types.Slice).Elem()
			if isByteType(et) {
				bi := c.Add(a.Off, idx)
				if !(e.symIdx || s.symMem) && !bi.IsConst() {
					bi = c.BV(e.concretize(s, bi, "byte index"), 64)
				}
				return &Pointer{Obj: a.Base.Obj, Path: a.Base.Path, BIdx: bi, Gen: a.Base.Gen}
			}
			i := e.concretize(s, c.Add(a.Off, idx), "slice index")
			return &Pointer{Obj: a.Base.Obj, Path: append(append([]int(nil), a.Base.Path...), int(i))}
		}
		e.errf("IndexAddr on %T", xv)
	case *ssa.Slice:
		return e.sliceOp(s, f, x)
	case *ssa.SliceToArrayPointer:
		sl := e.get(s, f, x.X).(*SliceV)
		at := x.Type().(*types.Pointer).Elem().Underlying().(*types.Array)
		e.check(s, c.Ule(c.BV(uint64(at.Len()), 64), sl.Len), "panic", "slice to array pointer: length too short")
		if sl.Base == nil {
			return &Pointer{}
		}
		if !isByteType(at.Elem()) {
			off := e.concretize(s, sl.Off, "slice-to-array offset")
			if off != 0 {
				e.errf("SliceToArrayPointer with non-zero offset (non-byte)")
			}
			return sl.Base
		}
		if sl.Off.IsConst() && sl.Off.Val == 0 && sl.Base.BIdx == nil {
			return sl.Base
		}
		return &Pointer{Obj: sl.Base.Obj, Path: sl.Base.Path, BIdx: sl.Off, Gen: sl.Base.Gen, ALen: int(at.Len())}
	case *ssa.MakeSlice:
		n := e.toInt64(e.get(s, f, x.Len).(*Term), x.Len.Type())
		cp := e.toInt64(e.get(s, f, x.Cap).(*Term), x.Cap.Type())
		e.check(s, c.And(c.Sle(c.BV(0, 64), n), c.Sle(n, cp)), "panic", "makeslice: len out of range")
		et := x.Type().Underlying().(*types.Slice).Elem()
		return e.makeSlice(s, et, n, cp, "make@"+e.posStr(x.Pos()))
	case *ssa.MakeMap:
		o := e.newObj(s, &MapObj{}, x.Type(), "map@"+e.posStr(x.Pos()))
		return &MapV{Obj: o.ID}
	case *ssa.MakeChan:
		n := e.concretize(s, e.toInt64(e.get(s, f, x.Size).(*Term), x.Size.Type()), "chan size")
		o := e.newObj(s, &ChanObj{Cap: int(n)}, x.Type(), "chan@"+e.posStr(x.Pos()))
		return &ChanV{Obj: o.ID}
	case *ssa.MakeClosure:
		var bs []Value
		for _, b := range x.Bindings {
			bs = append(bs, e.get(s, f, b))
		}
		return &FuncV{Fn: x.Fn.(*ssa.Function), Bindings: bs}
	case *ssa.Lookup:
		xv := e.get(s, f, x.X)
		if m, ok := xv.(*MapV); ok {
			v, found := e.mapLookup(s, m, e.get(s, f, x.Index))
			vt := x.X.Type().Underlying().(*types.Map).Elem()
			if v == nil {
				v = e.zero(vt)
			}
			if x.CommaOk {
				return TupleV{v, c.Bool(found)}
			}
			return v
		}
		sl := xv.(*SliceV) // string
		idx := e.toInt64(e.get(s, f, x.Index).(*Term), x.Index.Type())
		e.check(s, c.Ult(idx, sl.Len), "panic", "string index out of range")
		return e.byteAt(s, sl, idx)
	case *ssa.TypeAssert:
		iv := e.get(s, f, x.X).(*IfaceV)
		ok := false
		if iv.T != nil {
			if types.IsInterface(x.AssertedType) {
				ok = types.AssignableTo(iv.T, x.AssertedType) || types.Implements(iv.T, x.AssertedType.Underlying().(*types.Interface))
			} else {
				ok = types.Identical(iv.T, x.AssertedType)
			}
		}
		var res Value
		if ok {
			if types.IsInterface(x.AssertedType) {
				res = iv
			} else {
				res = iv.V
			}
		} else {
			res = e.zero(x.AssertedType)
		}
		if x.CommaOk {
			return TupleV{res, c.Bool(ok)}
		}
		if !ok {
			e.fail(s, "panic", fmt.Sprintf("interface conversion: %v is not %v", iv.T, x.AssertedType))
		}
		return res
	case *ssa.Range:
		return e.rangeStart(s, f, x)
	case *ssa.Next:
		return e.rangeNext(s, f, x)
	case *ssa.Select:
		return e.selectOp(s, f, x)
	}
	e.errf("unsupported value instruction %T", in)
	return nil
}

func (e *Engine) toInt64(t *Term, ty types.Type) *Term {
	if t.W == 64 {
		return t
	}
	if isSigned(ty) {
		return e.c.Sext(t, 64)
	}
	return e.c.Zext(t, 64)
}

func (e *Engine) makeSlice(s *State, et types.Type, n, cp *Term, label string) *SliceV {
	c := e.c
	if isByteType(et) {
		o := e.newObj(s, e.newFillArr(cp, 0), types.NewSlice(et), label)
		return &SliceV{Base: &Pointer{Obj: o.ID}, Off: c.BV(0, 64), Len: n, Cap: cp}
	}
	cn := e.concretize(s, cp, "make cap")
	es := make([]Value, cn)
	for i := range es {
		es[i] = e.zero(et)
	}
	o := e.newObj(s, &ArrayV{Elems: es}, types.NewSlice(et), label)
	return &SliceV{Base: &Pointer{Obj: o.ID}, Off: c.BV(0, 64), Len: n, Cap: cp}
}

func (e *Engine) sliceOp(s *State, f *Frame, x *ssa.Slice) Value {
	c := e.c
	xv := e.get(s, f, x.X)
	var lo, hi, max *Term
	if x.Low != nil {
		lo = e.toInt64(e.get(s, f, x.Low).(*Term), x.Low.Type())
	} else {
		lo = c.BV(0, 64)
	}
	if x.High != nil {
		hi = e.toInt64(e.get(s, f, x.High).(*Term), x.High.Type())
	}
	if x.Max != nil {
		max = e.toInt64(e.get(s, f, x.Max).(*Term), x.Max.Type())
	}
	var base *Pointer
	var off, ln, cp *Term
	isStr := false
	var str *ByteArr
	switch a := xv.(type) {
	case *Pointer: // *array
		if a.IsNil() {
			e.fail(s, "panic", "nil pointer dereference (slice of array)")
		}
		at := x.X.Type().Underlying().(*types.Pointer).Elem().Underlying().(*types.Array)
		base = a
		off = c.BV(0, 64)
		if a.ALen > 0 {
			base = &Pointer{Obj: a.Obj, Path: a.Path, Gen: a.Gen}
			off = a.BIdx
		}
		ln = c.BV(uint64(at.Len()), 64)
		cp = ln
	case *SliceV:
		base, off, ln, cp = a.Base, a.Off, a.Len, a.Cap
		isStr, str = a.IsStr, a.Str
	default:
		e.errf("slice of %T", xv)
	}
	limit := cp
	if isStr {
		limit = ln
	}
	if hi == nil {
		hi = ln
	}
	if max == nil {
		max = limit
	} else {
		e.check(s, c.Ule(max, limit), "panic", "slice bounds out of range (max)")
	}
	// 0 <= lo <= hi <= max (unsigned compare catches negatives)
	e.check(s, c.Ule(hi, max), "panic", "slice bounds out of range (high)")
	e.check(s, c.Ule(lo, hi), "panic", "slice bounds out of range (low)")
	if !(e.symIdx || s.symMem) {
		if !lo.IsConst() {
			lo = c.BV(e.concretize(s, lo, "slice low"), 64)
		}
		if x.High != nil && !hi.IsConst() {
			hi = c.BV(e.concretize(s, hi, "slice high"), 64)
		}
	}
	r := &SliceV{Base: base, Str: str, IsStr: isStr, Off: c.Add(off, lo), Len: c.Sub(hi, lo), Cap: c.Sub(max, lo)}
	if sv, ok := xv.(*SliceV); ok {
		r.Alias = sv.Alias
	}
	return r
}

// ---------------------------------------------------------------- binop / convert

func (e *Engine) binop(s *State, op token.Token, a, b Value, ta, tb types.Type) Value {
	c := e.c
	switch op {
	case token.EQL:
		return e.valueEq(s, a, b)
	case token.NEQ:
		return c.Not(e.valueEq(s, a, b))
	}
	if fa, ok := a.(FloatV); ok {
		fb := b.(FloatV)
		switch op {
		case token.ADD:
			return FloatV{fa.F + fb.F}
		case token.SUB:
			return FloatV{fa.F - fb.F}
		case token.MUL:
			return FloatV{fa.F * fb.F}
		case token.QUO:
			return FloatV{fa.F / fb.F}
		case token.LSS:
			return c.Bool(fa.F < fb.F)
		case token.LEQ:
			return c.Bool(fa.F <= fb.F)
		case token.GTR:
			return c.Bool(fa.F > fb.F)
		case token.GEQ:
			return c.Bool(fa.F >= fb.F)
		}
		e.errf("float op %v", op)
	}
	if sa, ok := a.(*SliceV); ok && sa.IsStr {
		sb := b.(*SliceV)
		switch op {
		case token.ADD:
			return e.strConcat(s, sa, sb)
		case token.LSS, token.LEQ, token.GTR, token.GEQ:
			x, ok1 := e.concreteString(sa)
			y, ok2 := e.concreteString(sb)
			if !ok1 || !ok2 {
				e.errf("symbolic string ordering")
			}
			switch op {
			case token.LSS:
				return c.Bool(x < y)
			case token.LEQ:
				return c.Bool(x <= y)
			case token.GTR:
				return c.Bool(x > y)
			default:
				return c.Bool(x >= y)
			}
		}
		e.errf("string op %v", op)
	}
	x, ok1 := a.(*Term)
	y, ok2 := b.(*Term)
	if !ok1 || !ok2 {
		e.errf("binop %v on %T,%T", op, a, b)
	}
	signed := isSigned(ta)
	switch op {
	case token.ADD:
		return c.Add(x, y)
	case token.SUB:
		return c.Sub(x, y)
	case token.MUL:
		return c.Mul(x, y)
	case token.QUO:
		e.check(s, c.Ne(y, c.BV(0, y.W)), "panic", "integer divide by zero")
		if signed {
			return c.bin(KSDiv, x, y)
		}
		return c.bin(KUDiv, x, y)
	case token.REM:
		e.check(s, c.Ne(y, c.BV(0, y.W)), "panic", "integer divide by zero")
		if signed {
			return c.bin(KSRem, x, y)
		}
		return c.bin(KURem, x, y)
	case token.AND:
		if x.W == 0 {
			return c.And(x, y)
		}
		return c.BvAnd(x, y)
	case token.OR:
		if x.W == 0 {
			return c.Or(x, y)
		}
		return c.BvOr(x, y)
	case token.XOR:
		return c.BvXor(x, y)
	case token.AND_NOT:
		return c.BvAnd(x, c.BvNot(y))
	case token.SHL, token.SHR:
		if isSigned(tb) {
			e.check(s, c.Sle(c.BV(0, y.W), y), "panic", "negative shift amount")
		}
		// normalise the count to x's width with saturation
		var cnt *Term
		if y.W > x.W {
			big := c.Ult(c.BV(uint64(x.W), y.W), y)
			cnt = c.Ite(big, c.BV(uint64(x.W), x.W), c.Extract(y, x.W-1, 0))
		} else {
			cnt = c.Zext(y, x.W)
		}
		if op == token.SHL {
			return c.Shl(x, cnt)
		}
		if signed {
			return c.Ashr(x, cnt)
		}
		return c.Lshr(x, cnt)
	case token.LSS:
		if signed {
			return c.Slt(x, y)
		}
		return c.Ult(x, y)
	case token.LEQ:
		if signed {
			return c.Sle(x, y)
		}
		return c.Ule(x, y)
	case token.GTR:
		if signed {
			return c.Slt(y, x)
		}
		return c.Ult(y, x)
	case token.GEQ:
		if signed {
			return c.Sle(y, x)
		}
		return c.Ule(y, x)
	}
	e.errf("binop %v", op)
	return nil
}

func (e *Engine) strConcat(s *State, a, b *SliceV) Value {
	c := e.c
	if a.Len.IsConst() && a.Len.Val == 0 {
		return b
	}
	if b.Len.IsConst() && b.Len.Val == 0 {
		return a
	}
	n := c.Add(a.Len, b.Len)
	arr := e.newFillArr(n, 0)
	arr = e.baCopy(arr, c.BV(0, 64), e.arrOf(s, a), a.Off, a.Len)
	arr = e.baCopy(arr, a.Len, e.arrOf(s, b), b.Off, b.Len)
	return &SliceV{IsStr: true, Str: arr, Off: c.BV(0, 64), Len: n, Cap: n}
}

func (e *Engine) convert(s *State, v Value, from, to types.Type) Value {
	c := e.c
	fu, tu := from.Underlying(), to.Underlying()
	if tp, ok := tu.(*types.TypeParam); ok {
		_ = tp
		e.errf("convert to type param")
	}
	switch t := tu.(type) {
	case *types.Basic:
		if t.Kind() == types.UnsafePointer {
			return v
		}
		if t.Info()&types.IsString != 0 {
			switch fv := v.(type) {
			case *SliceV:
				if fv.IsStr {
					return fv
				}
				// string([]byte): snapshot
				return &SliceV{IsStr: true, Str: e.arrOf(s, fv), Off: fv.Off, Len: fv.Len, Cap: fv.Len}
			case *Term:
				if fv.IsConst() && fv.Val < 0x80 {
					return e.mkString(string(rune(fv.Val)))
				}
				e.errf("string(rune) on symbolic/non-ascii value")
			}
		}
		if t.Info()&types.IsFloat != 0 {
			switch fv := v.(type) {
			case FloatV:
				if t.Kind() == types.Float32 {
					return FloatV{float64(float32(fv.F))}
				}
				return fv
			case *Term:
				if !fv.IsConst() {
					// symbolic int -> float: keep as tagged symbolic float (only Seconds-like uses)
					return SymFloat{T: e.toInt64(fv, from), Signed: isSigned(from)}
				}
				if isSigned(from) {
					return FloatV{float64(sext64(fv.Val, fv.W))}
				}
				return FloatV{float64(fv.Val)}
			}
		}
		if t.Info()&types.IsInteger != 0 {
			w := basicWidth(t)
			switch fv := v.(type) {
			case FloatV:
				if isSigned(to) {
					return c.BV(uint64(int64(fv.F)), w)
				}
				return c.BV(uint64(fv.F), w)
			case SymFloat:
				return c.Zext(c.Extract(fv.T, min(w, 64)-1, 0), w)
			case *Term:
				if fv.W == w {
					return fv
				}
				if fv.W > w {
					return c.Extract(fv, w-1, 0)
				}
				if isSigned(from) {
					return c.Sext(fv, w)
				}
				return c.Zext(fv, w)
			case *Pointer: // uintptr(unsafe.Pointer(p)) – opaque
				return c.BV(uint64(fv.Obj), w)
			}
		}
		if t.Info()&types.IsBoolean != 0 {
			return v
		}
	case *types.Slice:
		if sv, ok := v.(*SliceV); ok {
			if sv.IsStr {
				// []byte(string): fresh copy
				if !isByteType(t.Elem()) {
					e.errf("[]rune(string) unsupported")
				}
				arr := e.newFillArr(sv.Len, 0)
				arr = e.baCopy(arr, c.BV(0, 64), e.arrOf(s, sv), sv.Off, sv.Len)
				o := e.newObj(s, arr, to, "[]byte(string)")
				return &SliceV{Base: &Pointer{Obj: o.ID}, Off: c.BV(0, 64), Len: sv.Len, Cap: sv.Len}
			}
			return sv
		}
	case *types.Pointer:
		return v
	}
	_ = fu
	e.errf("convert %v -> %v (%T)", from, to, v)
	return nil
}

// SymFloat: an integer-valued float produced by converting a symbolic integer; only
// supports being divided by a constant and converted back (Duration.Seconds pattern).
type SymFloat struct {
	T      *Term
	Signed bool
}

// ---------------------------------------------------------------- maps

func (e *Engine) mapObj(s *State, m *MapV) *MapObj {
	return s.obj(m.Obj).Val.(*MapObj)
}

func (e *Engine) mapLookup(s *State, m *MapV, k Value) (Value, bool) {
	if m.Obj == 0 {
		return nil, false
	}
	mo := e.mapObj(s, m)
	for _, en := range mo.Entries {
		if e.cond(s, e.valueEq(s, en.K, k)) {
			return en.V, true
		}
	}
	return nil, false
}

func (e *Engine) mapUpdate(s *State, m *MapV, k, v Value) {
	if m.Obj == 0 {
		e.fail(s, "panic", "assignment to entry in nil map")
	}
	mo := e.mapObj(s, m)
	for i, en := range mo.Entries {
		if e.cond(s, e.valueEq(s, en.K, k)) {
			ne := append([]MapEntry(nil), mo.Entries...)
			ne[i].V = v
			s.wobj(m.Obj).Val = &MapObj{Entries: ne}
			return
		}
	}
	ne := append(append([]MapEntry(nil), mo.Entries...), MapEntry{k, v})
	s.wobj(m.Obj).Val = &MapObj{Entries: ne}
}

func (e *Engine) mapDelete(s *State, m *MapV, k Value) {
	if m.Obj == 0 {
		return
	}
	mo := e.mapObj(s, m)
	for i, en := range mo.Entries {
		if e.cond(s, e.valueEq(s, en.K, k)) {
			ne := append([]MapEntry(nil), mo.Entries[:i]...)
			ne = append(ne, mo.Entries[i+1:]...)
			s.wobj(m.Obj).Val = &MapObj{Entries: ne}
			return
		}
	}
}

type iterState struct {
	entries []MapEntry
	str     *SliceV
	pos     int
}

func (e *Engine) rangeStart(s *State, f *Frame, x *ssa.Range) Value {
	xv := e.get(s, f, x.X)
	it := &iterState{}
	switch a := xv.(type) {
	case *MapV:
		if a.Obj != 0 {
			it.entries = e.mapObj(s, a).Entries
		}
	case *SliceV:
		it.str = a
	default:
		e.errf("range over %T", xv)
	}
	o := e.newObj(s, it, nil, "iter")
	return &Pointer{Obj: o.ID}
}

func (e *Engine) rangeNext(s *State, f *Frame, x *ssa.Next) Value {
	c := e.c
	p := e.get(s, f, x.Iter).(*Pointer)
	it := s.obj(p.Obj).Val.(*iterState)
	if x.IsString {
		n := e.concretize(s, it.str.Len, "range string length")
		if it.pos >= int(n) {
			return TupleV{c.False, c.BV(0, 64), c.BV(0, 32)}
		}
		b := e.byteAt(s, it.str, c.BV(uint64(it.pos), 64))
		e.check(s, c.Ult(b, c.BV(0x80, 8)), "engine-limit", "range over string with non-ASCII bytes")
		nit := &iterState{str: it.str, pos: it.pos + 1}
		s.wobj(p.Obj).Val = nit
		return TupleV{c.True, c.BV(uint64(it.pos), 64), c.Zext(b, 32)}
	}
	mt := x.Iter.(*ssa.Range).X.Type().Underlying().(*types.Map)
	if it.pos >= len(it.entries) {
		return TupleV{c.False, e.zero(mt.Key()), e.zero(mt.Elem())}
	}
	en := it.entries[it.pos]
	nit := &iterState{entries: it.entries, pos: it.pos + 1}
	s.wobj(p.Obj).Val = nit
	return TupleV{c.True, en.K, en.V}
}
