package main

import (
	"fmt"
	"go/token"
	"go/types"
	"sort"
	"strings"

	"golang.org/x/tools/go/ssa"
)

type Object struct {
	ID       int
	Val      Value
	T        types.Type
	owner    int
	Released bool   // ghost: returned to a pool
	PoolCap  bool   // allocated by bytespool (cap is a valid size class)
	Label    string // where it came from (debug / reports)
	RelPos   string
	Gen      int // incremented every time a pool hands the object out again
}

type MapEntry struct{ K, V Value }
type MapObj struct {
	Entries []MapEntry
	// Extra (xsync.MapOf model only): a term added to Size() — "the table also holds this many other entries whose keys
	// differ from every key the code under test looks up" (verifrt.MapExtraSize)
	Extra *Term
}

type ChanObj struct {
	Cap    int
	Buf    []Value
	Closed bool
}

type deferred struct {
	fn   Value
	args []Value
	// invoke-mode
	method *types.Func
}

type Frame struct {
	fn      *ssa.Function
	info    *fnInfo
	block   *ssa.BasicBlock
	prev    *ssa.BasicBlock
	ip      int
	locals  []Value
	defers  []deferred
	retIdx  int // local index in the caller that receives the result (-1 none)
	visits  map[int]int
	runningDefers bool
	retVals []Value // saved results while running defers
	scratch Value
	loopHeader *ssa.BasicBlock // LoopStep: suspend this frame when control arrives here
	contIP  int
	contPhase int
	contData interface{} // iteration state of an intrinsic that calls back repeatedly (immutable, replaced per step)
}

type Goroutine struct {
	id     int
	frames []*Frame
	done   bool
	wait         *waitDesc
	resumed      bool
	resumeStep   int
	timerPending bool
	skipOnce     bool // pre-empted right AFTER the effect of a release operation: on resume that instruction is a no-op
}

type State struct {
	id     int
	heap   map[int]*Object
	gs     []*Goroutine
	cur    int // index of running goroutine
	pc     []*Term
	known  map[int]bool // decided conditions (term id -> value)
	ndCnt  map[string]int
	pools  map[string][]Value // sync.Pool contents, key = pointer string
	bpools map[int][]int      // bytespool: class cap -> released object ids (LIFO)
	unwind int
	steps  int
	reached map[string]bool
	nd     []ndRec // nondet sources created on this path (for counterexamples)
	ghost  map[string]int
	gterm  map[string]*Term // term-valued ghosts (e.g. the ttl last handed to the otter model)
	sched  []int
	nSched int
	dead   bool
	trace  []string
	subst  map[int]*Term
	lastNow *Term
	symMem  bool
	loop    *loopCtx
	redirects map[string]*FuncV
	switchesLeft int
	preemptSync  bool
	pendingYield bool // a release operation just took effect: offer a context switch before the next instruction
	noTimers     bool
	mvars  []*Term
	model  *Model
	memo   map[int]*Term
}

type ndRec struct {
	Tag  string
	T    *Term   // scalar
	Len  *Term   // for byte strings
	Arr  *ByteArr
	Max  int
}

type fnInfo struct {
	idx map[ssa.Value]int
	n   int
}

func (e *Engine) fnInfo(fn *ssa.Function) *fnInfo {
	if fi, ok := e.finfo[fn]; ok {
		return fi
	}
	fi := &fnInfo{idx: map[ssa.Value]int{}}
	for _, p := range fn.Params {
		fi.idx[p] = fi.n
		fi.n++
	}
	for _, p := range fn.FreeVars {
		fi.idx[p] = fi.n
		fi.n++
	}
	for _, b := range fn.Blocks {
		for _, in := range b.Instrs {
			if v, ok := in.(ssa.Value); ok {
				fi.idx[v] = fi.n
				fi.n++
			}
		}
	}
	e.finfo[fn] = fi
	return fi
}

func (s *State) clone(e *Engine) *State {
	// neither side may keep writing in place into objects created before the fork
	e.nstate++
	s.id = e.nstate
	e.nstate++
	n := &State{id: e.nstate, cur: s.cur, unwind: s.unwind, steps: s.steps - 1, nSched: s.nSched}
	n.heap = make(map[int]*Object, len(s.heap))
	for k, v := range s.heap {
		n.heap[k] = v
	}
	n.pc = append([]*Term(nil), s.pc...)
	n.known = make(map[int]bool, len(s.known))
	for k, v := range s.known {
		n.known[k] = v
	}
	n.ndCnt = make(map[string]int, len(s.ndCnt))
	for k, v := range s.ndCnt {
		n.ndCnt[k] = v
	}
	n.pools = make(map[string][]Value, len(s.pools))
	for k, v := range s.pools {
		n.pools[k] = v[:len(v):len(v)]
	}
	n.bpools = make(map[int][]int, len(s.bpools))
	for k, v := range s.bpools {
		n.bpools[k] = v[:len(v):len(v)]
	}
	n.reached = make(map[string]bool, len(s.reached))
	for k, v := range s.reached {
		n.reached[k] = v
	}
	n.ghost = make(map[string]int, len(s.ghost))
	for k, v := range s.ghost {
		n.ghost[k] = v
	}
	if len(s.subst) > 0 {
		n.subst = make(map[int]*Term, len(s.subst))
		for k, v := range s.subst {
			n.subst[k] = v
		}
	}
	if len(s.gterm) > 0 {
		n.gterm = make(map[string]*Term, len(s.gterm))
		for k, v := range s.gterm {
			n.gterm[k] = v
		}
	}
	n.lastNow = s.lastNow
	n.symMem = s.symMem
	if s.loop != nil {
		lc := *s.loop
		if lc.frame != nil {
			nf := *lc.frame
			nf.locals = append([]Value(nil), lc.frame.locals...)
			nf.defers = lc.frame.defers[:len(lc.frame.defers):len(lc.frame.defers)]
			nf.visits = make(map[int]int, len(lc.frame.visits))
			for k, v := range lc.frame.visits {
				nf.visits[k] = v
			}
			lc.frame = &nf
		}
		n.loop = &lc
	}
	n.redirects = s.redirects
	n.switchesLeft, n.preemptSync, n.noTimers = s.switchesLeft, s.preemptSync, s.noTimers
	n.pendingYield = s.pendingYield
	n.nd = s.nd[:len(s.nd):len(s.nd)]
	n.mvars = s.mvars[:len(s.mvars):len(s.mvars)]
	n.model = s.model
	n.sched = s.sched[:len(s.sched):len(s.sched)]
	n.trace = s.trace[:len(s.trace):len(s.trace)]
	n.gs = make([]*Goroutine, len(s.gs))
	for i, g := range s.gs {
		ng := &Goroutine{id: g.id, done: g.done, wait: g.wait, resumed: g.resumed, resumeStep: g.resumeStep, timerPending: g.timerPending, skipOnce: g.skipOnce}
		ng.frames = make([]*Frame, len(g.frames))
		for j, f := range g.frames {
			nf := *f
			nf.locals = append([]Value(nil), f.locals...)
			nf.defers = f.defers[:len(f.defers):len(f.defers)]
			nf.visits = make(map[int]int, len(f.visits))
			for k, v := range f.visits {
				nf.visits[k] = v
			}
			ng.frames[j] = &nf
		}
		n.gs[i] = ng
	}
	return n
}

func (s *State) g() *Goroutine { return s.gs[s.cur] }
func (s *State) top() *Frame {
	g := s.g()
	return g.frames[len(g.frames)-1]
}

// ---------------------------------------------------------------- heap

func (e *Engine) newObj(s *State, v Value, t types.Type, label string) *Object {
	e.nobj++
	o := &Object{ID: e.nobj, Val: v, T: t, owner: s.id, Label: label}
	s.heap[o.ID] = o
	if e.dbgLabels != nil {
		e.dbgLabels[o.ID] = fmt.Sprintf("%s (state %d)", label, s.id)
	}
	return o
}

func (s *State) obj(id int) *Object {
	o := s.heap[id]
	if o == nil {
		panic(engineErr{fmt.Sprintf("dangling object %d in state %d: %s", id, s.id, dbgLabelsG[id])})
	}
	return o
}

// wobj returns a writable copy of the object.
func (s *State) wobj(id int) *Object {
	o := s.obj(id)
	if o.owner != s.id {
		n := *o
		n.owner = s.id
		s.heap[id] = &n
		return &n
	}
	return o
}

func getPath(v Value, path []int) Value {
	for _, i := range path {
		switch x := v.(type) {
		case *StructV:
			v = x.Fields[i]
		case *ArrayV:
			v = x.Elems[i]
		default:
			panic(fmt.Sprintf("getPath: cannot index %T", v))
		}
	}
	return v
}

func setPath(v Value, path []int, nv Value) Value {
	if len(path) == 0 {
		return nv
	}
	i := path[0]
	switch x := v.(type) {
	case *StructV:
		fs := append([]Value(nil), x.Fields...)
		fs[i] = setPath(fs[i], path[1:], nv)
		return &StructV{Fields: fs}
	case *ArrayV:
		es := append([]Value(nil), x.Elems...)
		es[i] = setPath(es[i], path[1:], nv)
		return &ArrayV{Elems: es}
	}
	panic(fmt.Sprintf("setPath: cannot index %T", v))
}

type violation struct {
	Kind    string
	Msg     string
	Pos     string
	Harness string
	Model   map[string]interface{}
	Stack   []string
}

func (e *Engine) posStr(p token.Pos) string {
	if !p.IsValid() {
		return "?"
	}
	ps := e.prog.Fset.Position(p)
	return fmt.Sprintf("%s:%d", strings.TrimPrefix(ps.Filename, "/repo/"), ps.Line)
}

func (e *Engine) curPos(s *State) string {
	g := s.g()
	for i := len(g.frames) - 1; i >= 0; i-- {
		f := g.frames[i]
		if f.block != nil && f.ip < len(f.block.Instrs) {
			if p := f.block.Instrs[f.ip].Pos(); p.IsValid() {
				return e.posStr(p)
			}
		}
		// fall back to any earlier instruction with a position
		if f.block != nil {
			for j := f.ip; j >= 0 && j < len(f.block.Instrs); j-- {
				if p := f.block.Instrs[j].Pos(); p.IsValid() {
					return e.posStr(p)
				}
			}
		}
		if f.fn.Pos().IsValid() {
			return e.posStr(f.fn.Pos()) + "(" + f.fn.Name() + ")"
		}
	}
	return "?"
}

func (e *Engine) stack(s *State) []string {
	var out []string
	g := s.g()
	for i := len(g.frames) - 1; i >= 0; i-- {
		f := g.frames[i]
		out = append(out, f.fn.String())
	}
	return out
}

func sortedKeys(m map[string]bool) []string {
	var ks []string
	for k := range m {
		ks = append(ks, k)
	}
	sort.Strings(ks)
	return ks
}
