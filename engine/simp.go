package main

// Path-local simplification: facts of the form (term == const) learned from the path
// condition are substituted into operands so that implied-constant offsets/lengths fold.

func (s *State) learn(e *Engine, c *Term, val bool) {
	if c.IsConst() {
		return
	}
	if s.subst == nil {
		s.subst = map[int]*Term{}
	}
	s.subst[c.ID] = e.c.Bool(val)
	if c.K == KNot {
		s.subst[c.Args[0].ID] = e.c.Bool(!val)
	}
	if val && c.K == KEq {
		a, b := c.Args[0], c.Args[1]
		if b.IsConst() && !a.IsConst() {
			s.subst[a.ID] = b
		} else if a.IsConst() && !b.IsConst() {
			s.subst[b.ID] = a
		}
	}
	if val && c.K == KAnd {
		for _, a := range c.Args {
			s.learn(e, a, true)
		}
	}
	if !val && c.K == KOr {
		for _, a := range c.Args {
			s.learn(e, a, false)
		}
	}
	s.memo = nil
}

func (e *Engine) simp(s *State, t *Term) *Term {
	if len(s.subst) == 0 || t.K == KConst {
		return t
	}
	if s.memo == nil {
		s.memo = map[int]*Term{}
	}
	return e.simpRec(s, t)
}

func (e *Engine) simpRec(s *State, t *Term) *Term {
	if t.K == KConst {
		return t
	}
	if r, ok := s.memo[t.ID]; ok {
		return r
	}
	if r, ok := s.subst[t.ID]; ok {
		s.memo[t.ID] = r
		return r
	}
	if len(t.Args) == 0 {
		s.memo[t.ID] = t
		return t
	}
	c := e.c
	changed := false
	args := make([]*Term, len(t.Args))
	for i, a := range t.Args {
		args[i] = e.simpRec(s, a)
		if args[i] != a {
			changed = true
		}
	}
	r := t
	if changed {
		switch t.K {
		case KUF:
			r = c.UF(t.Name, t.W, args...)
		case KNot:
			r = c.Not(args[0])
		case KAnd:
			r = c.And(args...)
		case KOr:
			r = c.Or(args...)
		case KIte:
			r = c.Ite(args[0], args[1], args[2])
		case KEq:
			r = c.Eq(args[0], args[1])
		case KBvNot:
			r = c.BvNot(args[0])
		case KBvNeg:
			r = c.BvNeg(args[0])
		case KUlt, KUle, KSlt, KSle:
			r = c.cmp(t.K, args[0], args[1])
		case KConcat:
			r = c.Concat(args[0], args[1])
		case KExtract:
			r = c.Extract(args[0], int(t.Val>>8), int(t.Val&0xff))
		case KZext:
			r = c.Zext(args[0], t.W)
		case KSext:
			r = c.Sext(args[0], t.W)
		default:
			r = c.bin(t.K, args[0], args[1])
		}
		if r != t {
			if r2, ok := s.subst[r.ID]; ok {
				r = r2
			}
		}
	}
	s.memo[t.ID] = r
	return r
}
