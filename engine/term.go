package main

// Hash-consed term DAG over Bool and fixed-width bit-vectors (width 1..64),
// with constant folding / light simplification and SMT-LIB2 printing.

import (
	"fmt"
	"math/bits"
	"strconv"
	"strings"
)

type Kind uint8

const (
	KConst Kind = iota
	KVar
	KUF
	KNot
	KAnd
	KOr
	KIte
	KEq
	KBvNot
	KBvNeg
	KAdd
	KSub
	KMul
	KUDiv
	KURem
	KSDiv
	KSRem
	KBvAnd
	KBvOr
	KBvXor
	KShl
	KLshr
	KAshr
	KUlt
	KUle
	KSlt
	KSle
	KConcat
	KExtract
	KZext
	KSext
)

var kindName = map[Kind]string{
	KNot: "not", KAnd: "and", KOr: "or", KIte: "ite", KEq: "=",
	KBvNot: "bvnot", KBvNeg: "bvneg", KAdd: "bvadd", KSub: "bvsub", KMul: "bvmul",
	KUDiv: "bvudiv", KURem: "bvurem", KSDiv: "bvsdiv", KSRem: "bvsrem",
	KBvAnd: "bvand", KBvOr: "bvor", KBvXor: "bvxor", KShl: "bvshl", KLshr: "bvlshr", KAshr: "bvashr",
	KUlt: "bvult", KUle: "bvule", KSlt: "bvslt", KSle: "bvsle", KConcat: "concat",
}

// Term: W==0 => Bool, else bit-vector of width W.
type Term struct {
	ID   int
	K    Kind
	W    int
	Val  uint64 // const value; extract: hi<<8|lo
	Name string
	Args []*Term
	hasUF bool
}

type Ctx struct {
	tab   map[string]*Term
	terms []*Term
	vars  []*Term          // declaration order
	ufs   map[string][]int // name -> arg widths + result width (last)
	ufOrd []string
	True  *Term
	False *Term
	nfresh int
}

func NewCtx() *Ctx {
	c := &Ctx{tab: map[string]*Term{}, ufs: map[string][]int{}}
	c.True = c.mk(&Term{K: KConst, W: 0, Val: 1})
	c.False = c.mk(&Term{K: KConst, W: 0, Val: 0})
	return c
}

func (c *Ctx) mk(t *Term) *Term {
	var sb strings.Builder
	sb.WriteByte(byte(t.K))
	sb.WriteByte(byte(t.W))
	sb.WriteString(strconv.FormatUint(t.Val, 16))
	sb.WriteByte('|')
	sb.WriteString(t.Name)
	for _, a := range t.Args {
		sb.WriteByte(',')
		sb.WriteString(strconv.Itoa(a.ID))
	}
	k := sb.String()
	if o, ok := c.tab[k]; ok {
		return o
	}
	t.ID = len(c.terms)
	for _, a := range t.Args {
		if a.hasUF {
			t.hasUF = true
		}
	}
	if t.K == KUF {
		t.hasUF = true
	}
	c.terms = append(c.terms, t)
	c.tab[k] = t
	if t.K == KVar {
		c.vars = append(c.vars, t)
	}
	return t
}

func mask(w int) uint64 {
	if w >= 64 {
		return ^uint64(0)
	}
	return (uint64(1) << uint(w)) - 1
}

func sext64(v uint64, w int) int64 {
	if w >= 64 {
		return int64(v)
	}
	sh := uint(64 - w)
	return int64(v<<sh) >> sh
}

func (t *Term) IsConst() bool { return t.K == KConst }
func (t *Term) IsTrue() bool  { return t.K == KConst && t.W == 0 && t.Val == 1 }
func (t *Term) IsFalse() bool { return t.K == KConst && t.W == 0 && t.Val == 0 }

func (c *Ctx) BV(v uint64, w int) *Term {
	if w <= 0 || w > 64 {
		panic(fmt.Sprintf("bad width %d", w))
	}
	return c.mk(&Term{K: KConst, W: w, Val: v & mask(w)})
}
func (c *Ctx) Bool(b bool) *Term {
	if b {
		return c.True
	}
	return c.False
}
func (c *Ctx) Var(name string, w int) *Term {
	return c.mk(&Term{K: KVar, W: w, Name: name})
}
func (c *Ctx) Fresh(prefix string, w int) *Term {
	c.nfresh++
	return c.Var(fmt.Sprintf("%s!%d", prefix, c.nfresh), w)
}
func (c *Ctx) FreshName(prefix string) string {
	c.nfresh++
	return fmt.Sprintf("%s!%d", prefix, c.nfresh)
}
func (c *Ctx) UF(name string, resW int, args ...*Term) *Term {
	if _, ok := c.ufs[name]; !ok {
		sig := []int{}
		for _, a := range args {
			sig = append(sig, a.W)
		}
		sig = append(sig, resW)
		c.ufs[name] = sig
		c.ufOrd = append(c.ufOrd, name)
	}
	return c.mk(&Term{K: KUF, W: resW, Name: name, Args: args})
}

func (c *Ctx) Not(a *Term) *Term {
	if a.W != 0 {
		panic("Not on bv")
	}
	if a.IsConst() {
		return c.Bool(a.Val == 0)
	}
	if a.K == KNot {
		return a.Args[0]
	}
	return c.mk(&Term{K: KNot, Args: []*Term{a}})
}

func (c *Ctx) And(as ...*Term) *Term {
	var out []*Term
	seen := map[int]bool{}
	for _, a := range as {
		if a.W != 0 {
			panic("And on bv")
		}
		if a.IsFalse() {
			return c.False
		}
		if a.IsTrue() {
			continue
		}
		if a.K == KAnd {
			for _, b := range a.Args {
				if !seen[b.ID] {
					seen[b.ID] = true
					out = append(out, b)
				}
			}
			continue
		}
		if !seen[a.ID] {
			seen[a.ID] = true
			out = append(out, a)
		}
	}
	for _, a := range out {
		if a.K == KNot && seen[a.Args[0].ID] {
			return c.False
		}
	}
	if len(out) == 0 {
		return c.True
	}
	if len(out) == 1 {
		return out[0]
	}
	return c.mk(&Term{K: KAnd, Args: out})
}

func (c *Ctx) Or(as ...*Term) *Term {
	var out []*Term
	seen := map[int]bool{}
	for _, a := range as {
		if a.W != 0 {
			panic("Or on bv")
		}
		if a.IsTrue() {
			return c.True
		}
		if a.IsFalse() {
			continue
		}
		if a.K == KOr {
			for _, b := range a.Args {
				if !seen[b.ID] {
					seen[b.ID] = true
					out = append(out, b)
				}
			}
			continue
		}
		if !seen[a.ID] {
			seen[a.ID] = true
			out = append(out, a)
		}
	}
	for _, a := range out {
		if a.K == KNot && seen[a.Args[0].ID] {
			return c.True
		}
	}
	if len(out) == 0 {
		return c.False
	}
	if len(out) == 1 {
		return out[0]
	}
	return c.mk(&Term{K: KOr, Args: out})
}

func (c *Ctx) Implies(a, b *Term) *Term { return c.Or(c.Not(a), b) }

func (c *Ctx) Ite(cond, a, b *Term) *Term {
	if a.W != b.W {
		panic(fmt.Sprintf("ite width mismatch %d %d", a.W, b.W))
	}
	if cond.IsTrue() {
		return a
	}
	if cond.IsFalse() {
		return b
	}
	if a == b {
		return a
	}
	if a.W == 0 {
		if a.IsTrue() && b.IsFalse() {
			return cond
		}
		if a.IsFalse() && b.IsTrue() {
			return c.Not(cond)
		}
		if a.IsTrue() {
			return c.Or(cond, b)
		}
		if a.IsFalse() {
			return c.And(c.Not(cond), b)
		}
		if b.IsTrue() {
			return c.Or(c.Not(cond), a)
		}
		if b.IsFalse() {
			return c.And(cond, a)
		}
	}
	if a.W == 64 {
		if r := c.tickIte(cond, a, b); r != nil {
			return r
		}
	}
	// ite(c, x, ite(c, y, z)) = ite(c, x, z)
	if b.K == KIte && b.Args[0] == cond {
		return c.Ite(cond, a, b.Args[2])
	}
	if a.K == KIte && a.Args[0] == cond {
		return c.Ite(cond, a.Args[1], b)
	}
	return c.mk(&Term{K: KIte, W: a.W, Args: []*Term{cond, a, b}})
}

func (c *Ctx) Eq(a, b *Term) *Term {
	if a.W != b.W {
		panic(fmt.Sprintf("eq width mismatch %d %d", a.W, b.W))
	}
	if a == b {
		return c.True
	}
	if a.IsConst() && b.IsConst() {
		return c.Bool(a.Val == b.Val)
	}
	if a.W == 0 {
		if a.IsConst() {
			a, b = b, a
		}
		if b.IsTrue() {
			return a
		}
		if b.IsFalse() {
			return c.Not(a)
		}
	}
	if a.W == 64 {
		if r := c.tickEq(a, b); r != nil {
			return r
		}
	}
	if a.IsConst() {
		a, b = b, a
	}
	// eq(ite(c, k1, k2), k) with constants
	if b.IsConst() && a.K == KIte {
		x, y := a.Args[1], a.Args[2]
		if x.IsConst() || y.IsConst() {
			return c.Ite(a.Args[0], c.Eq(x, b), c.Eq(y, b))
		}
	}
	// eq(zext(x), k)
	if b.IsConst() && a.K == KZext {
		x := a.Args[0]
		if b.Val > mask(x.W) {
			return c.False
		}
		return c.Eq(x, c.BV(b.Val, x.W))
	}
	// eq(x + k1, k2) => eq(x, k2-k1)
	if b.IsConst() && a.K == KAdd && a.Args[1].IsConst() {
		return c.Eq(a.Args[0], c.BV(b.Val-a.Args[1].Val, a.W))
	}
	if a.ID > b.ID && !b.IsConst() {
		a, b = b, a
	}
	return c.mk(&Term{K: KEq, Args: []*Term{a, b}})
}

func (c *Ctx) Ne(a, b *Term) *Term { return c.Not(c.Eq(a, b)) }

func (c *Ctx) bin(k Kind, a, b *Term) *Term {
	if a.W != b.W || a.W == 0 {
		panic(fmt.Sprintf("binop %s width mismatch %d %d", kindName[k], a.W, b.W))
	}
	w := a.W
	if a.IsConst() && b.IsConst() {
		x, y := a.Val, b.Val
		var r uint64
		switch k {
		case KAdd:
			r = x + y
		case KSub:
			r = x - y
		case KMul:
			r = x * y
		case KUDiv:
			if y == 0 {
				r = mask(w)
			} else {
				r = x / y
			}
		case KURem:
			if y == 0 {
				r = x
			} else {
				r = x % y
			}
		case KSDiv:
			sx, sy := sext64(x, w), sext64(y, w)
			if sy == 0 {
				if sx >= 0 {
					r = mask(w)
				} else {
					r = 1
				}
			} else if sy == -1 {
				r = uint64(-sx)
			} else {
				r = uint64(sx / sy)
			}
		case KSRem:
			sx, sy := sext64(x, w), sext64(y, w)
			if sy == 0 {
				r = x
			} else if sy == -1 {
				r = 0
			} else {
				r = uint64(sx % sy)
			}
		case KBvAnd:
			r = x & y
		case KBvOr:
			r = x | y
		case KBvXor:
			r = x ^ y
		case KShl:
			if y >= uint64(w) {
				r = 0
			} else {
				r = x << y
			}
		case KLshr:
			if y >= uint64(w) {
				r = 0
			} else {
				r = x >> y
			}
		case KAshr:
			sx := sext64(x, w)
			if y >= uint64(w) {
				if sx < 0 {
					r = mask(w)
				} else {
					r = 0
				}
			} else {
				r = uint64(sx >> y)
			}
		}
		return c.BV(r, w)
	}
	if w == 64 {
		switch k {
		case KAdd, KSub:
			if r := c.tickBin(k, a, b); r != nil {
				return r
			}
		case KMul:
			if a.IsConst() {
				a, b = b, a
			}
			if r := c.tickMul(a, b); r != nil {
				return r
			}
		case KAshr, KLshr:
			if r := c.tickShift(a, b); r != nil {
				return r
			}
		}
	}
	switch k {
	case KAdd:
		if a.IsConst() {
			a, b = b, a
		}
		if b.IsConst() {
			if b.Val == 0 {
				return a
			}
			if a.K == KAdd && a.Args[1].IsConst() {
				return c.bin(KAdd, a.Args[0], c.BV(a.Args[1].Val+b.Val, w))
			}
			if a.K == KIte && a.Args[1].IsConst() && a.Args[2].IsConst() {
				return c.Ite(a.Args[0], c.bin(KAdd, a.Args[1], b), c.bin(KAdd, a.Args[2], b))
			}
		}
	case KSub:
		if b.IsConst() {
			return c.bin(KAdd, a, c.BV(-b.Val, w))
		}
		if a == b {
			return c.BV(0, w)
		}
		if a.K == KAdd {
			if a.Args[0] == b {
				return a.Args[1]
			}
			if a.Args[1] == b {
				return a.Args[0]
			}
		}
		// (x + k) - x = k ; (x+k1) - (x+k2)
		ab, ak := splitAddConst(a)
		bb, bk := splitAddConst(b)
		if ab == bb {
			return c.BV(ak-bk, w)
		}
	case KMul:
		if a.IsConst() {
			a, b = b, a
		}
		if b.IsConst() {
			if b.Val == 0 {
				return b
			}
			if b.Val == 1 {
				return a
			}
		}
	case KBvAnd:
		if a.IsConst() {
			a, b = b, a
		}
		if b.IsConst() {
			if b.Val == 0 {
				return b
			}
			if b.Val == mask(w) {
				return a
			}
			// and(zext(x), k) where k covers x's bits
			if a.K == KZext && b.Val&mask(a.Args[0].W) == mask(a.Args[0].W) {
				return a
			}
		}
		if a == b {
			return a
		}
	case KBvOr:
		if a.IsConst() {
			a, b = b, a
		}
		if b.IsConst() {
			if b.Val == 0 {
				return a
			}
			if b.Val == mask(w) {
				return b
			}
		}
		if a == b {
			return a
		}
	case KBvXor:
		if a.IsConst() {
			a, b = b, a
		}
		if b.IsConst() && b.Val == 0 {
			return a
		}
		if a == b {
			return c.BV(0, w)
		}
	case KShl, KLshr, KAshr:
		if b.IsConst() && b.Val == 0 {
			return a
		}
		if b.IsConst() && b.Val >= uint64(w) && k != KAshr {
			return c.BV(0, w)
		}
		// lshr(zext(x), k>=wx) = 0
		if k == KLshr && b.IsConst() && a.K == KZext && b.Val >= uint64(a.Args[0].W) {
			return c.BV(0, w)
		}
	}
	return c.mk(&Term{K: k, W: w, Args: []*Term{a, b}})
}

func splitAddConst(t *Term) (*Term, uint64) {
	if t.K == KAdd && t.Args[1].IsConst() {
		return t.Args[0], t.Args[1].Val
	}
	return t, 0
}

func (c *Ctx) Add(a, b *Term) *Term   { return c.bin(KAdd, a, b) }
func (c *Ctx) Sub(a, b *Term) *Term   { return c.bin(KSub, a, b) }
func (c *Ctx) Mul(a, b *Term) *Term   { return c.bin(KMul, a, b) }
func (c *Ctx) BvAnd(a, b *Term) *Term { return c.bin(KBvAnd, a, b) }
func (c *Ctx) BvOr(a, b *Term) *Term  { return c.bin(KBvOr, a, b) }
func (c *Ctx) BvXor(a, b *Term) *Term { return c.bin(KBvXor, a, b) }
func (c *Ctx) Shl(a, b *Term) *Term   { return c.bin(KShl, a, b) }
func (c *Ctx) Lshr(a, b *Term) *Term  { return c.bin(KLshr, a, b) }
func (c *Ctx) Ashr(a, b *Term) *Term  { return c.bin(KAshr, a, b) }

func (c *Ctx) BvNot(a *Term) *Term {
	if a.IsConst() {
		return c.BV(^a.Val, a.W)
	}
	if a.K == KBvNot {
		return a.Args[0]
	}
	return c.mk(&Term{K: KBvNot, W: a.W, Args: []*Term{a}})
}
func (c *Ctx) BvNeg(a *Term) *Term {
	if a.IsConst() {
		return c.BV(-a.Val, a.W)
	}
	return c.mk(&Term{K: KBvNeg, W: a.W, Args: []*Term{a}})
}

// unsigned upper bound of a term derivable syntactically (for cheap comparison folding)
func ubound(t *Term) uint64 {
	switch t.K {
	case KConst:
		return t.Val
	case KZext:
		return ubound(t.Args[0])
	case KIte:
		a, b := ubound(t.Args[1]), ubound(t.Args[2])
		if a > b {
			return a
		}
		return b
	case KBvAnd:
		a, b := ubound(t.Args[0]), ubound(t.Args[1])
		if a < b {
			return a
		}
		return b
	case KLshr:
		if t.Args[1].IsConst() && t.Args[1].Val < 64 {
			return ubound(t.Args[0]) >> t.Args[1].Val
		}
	case KURem:
		if t.Args[1].IsConst() && t.Args[1].Val > 0 {
			return t.Args[1].Val - 1
		}
	}
	return mask(t.W)
}

func (c *Ctx) cmp(k Kind, a, b *Term) *Term {
	if a.W != b.W || a.W == 0 {
		panic(fmt.Sprintf("cmp %s width mismatch %d %d", kindName[k], a.W, b.W))
	}
	w := a.W
	if a.IsConst() && b.IsConst() {
		switch k {
		case KUlt:
			return c.Bool(a.Val < b.Val)
		case KUle:
			return c.Bool(a.Val <= b.Val)
		case KSlt:
			return c.Bool(sext64(a.Val, w) < sext64(b.Val, w))
		case KSle:
			return c.Bool(sext64(a.Val, w) <= sext64(b.Val, w))
		}
	}
	if a == b {
		return c.Bool(k == KUle || k == KSle)
	}
	// canonical forms: only Ule / Sle are built; x<y == !(y<=x)
	if k == KUlt {
		return c.Not(c.cmp(KUle, b, a))
	}
	if k == KSlt {
		return c.Not(c.cmp(KSle, b, a))
	}
	// push comparison through ite of constants
	if b.IsConst() && a.K == KIte && a.Args[1].IsConst() && a.Args[2].IsConst() {
		return c.Ite(a.Args[0], c.cmp(k, a.Args[1], b), c.cmp(k, a.Args[2], b))
	}
	if a.IsConst() && b.K == KIte && b.Args[1].IsConst() && b.Args[2].IsConst() {
		return c.Ite(b.Args[0], c.cmp(k, a, b.Args[1]), c.cmp(k, a, b.Args[2]))
	}
	if w == 64 {
		if _, isT := c.isMulT(a); isT || b.K == KMul {
			if r := c.tickCmp(k, a, b); r != nil {
				return r
			}
		}
	}
	ua, ub := ubound(a), ubound(b)
	half := uint64(1) << uint(w-1)
	if k == KSle && ua < half && ub < half {
		k = KUle
	}
	if k == KUle {
		if a.IsConst() && a.Val == 0 {
			return c.True
		}
		if b.IsConst() && ua <= b.Val {
			return c.True
		}
		if a.IsConst() && a.Val > ub {
			return c.False
		}
		// compare inside zero-extensions of equal width
		if a.K == KZext && b.K == KZext && a.Args[0].W == b.Args[0].W {
			return c.cmp(KUle, a.Args[0], b.Args[0])
		}
		if a.K == KZext && b.IsConst() {
			x := a.Args[0]
			if b.Val >= mask(x.W) {
				return c.True
			}
			return c.cmp(KUle, x, c.BV(b.Val, x.W))
		}
		if b.K == KZext && a.IsConst() {
			x := b.Args[0]
			if a.Val > mask(x.W) {
				return c.False
			}
			return c.cmp(KUle, c.BV(a.Val, x.W), x)
		}
	}
	return c.mk(&Term{K: k, Args: []*Term{a, b}})
}

func (c *Ctx) Ult(a, b *Term) *Term { return c.cmp(KUlt, a, b) }
func (c *Ctx) Ule(a, b *Term) *Term { return c.cmp(KUle, a, b) }
func (c *Ctx) Slt(a, b *Term) *Term { return c.cmp(KSlt, a, b) }
func (c *Ctx) Sle(a, b *Term) *Term { return c.cmp(KSle, a, b) }

func (c *Ctx) Extract(a *Term, hi, lo int) *Term {
	if hi < lo || hi >= a.W {
		panic("bad extract")
	}
	w := hi - lo + 1
	if w == a.W {
		return a
	}
	if a.IsConst() {
		return c.BV(a.Val>>uint(lo), w)
	}
	switch a.K {
	case KZext:
		x := a.Args[0]
		if hi < x.W {
			return c.Extract(x, hi, lo)
		}
		if lo >= x.W {
			return c.BV(0, w)
		}
		if lo == 0 {
			return c.Zext(x, w)
		}
	case KSext:
		x := a.Args[0]
		if hi < x.W {
			return c.Extract(x, hi, lo)
		}
	case KConcat:
		h, l := a.Args[0], a.Args[1]
		if hi < l.W {
			return c.Extract(l, hi, lo)
		}
		if lo >= l.W {
			return c.Extract(h, hi-l.W, lo-l.W)
		}
	case KExtract:
		olo := int(a.Val & 0xff)
		return c.Extract(a.Args[0], hi+olo, lo+olo)
	case KIte:
		if a.Args[1].IsConst() || a.Args[2].IsConst() {
			return c.Ite(a.Args[0], c.Extract(a.Args[1], hi, lo), c.Extract(a.Args[2], hi, lo))
		}
	case KBvAnd, KBvOr, KBvXor:
		if lo == 0 || a.Args[1].IsConst() {
			return c.bin(a.K, c.Extract(a.Args[0], hi, lo), c.Extract(a.Args[1], hi, lo))
		}
	case KAdd, KSub, KMul:
		if lo == 0 {
			return c.bin(a.K, c.Extract(a.Args[0], hi, 0), c.Extract(a.Args[1], hi, 0))
		}
	case KLshr:
		// extract(lshr(x, k)) = extract(x, hi+k, lo+k) when in range
		if a.Args[1].IsConst() {
			k := int(a.Args[1].Val)
			if hi+k < a.W {
				return c.Extract(a.Args[0], hi+k, lo+k)
			}
		}
	case KShl:
		if a.Args[1].IsConst() {
			k := int(a.Args[1].Val)
			if lo >= k {
				return c.Extract(a.Args[0], hi-k, lo-k)
			}
			if hi < k {
				return c.BV(0, w)
			}
		}
	}
	return c.mk(&Term{K: KExtract, W: w, Val: uint64(hi)<<8 | uint64(lo), Args: []*Term{a}})
}

func (c *Ctx) Zext(a *Term, w int) *Term {
	if w == a.W {
		return a
	}
	if w < a.W {
		return c.Extract(a, w-1, 0)
	}
	if a.IsConst() {
		return c.BV(a.Val, w)
	}
	if a.K == KZext {
		return c.Zext(a.Args[0], w)
	}
	if a.K == KIte && (a.Args[1].IsConst() || a.Args[2].IsConst()) {
		return c.Ite(a.Args[0], c.Zext(a.Args[1], w), c.Zext(a.Args[2], w))
	}
	return c.mk(&Term{K: KZext, W: w, Args: []*Term{a}})
}

func (c *Ctx) Sext(a *Term, w int) *Term {
	if w == a.W {
		return a
	}
	if w < a.W {
		return c.Extract(a, w-1, 0)
	}
	if a.IsConst() {
		return c.BV(uint64(sext64(a.Val, a.W)), w)
	}
	if ubound(a) < uint64(1)<<uint(a.W-1) {
		return c.Zext(a, w)
	}
	return c.mk(&Term{K: KSext, W: w, Args: []*Term{a}})
}

func (c *Ctx) Concat(h, l *Term) *Term {
	w := h.W + l.W
	if w > 64 {
		panic("concat too wide")
	}
	if h.IsConst() && l.IsConst() {
		return c.BV(h.Val<<uint(l.W)|l.Val, w)
	}
	if h.IsConst() && h.Val == 0 {
		return c.Zext(l, w)
	}
	return c.mk(&Term{K: KConcat, W: w, Args: []*Term{h, l}})
}

func (c *Ctx) Umin(a, b *Term) *Term { return c.Ite(c.Ult(a, b), a, b) }
func (c *Ctx) Smin(a, b *Term) *Term { return c.Ite(c.Slt(a, b), a, b) }

// ---------------------------------------------------------------- printing

func sortStr(w int) string {
	if w == 0 {
		return "Bool"
	}
	return fmt.Sprintf("(_ BitVec %d)", w)
}

func smtName(s string) string {
	s = strings.NewReplacer("|", "_", "\\", "_").Replace(s)
	if strings.HasPrefix(s, "@") || strings.HasPrefix(s, ".") {
		s = "AT_" + s[1:] // symbols starting with @ or . are reserved in SMT-LIB
	}
	return "|" + s + "|"
}

func constStr(t *Term) string {
	if t.W == 0 {
		if t.Val == 1 {
			return "true"
		}
		return "false"
	}
	if t.W%4 == 0 {
		return fmt.Sprintf("#x%0*x", t.W/4, t.Val)
	}
	return fmt.Sprintf("#b%0*b", t.W, t.Val)
}

// ref returns how a term is referenced inside other terms.
func ref(t *Term) string {
	switch t.K {
	case KConst:
		return constStr(t)
	case KVar:
		return smtName(t.Name)
	}
	return "t" + strconv.Itoa(t.ID)
}

func body(t *Term) string {
	var sb strings.Builder
	switch t.K {
	case KUF:
		sb.WriteString("(" + smtName(t.Name))
	case KExtract:
		fmt.Fprintf(&sb, "((_ extract %d %d)", t.Val>>8, t.Val&0xff)
	case KZext:
		fmt.Fprintf(&sb, "((_ zero_extend %d)", t.W-t.Args[0].W)
	case KSext:
		fmt.Fprintf(&sb, "((_ sign_extend %d)", t.W-t.Args[0].W)
	default:
		sb.WriteString("(" + kindName[t.K])
	}
	for _, a := range t.Args {
		sb.WriteByte(' ')
		sb.WriteString(ref(a))
	}
	sb.WriteByte(')')
	return sb.String()
}

// ---------------------------------------------------------------- evaluation under a model

// Model maps variable names to values; UF applications are looked up by printed key.
type Model struct {
	Vars map[string]uint64
}

// Eval evaluates t under m; ok=false if t mentions a UF or an unassigned variable.
func (c *Ctx) Eval(t *Term, m *Model, memo map[int]uint64) (uint64, bool) {
	if t.hasUF {
		return 0, false
	}
	if v, ok := memo[t.ID]; ok {
		return v, true
	}
	var r uint64
	switch t.K {
	case KConst:
		return t.Val, true
	case KVar:
		v, ok := m.Vars[t.Name]
		if !ok {
			return 0, false
		}
		return v & mask1(t.W), true
	}
	args := make([]uint64, len(t.Args))
	// short-circuit for ite
	if t.K == KIte {
		cv, ok := c.Eval(t.Args[0], m, memo)
		if !ok {
			return 0, false
		}
		var v uint64
		if cv == 1 {
			v, ok = c.Eval(t.Args[1], m, memo)
		} else {
			v, ok = c.Eval(t.Args[2], m, memo)
		}
		if ok {
			memo[t.ID] = v
		}
		return v, ok
	}
	for i, a := range t.Args {
		v, ok := c.Eval(a, m, memo)
		if !ok {
			return 0, false
		}
		args[i] = v
	}
	b2u := func(b bool) uint64 {
		if b {
			return 1
		}
		return 0
	}
	switch t.K {
	case KNot:
		r = 1 - args[0]
	case KAnd:
		r = 1
		for _, a := range args {
			r &= a
		}
	case KOr:
		r = 0
		for _, a := range args {
			r |= a
		}
	case KEq:
		r = b2u(args[0] == args[1])
	case KBvNot:
		r = ^args[0] & mask(t.W)
	case KBvNeg:
		r = -args[0] & mask(t.W)
	case KUlt:
		r = b2u(args[0] < args[1])
	case KUle:
		r = b2u(args[0] <= args[1])
	case KSlt:
		w := t.Args[0].W
		r = b2u(sext64(args[0], w) < sext64(args[1], w))
	case KSle:
		w := t.Args[0].W
		r = b2u(sext64(args[0], w) <= sext64(args[1], w))
	case KConcat:
		r = args[0]<<uint(t.Args[1].W) | args[1]
	case KExtract:
		r = (args[0] >> uint(t.Val&0xff)) & mask(t.W)
	case KZext:
		r = args[0]
	case KSext:
		r = uint64(sext64(args[0], t.Args[0].W)) & mask(t.W)
	default:
		// binary bv op: reuse folding
		x := c.bin(t.K, c.BV(args[0], t.W), c.BV(args[1], t.W))
		r = x.Val
	}
	memo[t.ID] = r
	return r, true
}

func mask1(w int) uint64 {
	if w == 0 {
		return 1
	}
	return mask(w)
}

var _ = bits.Len

// evalDefault evaluates t under m, taking 0 for variables the model does not mention.
func (c *Ctx) evalDefault(t *Term, m *Model, memo map[int]uint64) (uint64, bool) {
	if t.hasUF {
		return 0, false
	}
	full := &Model{Vars: map[string]uint64{}}
	for k, v := range m.Vars {
		full.Vars[k] = v
	}
	var fill func(x *Term)
	seen := map[int]bool{}
	fill = func(x *Term) {
		if seen[x.ID] {
			return
		}
		seen[x.ID] = true
		if x.K == KVar {
			if _, ok := full.Vars[x.Name]; !ok {
				full.Vars[x.Name] = 0
			}
		}
		for _, a := range x.Args {
			fill(a)
		}
	}
	fill(t)
	return c.Eval(t, full, memo)
}
