package main

// LoopStep: run a function from its entry to the first arrival at a loop header, let the harness
// inspect / overwrite the loop's φ-variables, and continue for exactly one iteration (next arrival at
// the header) or until the function returns. This is the "one arbitrary iteration from an arbitrary state
// that satisfies the invariant" recipe; it gives claims that do not depend on the number of iterations.

import (
	"fmt"
	"go/types"
	"strings"

	"golang.org/x/tools/go/ssa"
)

type loopCtx struct {
	frame    *Frame // suspended callee frame (nil once it returned)
	header   *ssa.BasicBlock
	ret      Value
	returned bool
	retIdx   int
}

func (e *Engine) findFunc(name string) *ssa.Function {
	if fn, ok := e.fnByName[name]; ok {
		return fn
	}
	var found *ssa.Function
	for _, p := range e.prog.AllPackages() {
		for _, m := range p.Members {
			switch x := m.(type) {
			case *ssa.Function:
				if x.String() == name {
					found = x
				}
			case *ssa.Type:
				for _, t := range []types.Type{x.Type(), types.NewPointer(x.Type())} {
					ms := e.prog.MethodSets.MethodSet(t)
					for i := 0; i < ms.Len(); i++ {
						if fn := e.prog.MethodValue(ms.At(i)); fn != nil && fn.String() == name {
							found = fn
						}
					}
				}
			}
		}
		if found != nil {
			break
		}
	}
	e.fnByName[name] = found
	return found
}

func (e *Engine) loopPhi(s *State, name string) (*ssa.Phi, *Frame) {
	if s.loop == nil || s.loop.frame == nil {
		e.errf("LoopStep: no suspended loop")
	}
	for _, in := range s.loop.header.Instrs {
		ph, ok := in.(*ssa.Phi)
		if !ok {
			break
		}
		if ph.Comment == name {
			return ph, s.loop.frame
		}
	}
	e.errf("LoopStep: no phi named %q at the loop header", name)
	return nil, nil
}

func unwrapAny(v Value) Value {
	if iv, ok := v.(*IfaceV); ok {
		return iv.V
	}
	return v
}

func init() {
	reg := func(name string, h intrinsic) { intrinsics[rtPkg+name] = h }
	switchToIntSolver := func(e *Engine, s *State, what string) {
		// linear arithmetic over 64-bit vectors: cvc5 with bit-vectors solved as integers is far better at it than a
		// bit-blasting core
		if e.sol.name != "cvc5-int" {
			if len(s.pc) > 0 || e.sol.Queries > 0 {
				e.errf("%s must be the first statement of the harness", what)
			}
			ns, err := NewSolver("cvc5-int", e.c, e.sol.timeoutMs)
			if err != nil {
				e.errf("cannot start cvc5: %v", err)
			}
			ns.Queries, ns.Sat, ns.Unsat, ns.Unknown, ns.Time = e.sol.Queries, e.sol.Sat, e.sol.Unsat, e.sol.Unknown, e.sol.Time
			ns.XEvery = 10 // these harnesses issue few queries: cross-check every 10th with the other solver
			e.sol.Close()
			*e.sol = *ns
		}
	}
	reg("SymbolicMemory", func(e *Engine, s *State, f *Frame, fn *ssa.Function, args []Value, retIdx int, advance bool) (Value, bool) {
		s.symMem = true
		e.usedModels = true
		switchToIntSolver(e, s, "SymbolicMemory")
		return nil, true
	})
	// IntegerSolver: only the back end is switched (byte memory stays concretised)
	reg("IntegerSolver", func(e *Engine, s *State, f *Frame, fn *ssa.Function, args []Value, retIdx int, advance bool) (Value, bool) {
		switchToIntSolver(e, s, "IntegerSolver")
		return nil, true
	})
	reg("BytesUF", func(e *Engine, s *State, f *Frame, fn *ssa.Function, args []Value, retIdx int, advance bool) (Value, bool) {
		c := e.c
		tag := e.tagOf(args[0])
		max := argInt(e, args[1])
		name := e.ndName(s, tag)
		var ln *Term
		if max < 65536 {
			ln = c.Zext(c.Var(name+".len", 16), 64)
		} else {
			ln = c.Var(name+".len", 64)
		}
		s.pc = append(s.pc, c.Ule(ln, c.BV(uint64(max), 64)))
		s.model = nil
		arr := e.newUFArr(ln, "uf_"+name)
		o := e.newObj(s, arr, nil, "nondet(UF) "+name)
		m := max
		if m > 48 {
			m = 48
		}
		s.nd = append(s.nd, ndRec{Tag: name, Len: ln, Arr: arr, Max: m})
		return &SliceV{Base: &Pointer{Obj: o.ID}, Off: c.BV(0, 64), Len: ln, Cap: ln}, true
	})
	// LoopEnter(fn string, headerPhi string, args ...any)
	reg("LoopEnter", func(e *Engine, s *State, f *Frame, fn *ssa.Function, args []Value, retIdx int, advance bool) (Value, bool) {
		e.usedModels = true
		name := e.tagOf(args[0])
		phiName := e.tagOf(args[1])
		target := e.findFunc(name)
		if target == nil {
			e.errf("LoopEnter: function %q not found", name)
		}
		var header *ssa.BasicBlock
		// "name#k" selects the k-th (0-based) loop header that defines a φ called name
		want := 0
		phiName = strings.TrimSuffix(phiName, "?")
		if i := strings.IndexByte(phiName, '#'); i >= 0 {
			fmt.Sscan(phiName[i+1:], &want)
			phiName = phiName[:i]
		}
		seen := 0
		for _, b := range target.Blocks {
			has := false
			for _, in := range b.Instrs {
				if ph, ok := in.(*ssa.Phi); ok && ph.Comment == phiName {
					has = true
				}
			}
			if has {
				if seen == want {
					header = b
					break
				}
				seen++
			}
		}
		if header == nil {
			var names []string
			for _, b := range target.Blocks {
				for _, in := range b.Instrs {
					if ph, ok := in.(*ssa.Phi); ok {
						names = append(names, ph.Comment)
					}
				}
			}
			if strings.HasSuffix(e.tagOf(args[1]), "?") {
				// "name#k?": the caller can live without this loop (the code may have been restructured): report 2
				return e.c.BV(2, 64), true
			}
			e.errf("LoopEnter: no phi %q in %s (phis: %s)", phiName, name, strings.Join(names, ","))
		}
		var cargs []Value
		va := args[2].(*SliceV)
		if va.Base != nil {
			n := e.concretize(s, va.Len, "LoopEnter args")
			off := e.concretize(s, va.Off, "LoopEnter args off")
			for i := uint64(0); i < n; i++ {
				el := e.load(s, &Pointer{Obj: va.Base.Obj, Path: append(append([]int(nil), va.Base.Path...), int(off+i))})
				cargs = append(cargs, unwrapAny(el))
			}
		}
		if advance {
			f.ip++
		}
		nf := e.newFrame(target, cargs, nil, -3)
		nf.loopHeader = header
		s.loop = &loopCtx{header: header, retIdx: retIdx}
		g := s.g()
		g.frames = append(g.frames, nf)
		return tailCall, true
	})
	reg("LoopNext", func(e *Engine, s *State, f *Frame, fn *ssa.Function, args []Value, retIdx int, advance bool) (Value, bool) {
		if s.loop == nil || s.loop.frame == nil {
			e.errf("LoopNext: no suspended loop")
		}
		if advance {
			f.ip++
		}
		lc := *s.loop
		nf := lc.frame
		lc.frame = nil
		lc.retIdx = retIdx
		s.loop = &lc
		g := s.g()
		g.frames = append(g.frames, nf)
		return tailCall, true
	})
	reg("LoopPhiInt", func(e *Engine, s *State, f *Frame, fn *ssa.Function, args []Value, retIdx int, advance bool) (Value, bool) {
		ph, lf := e.loopPhi(s, e.tagOf(args[0]))
		v := e.get(s, lf, ph)
		switch x := v.(type) {
		case *Term:
			return e.toInt64(x, ph.Type()), true
		case *SliceV:
			return x.Len, true
		}
		e.errf("LoopPhiInt: phi %s is %T", ph.Comment, v)
		return nil, true
	})
	reg("LoopSetInt", func(e *Engine, s *State, f *Frame, fn *ssa.Function, args []Value, retIdx int, advance bool) (Value, bool) {
		ph, lf := e.loopPhi(s, e.tagOf(args[0]))
		nv := args[1].(*Term)
		old := e.get(s, lf, ph)
		switch x := old.(type) {
		case *Term:
			if x.W < 64 {
				nv = e.c.Extract(nv, x.W-1, 0)
			}
			e.set(lf, ph, nv)
		case *SliceV:
			e.set(lf, ph, &SliceV{Base: x.Base, Str: x.Str, IsStr: x.IsStr, Alias: x.Alias, Off: x.Off, Len: nv, Cap: x.Cap})
		default:
			e.errf("LoopSetInt: phi %s is %T", ph.Comment, old)
		}
		return nil, true
	})
	reg("LoopRetInt", func(e *Engine, s *State, f *Frame, fn *ssa.Function, args []Value, retIdx int, advance bool) (Value, bool) {
		if s.loop == nil || !s.loop.returned {
			e.errf("LoopRetInt: function has not returned")
		}
		i := argInt(e, args[0])
		var v Value = s.loop.ret
		if tv, ok := v.(TupleV); ok {
			v = tv[i]
		}
		t, ok := v.(*Term)
		if !ok {
			e.errf("LoopRetInt: result %d is %T", i, v)
		}
		if t.W < 64 && t.W > 0 {
			t = e.c.Sext(t, 64)
		}
		return t, true
	})
	reg("LoopRetIsNil", func(e *Engine, s *State, f *Frame, fn *ssa.Function, args []Value, retIdx int, advance bool) (Value, bool) {
		if s.loop == nil || !s.loop.returned {
			e.errf("LoopRetIsNil: function has not returned")
		}
		i := argInt(e, args[0])
		var v Value = s.loop.ret
		if tv, ok := v.(TupleV); ok {
			v = tv[i]
		}
		switch x := v.(type) {
		case *IfaceV:
			return e.c.Bool(x.T == nil), true
		case *Pointer:
			return e.c.Bool(x.IsNil()), true
		case *SliceV:
			return e.c.Bool(x.Base == nil && !x.IsStr), true
		}
		e.errf("LoopRetIsNil: result %d is %T", i, v)
		return nil, true
	})
}

// loopArrive is called from jump() when control reaches the watched header: suspend the frame.
func (e *Engine) loopArrive(s *State, f *Frame) {
	g := s.g()
	g.frames = g.frames[:len(g.frames)-1]
	lc := *s.loop
	lc.frame = f
	lc.returned = false
	s.loop = &lc
	caller := g.frames[len(g.frames)-1]
	if lc.retIdx >= 0 {
		caller.locals[lc.retIdx] = e.c.BV(0, 64)
	}
}

var _ = fmt.Sprintf
