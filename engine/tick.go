package main

// Clock-tick algebra. The clock stub produces instants that are multiples of a tick T = 0.5 s, and
// all durations in the code are multiples of it as well. Products x*T are kept in the canonical form
// Mul(x, T) and comparisons / equalities / ite / add / sub between such products are rewritten to the
// same operation on the (small) multipliers, guarded by an interval analysis that rules out overflow.
// This removes every 64-bit multiplication by 10^9 from the solver queries.

const tickT = 125000000 // base unit U = 1/8 s; the clock advances in multiples of 4U = 0.5 s

func (c *Ctx) isMulT(t *Term) (*Term, bool) {
	if t.K == KMul && t.W == 64 && t.Args[1].IsConst() && t.Args[1].Val == tickT {
		return t.Args[0], true
	}
	if t.K == KConst && t.W == 64 {
		v := int64(t.Val)
		if v%tickT == 0 {
			return c.BV(uint64(v/tickT), 64), true
		}
	}
	return nil, false
}

// srange: conservative signed interval of a 64-bit term.
func srange(t *Term) (int64, int64, bool) {
	const lim = int64(1) << 40
	switch t.K {
	case KConst:
		v := int64(t.Val)
		if t.W < 64 {
			v = int64(t.Val)
		}
		if v > -lim && v < lim {
			return v, v, true
		}
		return 0, 0, false
	case KZext:
		if t.Args[0].W <= 36 {
			u := ubound(t.Args[0])
			return 0, int64(u), true
		}
	case KIte:
		l1, h1, ok1 := srange(t.Args[1])
		l2, h2, ok2 := srange(t.Args[2])
		if ok1 && ok2 {
			return min(l1, l2), max(h1, h2), true
		}
	case KAdd:
		l1, h1, ok1 := srange(t.Args[0])
		l2, h2, ok2 := srange(t.Args[1])
		if ok1 && ok2 && l1+l2 > -lim && h1+h2 < lim {
			return l1 + l2, h1 + h2, true
		}
	case KSub:
		l1, h1, ok1 := srange(t.Args[0])
		l2, h2, ok2 := srange(t.Args[1])
		if ok1 && ok2 && l1-h2 > -lim && h1-l2 < lim {
			return l1 - h2, h1 - l2, true
		}
	case KMul:
		if t.Args[1].IsConst() {
			k := int64(t.Args[1].Val)
			l, h, ok := srange(t.Args[0])
			if ok && k > 0 && k < 1<<20 && l*k > -lim && h*k < lim {
				return l * k, h * k, true
			}
		}
	case KLshr:
		l, h, ok := srange(t.Args[0])
		if ok && l >= 0 && t.Args[1].IsConst() {
			return 0, h >> t.Args[1].Val, true
		}
	case KBvAnd:
		if t.Args[1].IsConst() && int64(t.Args[1].Val) >= 0 && int64(t.Args[1].Val) < lim {
			return 0, int64(t.Args[1].Val), true
		}
	}
	return 0, 0, false
}

func smallOK(ts ...*Term) bool {
	for _, t := range ts {
		if _, _, ok := srange(t); !ok {
			return false
		}
	}
	return true
}

// tickBin: add/sub of two tick products.
func (c *Ctx) tickBin(k Kind, a, b *Term) *Term {
	if a.W != 64 {
		return nil
	}
	if a.IsConst() && b.IsConst() {
		return nil
	}
	x, ok1 := c.isMulT(a)
	y, ok2 := c.isMulT(b)
	if !ok1 || !ok2 || !smallOK(x, y) {
		return nil
	}
	return c.mulT(c.bin(k, x, y))
}

func (c *Ctx) mulT(x *Term) *Term {
	if x.IsConst() {
		return c.BV(x.Val*tickT, 64)
	}
	return c.mk(&Term{K: KMul, W: 64, Args: []*Term{x, c.BV(tickT, 64)}})
}

// tickShift: (x*c*U) >> k  ==  x*(c>>k)*U  when c is a multiple of 2^k (exact, no rounding).
func (c *Ctx) tickShift(a, b *Term) *Term {
	if a.W != 64 || !b.IsConst() || b.Val == 0 || b.Val > 3 {
		return nil
	}
	x, ok := c.isMulT(a)
	if !ok || a.IsConst() || !smallOK(x) {
		return nil
	}
	if x.K == KMul && x.Args[1].IsConst() && x.Args[1].Val%(1<<b.Val) == 0 {
		return c.mulT(c.bin(KMul, x.Args[0], c.BV(x.Args[1].Val>>b.Val, 64)))
	}
	return nil
}

// tickMul: x * C with C a multiple of T.
func (c *Ctx) tickMul(a, b *Term) *Term {
	if a.W != 64 || !b.IsConst() || b.Val == tickT || b.Val == 0 {
		return nil
	}
	v := int64(b.Val)
	if v > 0 && v%tickT == 0 && v/tickT < 1<<20 && smallOK(a) {
		return c.mulT(c.bin(KMul, a, c.BV(uint64(v/tickT), 64)))
	}
	return nil
}

// tickCmp: signed/unsigned <= between tick products (both operands small, so no overflow / wrap).
func (c *Ctx) tickCmp(k Kind, a, b *Term) *Term {
	if a.W != 64 || (a.IsConst() && b.IsConst()) {
		return nil
	}
	x, ok1 := c.isMulT(a)
	y, ok2 := c.isMulT(b)
	if ok1 && ok2 && smallOK(x, y) {
		if k == KUle {
			// unsigned comparison of possibly negative products: only rewrite when both are non-negative
			lx, _, _ := srange(x)
			ly, _, _ := srange(y)
			if lx < 0 || ly < 0 {
				return nil
			}
		}
		return c.cmp(KSle, x, y)
	}
	// product vs arbitrary constant
	if ok1 && b.IsConst() && smallOK(x) {
		cv := int64(b.Val)
		q := floorDiv(cv, tickT)
		if k == KUle {
			lx, _, _ := srange(x)
			if lx < 0 || cv < 0 {
				return nil
			}
		}
		return c.cmp(KSle, x, c.BV(uint64(q), 64)) // x*T <= cv  <=>  x <= floor(cv/T)
	}
	if ok2 && a.IsConst() && smallOK(y) {
		cv := int64(a.Val)
		q := -floorDiv(-cv, tickT) // ceil
		if k == KUle {
			ly, _, _ := srange(y)
			if ly < 0 || cv < 0 {
				return nil
			}
		}
		return c.cmp(KSle, c.BV(uint64(q), 64), y)
	}
	return nil
}

func floorDiv(a, b int64) int64 {
	q := a / b
	if (a%b != 0) && ((a < 0) != (b < 0)) {
		q--
	}
	return q
}

func (c *Ctx) tickEq(a, b *Term) *Term {
	if a.W != 64 || (a.IsConst() && b.IsConst()) {
		return nil
	}
	x, ok1 := c.isMulT(a)
	y, ok2 := c.isMulT(b)
	if ok1 && ok2 && smallOK(x, y) {
		return c.Eq(x, y)
	}
	if ok1 && b.IsConst() && smallOK(x) {
		return c.False // b is not a multiple of T (else isMulT would have matched)
	}
	if ok2 && a.IsConst() && smallOK(y) {
		return c.False
	}
	return nil
}

func (c *Ctx) tickIte(cond, a, b *Term) *Term {
	if a.W != 64 || (a.IsConst() && b.IsConst()) {
		return nil
	}
	x, ok1 := c.isMulT(a)
	y, ok2 := c.isMulT(b)
	if ok1 && ok2 && smallOK(x, y) {
		return c.mulT(c.Ite(cond, x, y))
	}
	return nil
}
